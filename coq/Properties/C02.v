(* Properties/C02.v — a filter keeps exactly the matching elements, in order.
   Only statements, each closed by [exact] of a lemma from Proofs/, with
   Print Assumptions beneath. *)
From Mpath.Model Require Import Base Dec Types GoVal Ast Lexer Parser Funcs Eval.
From Mpath.Spec Require Import Logic.
From Mpath.Proofs Require Import C03 C02.

(** [coll[l]] over any slice or array (typed or not, through a pointer or
    not): if the filter body evaluates on every element x (bound to `@`, with
    `$` bound to the original data) to a Go bool b_x, the result is exactly
    the elements with b_x = true, in order, as a []any. *)
Theorem C02_filter_array :
  forall uni eng fuel l us cur orig xs bs,
    as_elems cur = Some xs ->
    Forall2 (fun x b => eval uni eng fuel (NLog l) x orig = Ok (vbool b)) xs bs ->
    eval uni eng (S fuel) (NOp (PFilter l us)) cur orig = Ok (VSlice EAny false (keep xs bs)).
Proof. exact filter_array. Qed.
Print Assumptions C02_filter_array.

(** the kept elements are a subsequence of the input: original order, unchanged *)
Theorem C02_filter_order_unchanged :
  forall (xs : list gv) bs, subseq (keep xs bs) xs.
Proof. exact (@keep_subseq gv). Qed.
Print Assumptions C02_filter_order_unchanged.

(** predicates combine with AND (is_and = true: also the parser's default,
    see C03_default_and) or OR *)
Theorem C02_filter_and_or :
  forall uni eng fuel inv is_and ps us us' cur orig xs (val : gv -> operand -> bool),
    as_elems cur = Some xs ->
    (forall x p, In x xs -> In p ps -> eval uni eng fuel (operand_node p) x orig = Ok (vbool (val x p))) ->
    eval uni eng (S (S fuel)) (NOp (PFilter (LogOp inv true (lot_of is_and) ps us) us')) cur orig
    = Ok (VSlice EAny false (filter (fun x => group_value is_and (map (val x) ps)) xs)).
Proof. exact filter_group. Qed.
Print Assumptions C02_filter_and_or.

Theorem C02_filter_empty :
  forall uni eng fuel l us cur orig,
    as_elems cur = Some [] ->
    eval uni eng (S fuel) (NOp (PFilter l us)) cur orig = Ok (VSlice EAny false []).
Proof. exact filter_empty. Qed.
Print Assumptions C02_filter_empty.

(** [coll[p][q]] equals [coll[AND,p,q]] *)
Theorem C02_filter_chain :
  forall uni eng fuel p q us1 us2 us3 u1 u2 u3 cur orig xs (vp vq : gv -> bool),
    as_elems cur = Some xs ->
    (forall x, In x xs -> eval uni eng fuel (operand_node p) x orig = Ok (vbool (vp x))) ->
    (forall x, In x xs -> eval uni eng fuel (operand_node q) x orig = Ok (vbool (vq x))) ->
    exists mid,
      eval uni eng (S (S fuel)) (NOp (PFilter (LogOp false true LAnd [p] us1) u1)) cur orig = Ok mid /\
      eval uni eng (S (S fuel)) (NOp (PFilter (LogOp false true LAnd [q] us2) u2)) mid orig
      = eval uni eng (S (S fuel)) (NOp (PFilter (LogOp false true LAnd [p; q] us3) u3)) cur orig.
Proof. exact filter_chain. Qed.
Print Assumptions C02_filter_chain.

(** a single object: itself when the predicate is true, null otherwise *)
Theorem C02_filter_object :
  forall uni eng fuel l us cur orig val b,
    get_as_struct_or_slice cur = Some (val, true) ->
    eval uni eng fuel (NLog l) val orig = Ok (vbool b) ->
    eval uni eng (S fuel) (NOp (PFilter l us)) cur orig = Ok (if b then val else VNil).
Proof. exact filter_object. Qed.
Print Assumptions C02_filter_object.

(** `$` denotes the original data wherever it occurs *)
Theorem C02_root_binding :
  forall uni eng fuel inv isf me ops us cur cur' orig,
    eval uni eng fuel (NPath (Path inv true isf me ops us)) cur orig
    = eval uni eng fuel (NPath (Path inv true isf me ops us)) cur' orig.
Proof. exact root_path_ignores_current. Qed.
Print Assumptions C02_root_binding.

(** `@` denotes the element under test *)
Theorem C02_element_binding :
  forall uni eng fuel l us cur orig xs,
    as_elems cur = Some xs ->
    eval uni eng (S fuel) (NOp (PFilter l us)) cur orig
    = bind (filter_elems (fun x => eval uni eng fuel (NLog l) x orig) xs) (fun ys => Ok (VSlice EAny false ys)).
Proof. exact filter_binds_element. Qed.
Print Assumptions C02_element_binding.

(** Non-vacuity: a concrete filter with a `$`-reading argument over a typed
    array of objects. *)
Example C02_example :
  exists t, parse_string uni_ascii (bs "$.xs[@.n.Greater($.lim)].Count()") = Ok t /\
  do_top uni_ascii no_engines t
    (VMap KtStr EAny false
       [(VStr false (bs "lim"), VFloat false false (FFin (mkDec 1 0)));
        (VStr false (bs "xs"), VSlice EAny false
           [VMap KtStr EAny false [(VStr false (bs "n"), VFloat false false (FFin (mkDec 1 0)))];
            VMap KtStr EAny false [(VStr false (bs "n"), VFloat false false (FFin (mkDec 2 0)))];
            VMap KtStr EAny false [(VStr false (bs "n"), VFloat false false (FFin (mkDec 3 0)))]])])
  = Ok (VDec (mkDec 2 0)).
Proof. eexists. split; [vm_compute; reflexivity|]. vm_compute. reflexivity. Qed.
