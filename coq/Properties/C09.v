(* Properties/C09.v — printing a parsed query and parsing it again changes
   nothing.  Statements only (restated as Coq prints them); proofs in
   Proofs/C09.v and Proofs/C09b*.v.
   [canon]: operations whose keys are identifiers, functions are known,
   groups are AND/OR, literals are in the round-trip classes, and whose stored
   userStrings are the compact rendering [render] of their own node — which is
   what the parser produces for the strict grammar [strict_query] (the image of
   render).  For these, parse ∘ render and parse ∘ Sprint are the identity up
   to struct_eq (exactly the identity when the keyword is written), Sprint is
   a fixed point, results agree on every data value and UserString reproduces
   the text: C09b_end_to_end.  [wcanon] weakens the class to what Sprint
   cannot see.  Outside the class the statement is REFUTED for nested path
   arguments written with white space or skipped tokens (recorded finding):
   C09_nested_path_argument_refuted. *)
From Coq Require Import String List Permutation.
From Mpath.Model Require Import Base Dec Types GoVal Ast Lexer Parser Printer Funcs Eval.
From Mpath.Generated Require Import Escapes FuncTable.
From Mpath.Proofs Require C09 C09b1 C09b2 C09b3 C09b4 C09b.
Import Mpath.Proofs.C09 Mpath.Proofs.C09b1 Mpath.Proofs.C09b2 Mpath.Proofs.C09b3 Mpath.Proofs.C09b4 Mpath.Proofs.C09b.

Theorem C09_same_result :
  forall (uni : uclass) (eng : engines) (fuel : nat) (n n' : node) (cur orig : gv), struct_eq_node n n' -> eval uni eng fuel n cur orig = eval uni eng fuel n' cur orig.
Proof. exact Mpath.Proofs.C09.C09_same_result. Qed.
Print Assumptions C09_same_result.

Theorem C09_same_result_top :
  forall (uni : uclass) (eng : engines) (t t' : top) (data : gv), struct_eq t t' -> do_top uni eng t data = do_top uni eng t' data.
Proof. exact Mpath.Proofs.C09.C09_same_result_top. Qed.
Print Assumptions C09_same_result_top.

Theorem C09_escape_unescape_tables :
  (forall x y : str, In (x, y) escape_table <-> In (y, x) unescape_table) /\ (forall x y : str, In (x, y) escape_table -> exists c z : ascii, x = [c] /\ y = [bslash; z]) /\ NoDup (map fst escape_table) /\ NoDup (map fst unescape_table).
Proof. exact Mpath.Proofs.C09.C09_escape_unescape_tables. Qed.
Print Assumptions C09_escape_unescape_tables.

Theorem C09_escape_order_independent :
  forall tbl : list (str * str), Permutation escape_table tbl -> forall s : str, apply_replacements tbl s = escape s.
Proof. exact Mpath.Proofs.C09.C09_escape_order_independent. Qed.
Print Assumptions C09_escape_order_independent.

Theorem C09_unescape_order_independent :
  forall tbl : list (str * str), Permutation unescape_table tbl -> forall s : str, apply_replacements tbl s = unescape s.
Proof. exact Mpath.Proofs.C09.C09_unescape_order_independent. Qed.
Print Assumptions C09_unescape_order_independent.

Theorem C09_unescape_escape :
  forall v : str, clean v -> unescape (escape v) = v.
Proof. exact Mpath.Proofs.C09.C09_unescape_escape. Qed.
Print Assumptions C09_unescape_escape.

Theorem C09_unescape_escape_on_image :
  forall s : str, unescape (escape (unescape s)) = unescape s.
Proof. exact Mpath.Proofs.C09.C09_unescape_escape_on_image. Qed.
Print Assumptions C09_unescape_escape_on_image.

Theorem C09_string_token_roundtrip :
  forall (uni : uclass) (body : list ascii) (cs : list (Z * str)), chars_fuel (S (Datatypes.length body)) body = Some cs -> rsafe false cs = true -> let tok := bs """" ++ body ++ bs """" in let v := unescape (strip_dquotes tok) in lex uni tok = Some [{| tk := TString; ttext := tok; tnext := -1 |}] /\ lex uni (param_string (FPStr v)) = Some [{| tk := TString; ttext := param_string (FPStr v); tnext := -1 |}] /\ unescape (strip_dquotes (param_string (FPStr v))) = v /\ wclean v /\ lit_ok v.
Proof. exact Mpath.Proofs.C09.C09_string_token_roundtrip. Qed.
Print Assumptions C09_string_token_roundtrip.

Theorem C09_literal_roundtrip_utf8 :
  forall (uni : uclass) (v : str), valid_utf8 v -> clean v -> Nat.even (trailing_bslashes v) = true -> exists t : token, lex uni (param_string (FPStr v)) = Some [t] /\ tk t = TString /\ unescape (strip_dquotes (ttext t)) = v.
Proof. exact Mpath.Proofs.C09.C09_literal_roundtrip_utf8. Qed.
Print Assumptions C09_literal_roundtrip_utf8.

Theorem C09_number_roundtrip :
  forall d : dec, dnorm d = d -> Z.abs (coef d) * 10 ^ Z.max 0 (dexp d) < 10 ^ 15 -> -300 <= dexp d + Z.of_nat (Datatypes.length (show_Z (Z.abs (coef d)))) -> numeral (dec_to_string d) = NumOk d.
Proof. exact Mpath.Proofs.C09.C09_number_roundtrip. Qed.
Print Assumptions C09_number_roundtrip.

Theorem C09_key_roundtrip :
  forall (name : str) (q : bool), (q = false -> forall k' : list ascii, name <> k' ++ bs "?") -> strip_qmark (name ++ (if q then bs "?" else [])) = (name, q).
Proof. exact Mpath.Proofs.C09.C09_key_roundtrip. Qed.
Print Assumptions C09_key_roundtrip.

Theorem C09_C09b_render_parses_exact :
  forall (uni : uclass) (a : top), canon uni a -> parse_string uni (render a) = Ok a.
Proof. exact Mpath.Proofs.C09b.C09b_render_parses_exact. Qed.
Print Assumptions C09_C09b_render_parses_exact.

Theorem C09_C09b_render_parses :
  forall (uni : uclass) (a : top), canon uni a -> exists a' : top, parse_string uni (render a) = Ok a' /\ struct_eq a a' /\ top_us a' = render a.
Proof. exact Mpath.Proofs.C09b.C09b_render_parses. Qed.
Print Assumptions C09_C09b_render_parses.

Theorem C09_C09b_sprint_parses_exact :
  forall (uni : uclass) (a : top), canon uni a -> kws a -> parse_string uni (sprint_top a) = Ok a.
Proof. exact Mpath.Proofs.C09b.C09b_sprint_parses_exact. Qed.
Print Assumptions C09_C09b_sprint_parses_exact.

Theorem C09_C09b_sprint_reparses :
  forall (uni : uclass) (a : top), canon uni a -> exists a' : top, parse_string uni (sprint_top a) = Ok a' /\ struct_eq a a' /\ sprint_top a' = sprint_top a.
Proof. exact Mpath.Proofs.C09b.C09b_sprint_reparses. Qed.
Print Assumptions C09_C09b_sprint_reparses.

Theorem C09_C09b_sprint_reparses_weak :
  forall (uni : uclass) (a : top), wcanon uni a -> (dp_top a <= S (Datatypes.length (top_us a)))%nat -> parse_string uni (sprint_top a) = Ok (fixup a) /\ struct_eq a (fixup a) /\ sprint_top (fixup a) = sprint_top a /\ canon uni (fixup a) /\ kws (fixup a) /\ parse_string uni (sprint_top (fixup a)) = Ok (fixup a).
Proof. exact Mpath.Proofs.C09b.C09b_sprint_reparses_weak. Qed.
Print Assumptions C09_C09b_sprint_reparses_weak.

Theorem C09_C09b_parse_is_canon :
  forall (uni : uclass) (s : str) (a : top), strict_query uni s -> parse_string uni s = Ok a -> canon uni a /\ render a = s.
Proof. exact Mpath.Proofs.C09b.C09b_parse_is_canon. Qed.
Print Assumptions C09_C09b_parse_is_canon.

Theorem C09_C09b_strict_decide :
  forall (uni : uclass) (s : str) (t : top), canon_b uni t && str_eqb (render t) s = true -> strict_query uni s.
Proof. exact Mpath.Proofs.C09b.C09b_strict_decide. Qed.
Print Assumptions C09_C09b_strict_decide.

Theorem C09_C09b_end_to_end :
  forall (uni : uclass) (eng : engines) (s : str) (t : top) (data : gv), strict_query uni s -> parse_string uni s = Ok t -> top_us t = s /\ (exists t' : top, parse_string uni (sprint_top t) = Ok t' /\ struct_eq t t' /\ sprint_top t' = sprint_top t /\ parse_string uni (sprint_top t') = Ok t' /\ do_top uni eng t' data = do_top uni eng t data).
Proof. exact Mpath.Proofs.C09b.C09b_end_to_end. Qed.
Print Assumptions C09_C09b_end_to_end.

Theorem C09_C09b_end_to_end_weak :
  forall (uni : uclass) (eng : engines) (t : top) (data : gv), wcanon uni t -> (dp_top t <= S (Datatypes.length (top_us t)))%nat -> exists t' : top, parse_string uni (sprint_top t) = Ok t' /\ struct_eq t t' /\ sprint_top t' = sprint_top t /\ parse_string uni (sprint_top t') = Ok t' /\ do_top uni eng t' data = do_top uni eng t data.
Proof. exact Mpath.Proofs.C09b.C09b_end_to_end_weak. Qed.
Print Assumptions C09_C09b_end_to_end_weak.

Theorem C09_keypath_userstring :
  forall (uni : uclass) (root : bool) (ks : list (str * bool)), Forall (good_key uni) ks -> exists t : top, parse_string uni (key_text root ks) = Ok t /\ top_us t = key_text root ks.
Proof. exact Mpath.Proofs.C09.C09_keypath_userstring. Qed.
Print Assumptions C09_keypath_userstring.

Theorem C09_litfunc_userstring :
  forall (uni : uclass) (root : bool) (ops : list pathop), Forall (frag_op uni) ops -> exists t : top, parse_string uni (fc_text root ops) = Ok t /\ top_us t = fc_text root ops.
Proof. exact Mpath.Proofs.C09.C09_litfunc_userstring. Qed.
Print Assumptions C09_litfunc_userstring.

Theorem C09_nested_path_argument_refuted :
  exists t t' : top, parse_string uni_ascii (bs "$.x.Equal($.a b)") = Ok t /\ sprint_top t = bs "$.x.Equal($.ab)" /\ parse_string uni_ascii (sprint_top t) = Ok t' /\ sprint_top t' = sprint_top t /\ do_top uni_ascii no_engines t c9_data = Ok (VBool false true) /\ do_top uni_ascii no_engines t' c9_data = Ok (VBool false false) /\ ~ struct_eq t t'.
Proof. exact Mpath.Proofs.C09.C09_nested_path_argument_refuted. Qed.
Print Assumptions C09_nested_path_argument_refuted.

Theorem C09_nested_skipped_separator_refuted :
  exists t t' : top, parse_string uni_ascii (bs "$.x.Equal($.y.Add(1;2))") = Ok t /\ sprint_top t = bs "$.x.Equal($.y.Add(12))" /\ parse_string uni_ascii (sprint_top t) = Ok t' /\ do_top uni_ascii no_engines t c9_data = Err (EOther "expected 1 params") /\ do_top uni_ascii no_engines t' c9_data = Ok (VBool false false) /\ ~ struct_eq t t'.
Proof. exact Mpath.Proofs.C09.C09_nested_skipped_separator_refuted. Qed.
Print Assumptions C09_nested_skipped_separator_refuted.

Theorem C09_C09b_ex2 :
  forall (eng : engines) (data : gv), let t := c9b_parse c9b_q2 in parse_string uni_ascii (bs c9b_q2) = Ok t /\ top_us t = bs c9b_q2 /\ (exists t' : top, parse_string uni_ascii (sprint_top t) = Ok t' /\ struct_eq t t' /\ sprint_top t' = sprint_top t /\ parse_string uni_ascii (sprint_top t') = Ok t' /\ do_top uni_ascii eng t' data = do_top uni_ascii eng t data).
Proof. exact Mpath.Proofs.C09b.C09b_ex2. Qed.
Print Assumptions C09_C09b_ex2.
