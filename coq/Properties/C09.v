(* Properties/C09.v — printing a parsed query and parsing it again changes
   nothing (PARTIAL: the reparse / fixed-point / userString theorems cover the
   fragment of key paths with `?` marks and function calls with literal
   arguments, any UTF-8 keys and literals; filters, groups and path / group
   arguments are covered by the correspondence check only — and the full
   statement is REFUTED for nested path arguments, see
   C09_nested_path_argument_refuted: a recorded finding).
   Statements only (restated as Coq prints them); proofs in Proofs/C09.v. *)
From Coq Require Import String List Permutation.
From Mpath.Model Require Import Base Dec Types GoVal Ast Lexer Parser Printer Funcs Eval.
From Mpath.Generated Require Import Escapes FuncTable.
From Mpath.Proofs Require C09.
Import Mpath.Proofs.C09.

Theorem C09_same_result :
  forall (uni : uclass) (eng : engines) (fuel : nat) (n n' : node) (cur orig : gv), struct_eq_node n n' -> eval uni eng fuel n cur orig = eval uni eng fuel n' cur orig.
Proof. exact Mpath.Proofs.C09.C09_same_result. Qed.
Print Assumptions C09_same_result.

Theorem C09_same_result_top :
  forall (uni : uclass) (eng : engines) (t t' : top) (data : gv), struct_eq t t' -> do_top uni eng t data = do_top uni eng t' data.
Proof. exact Mpath.Proofs.C09.C09_same_result_top. Qed.
Print Assumptions C09_same_result_top.

Theorem C09_escape_unescape_tables :
  (forall x y : str, In (x, y) escape_table <-> In (y, x) unescape_table) /\ (forall x y : str, In (x, y) escape_table -> exists c z : ascii, x = [c] /\ y = [bslash; z]) /\ NoDup (map fst escape_table) /\ NoDup (map fst unescape_table).
Proof. exact Mpath.Proofs.C09.C09_escape_unescape_tables. Qed.
Print Assumptions C09_escape_unescape_tables.

Theorem C09_escape_order_independent :
  forall tbl : list (str * str), Permutation escape_table tbl -> forall s : str, apply_replacements tbl s = escape s.
Proof. exact Mpath.Proofs.C09.C09_escape_order_independent. Qed.
Print Assumptions C09_escape_order_independent.

Theorem C09_unescape_order_independent :
  forall tbl : list (str * str), Permutation unescape_table tbl -> forall s : str, apply_replacements tbl s = unescape s.
Proof. exact Mpath.Proofs.C09.C09_unescape_order_independent. Qed.
Print Assumptions C09_unescape_order_independent.

Theorem C09_unescape_escape :
  forall v : str, clean v -> unescape (escape v) = v.
Proof. exact Mpath.Proofs.C09.C09_unescape_escape. Qed.
Print Assumptions C09_unescape_escape.

Theorem C09_unescape_escape_on_image :
  forall s : str, unescape (escape (unescape s)) = unescape s.
Proof. exact Mpath.Proofs.C09.C09_unescape_escape_on_image. Qed.
Print Assumptions C09_unescape_escape_on_image.

Theorem C09_string_token_roundtrip :
  forall (uni : uclass) (body : list ascii) (cs : list (Z * str)), chars_fuel (S (Datatypes.length body)) body = Some cs -> rsafe false cs = true -> let tok := bs """" ++ body ++ bs """" in let v := unescape (strip_dquotes tok) in lex uni tok = Some [{| tk := TString; ttext := tok; tnext := -1 |}] /\ lex uni (param_string (FPStr v)) = Some [{| tk := TString; ttext := param_string (FPStr v); tnext := -1 |}] /\ unescape (strip_dquotes (param_string (FPStr v))) = v /\ wclean v /\ lit_ok v.
Proof. exact Mpath.Proofs.C09.C09_string_token_roundtrip. Qed.
Print Assumptions C09_string_token_roundtrip.

Theorem C09_literal_roundtrip_utf8 :
  forall (uni : uclass) (v : str), valid_utf8 v -> clean v -> Nat.even (trailing_bslashes v) = true -> exists t : token, lex uni (param_string (FPStr v)) = Some [t] /\ tk t = TString /\ unescape (strip_dquotes (ttext t)) = v.
Proof. exact Mpath.Proofs.C09.C09_literal_roundtrip_utf8. Qed.
Print Assumptions C09_literal_roundtrip_utf8.

Theorem C09_number_roundtrip :
  forall d : dec, dnorm d = d -> Z.abs (coef d) * 10 ^ Z.max 0 (dexp d) < 10 ^ 15 -> -300 <= dexp d + Z.of_nat (Datatypes.length (show_Z (Z.abs (coef d)))) -> numeral (dec_to_string d) = NumOk d.
Proof. exact Mpath.Proofs.C09.C09_number_roundtrip. Qed.
Print Assumptions C09_number_roundtrip.

Theorem C09_key_roundtrip :
  forall (name : str) (q : bool), (q = false -> forall k' : list ascii, name <> k' ++ bs "?") -> strip_qmark (name ++ (if q then bs "?" else [])) = (name, q).
Proof. exact Mpath.Proofs.C09.C09_key_roundtrip. Qed.
Print Assumptions C09_key_roundtrip.

Theorem C09_keypath_reparse :
  forall (uni : uclass) (root : bool) (ks : list (str * bool)), Forall (good_key uni) ks -> parse_string uni (key_text root ks) = Ok (TopP (Path false root false false (key_ops ks) (key_text root ks))).
Proof. exact Mpath.Proofs.C09.C09_keypath_reparse. Qed.
Print Assumptions C09_keypath_reparse.

Theorem C09_keypath_struct_eq :
  forall (uni : uclass) (inv root me : bool) (ops : list pathop) (us : str) (ks : list (str * bool)), ops_keys ops ks -> Forall (good_key uni) ks -> let a := Path inv root false me ops us in exists a' : path, parse_string uni (sprint_top (TopP a)) = Ok (TopP a') /\ struct_eq (TopP a) (TopP a') /\ sprint_top (TopP a') = sprint_top (TopP a) /\ path_us a' = sprint_top (TopP a).
Proof. exact Mpath.Proofs.C09.C09_keypath_struct_eq. Qed.
Print Assumptions C09_keypath_struct_eq.

Theorem C09_litfunc_reparse :
  forall (uni : uclass) (inv root me : bool) (ops : list pathop) (us : str), Forall (frag_op uni) ops -> let a := Path inv root false me ops us in exists a' : path, parse_string uni (sprint_top (TopP a)) = Ok (TopP a') /\ struct_eq (TopP a) (TopP a') /\ sprint_top (TopP a') = sprint_top (TopP a) /\ path_us a' = sprint_top (TopP a).
Proof. exact Mpath.Proofs.C09.C09_litfunc_reparse. Qed.
Print Assumptions C09_litfunc_reparse.

Theorem C09_litfunc_reparse_text :
  forall (uni : uclass) (root : bool) (ops : list pathop), Forall (frag_op uni) ops -> parse_string uni (fc_text root ops) = Ok (TopP (Path false root false false (fc_norm_ops ops) (fc_text root ops))).
Proof. exact Mpath.Proofs.C09.C09_litfunc_reparse_text. Qed.
Print Assumptions C09_litfunc_reparse_text.

Theorem C09_litfunc_same_result :
  forall (uni : uclass) (eng : engines) (inv root me : bool) (ops : list pathop) (us : str) (data : gv), Forall (frag_op uni) ops -> let a := Path inv root false me ops us in exists a' : path, parse_string uni (sprint_top (TopP a)) = Ok (TopP a') /\ do_top uni eng (TopP a') data = do_top uni eng (TopP a) data.
Proof. exact Mpath.Proofs.C09.C09_litfunc_same_result. Qed.
Print Assumptions C09_litfunc_same_result.

Theorem C09_litfunc_names_are_keys :
  forallb (fun d : fdesc => str_eqb (bs (fd_name d)) (bs (fd_key d))) func_table = true /\ forallb (fun d : fdesc => fc_name_ok (bs (fd_key d))) func_table = true.
Proof. exact Mpath.Proofs.C09.C09_litfunc_names_are_keys. Qed.
Print Assumptions C09_litfunc_names_are_keys.

Theorem C09_keypath_userstring :
  forall (uni : uclass) (root : bool) (ks : list (str * bool)), Forall (good_key uni) ks -> exists t : top, parse_string uni (key_text root ks) = Ok t /\ top_us t = key_text root ks.
Proof. exact Mpath.Proofs.C09.C09_keypath_userstring. Qed.
Print Assumptions C09_keypath_userstring.

Theorem C09_litfunc_userstring :
  forall (uni : uclass) (root : bool) (ops : list pathop), Forall (frag_op uni) ops -> exists t : top, parse_string uni (fc_text root ops) = Ok t /\ top_us t = fc_text root ops.
Proof. exact Mpath.Proofs.C09.C09_litfunc_userstring. Qed.
Print Assumptions C09_litfunc_userstring.

Theorem C09_nested_path_argument_refuted :
  exists t t' : top, parse_string uni_ascii (bs "$.x.Equal($.a b)") = Ok t /\ sprint_top t = bs "$.x.Equal($.ab)" /\ parse_string uni_ascii (sprint_top t) = Ok t' /\ sprint_top t' = sprint_top t /\ do_top uni_ascii no_engines t c9_data = Ok (VBool false true) /\ do_top uni_ascii no_engines t' c9_data = Ok (VBool false false) /\ ~ struct_eq t t'.
Proof. exact Mpath.Proofs.C09.C09_nested_path_argument_refuted. Qed.
Print Assumptions C09_nested_path_argument_refuted.

Theorem C09_nested_skipped_separator_refuted :
  exists t t' : top, parse_string uni_ascii (bs "$.x.Equal($.y.Add(1;2))") = Ok t /\ sprint_top t = bs "$.x.Equal($.y.Add(12))" /\ parse_string uni_ascii (sprint_top t) = Ok t' /\ do_top uni_ascii no_engines t c9_data = Err (EOther "expected 1 params") /\ do_top uni_ascii no_engines t' c9_data = Ok (VBool false false) /\ ~ struct_eq t t'.
Proof. exact Mpath.Proofs.C09.C09_nested_skipped_separator_refuted. Qed.
Print Assumptions C09_nested_skipped_separator_refuted.

Theorem C09_litfunc_ex1 :
  parse_string uni_ascii (bs "$.a?.Equal(""x\ty"",-12.5,true).Count()") = Ok (TopP (Path false true false false [PIdent (bs "a") true (bs "a?"); PFunc (Func false (bs "Equal") [FPStr [chr 120; chr 9; chr 121]; FPNum {| coef := -125; dexp := -1 |}; FPBool true] (bs "Equal(""x\ty"",-12.5,true)")); PFunc (Func false (bs "Count") [] (bs "Count()"))] (bs "$.a?.Equal(""x\ty"",-12.5,true).Count()"))).
Proof. exact Mpath.Proofs.C09.C09_litfunc_ex1. Qed.
Print Assumptions C09_litfunc_ex1.
