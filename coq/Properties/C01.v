(* Properties/C01.v — a path returns exactly the value stored at that path.
   Statements only; proofs in Proofs/C01.v (same names there).
   Spec/Json.v: jv, lookup1, lookup (case-insensitive field lookup; a key
   across an array of objects collects that key's values from the elements
   that have it, in order).  wf_doc: documents built from objects (maps with
   string keys, structs), arrays (slices of any element type, arrays), null,
   booleans, non-numeral strings and numbers in every Go carrier. *)
From Coq Require Import Permutation.
From Mpath.Model Require Import Base Dec Types GoVal Ast Lexer Parser Funcs Eval.
From Mpath.Spec Require Import Json.
From Mpath.Proofs Require C01.
Import Mpath.Proofs.C01.

Theorem C01_lookup_refines : forall uni eng g ks ks' fuel,
  wf_doc g -> g <> VNil ->
  Forall2 fold_eq ks' ks -> ks <> [] -> (2 <= fuel)%nat ->
  proj (eval uni eng fuel (key_path ks') g g) = Some (lookup (abs g) ks).
Proof. exact Mpath.Proofs.C01.C01_lookup_refines. Qed.
Print Assumptions C01_lookup_refines.

(** never a different field's value or an invented one *)
Theorem C01_no_invented_value : forall uni eng g ks ks' fuel v,
  wf_doc g -> g <> VNil -> Forall2 fold_eq ks' ks -> ks <> [] -> (2 <= fuel)%nat ->
  eval uni eng fuel (key_path ks') g g = Ok v -> lookup (abs g) ks = Found (abs v).
Proof. exact Mpath.Proofs.C01.C01_no_invented_value. Qed.
Print Assumptions C01_no_invented_value.

(** a missing key is ErrKeyNotFound *)
Theorem C01_key_not_found : forall uni eng g ks ks' fuel,
  wf_doc g -> g <> VNil -> Forall2 fold_eq ks' ks -> ks <> [] -> (2 <= fuel)%nat ->
  lookup (abs g) ks = KeyNotFound -> eval uni eng fuel (key_path ks') g g = Err EKeyNotFound.
Proof. exact Mpath.Proofs.C01.C01_key_not_found. Qed.
Print Assumptions C01_key_not_found.

Theorem C01_outcomes : forall uni eng g ks ks' fuel,
  wf_doc g -> g <> VNil -> Forall2 fold_eq ks' ks -> ks <> [] -> (2 <= fuel)%nat ->
  match lookup (abs g) ks with
  | Found x => exists v, eval uni eng fuel (key_path ks') g g = Ok v /\ abs v = x
  | KeyNotFound => eval uni eng fuel (key_path ks') g g = Err EKeyNotFound
  | OnNull => exists tag, eval uni eng fuel (key_path ks') g g = Err (EOther tag)
  end.
Proof. exact Mpath.Proofs.C01.C01_outcomes. Qed.
Print Assumptions C01_outcomes.

(** documents as encoding/json decodes them are in the domain *)
Theorem C01_json_documents : forall g, json_carrier g -> wf_doc g.
Proof. exact json_carrier_wf. Qed.
Print Assumptions C01_json_documents.

(** the order in which a map is iterated is irrelevant when sibling keys stay distinct under folding *)
Theorem C01_map_order_irrelevant : forall kvs kvs' k,
  Permutation kvs kvs' -> keys_distinct (map fst kvs) -> lookup1 k (JObj kvs) = lookup1 k (JObj kvs').
Proof. exact Mpath.Proofs.C01.C01_map_order_irrelevant. Qed.
Print Assumptions C01_map_order_irrelevant.

Theorem C01_map_order_eval : forall uni eng g g' ks ks' fuel,
  wf_doc g -> wf_doc g' -> g <> VNil -> g' <> VNil ->
  fold_distinct (abs g) -> jperm (abs g) (abs g') ->
  Forall2 fold_eq ks' ks -> ks <> [] -> (2 <= fuel)%nat ->
  exists r r', proj (eval uni eng fuel (key_path ks') g g) = Some r /\
               proj (eval uni eng fuel (key_path ks') g' g') = Some r' /\ lres_perm r r'.
Proof. exact Mpath.Proofs.C01.C01_map_order_eval. Qed.
Print Assumptions C01_map_order_eval.

(** a null root: ErrKeyNotFound (a null met later on the way is the "nil value" error) *)
Theorem C01_root_null : forall uni eng ks' fuel, ks' <> [] -> (2 <= fuel)%nat ->
  eval uni eng fuel (key_path ks') VNil VNil = Err EKeyNotFound.
Proof. exact Mpath.Proofs.C01.C01_root_null. Qed.
Print Assumptions C01_root_null.

(** non-vacuity: {"Items":[{name:bolt,qty:2},{Name:nut}],"gone":null} and `$.items.NAME` *)
Example C01_example :
  proj (eval uni_ascii no_engines default_fuel (key_path [bs "items"; bs "NAME"]) example_doc example_doc)
  = Some (Found (JArr [JStr (bs "bolt"); JStr (bs "nut")])).
Proof. exact Mpath.Proofs.C01.C01_example_by_theorem. Qed.
