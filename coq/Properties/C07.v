(* Properties/C07.v — evaluation is total: an error or a result, never a panic.
   Only statements, each closed by [exact] of a lemma from Proofs/NoPanic.v.

   [Panic] is produced in the model by exactly the primitives that panic in Go
   (index out of range, slice bounds, failed type assertion).  The only
   residual side condition is physical: Index / Left / Right / TrimLeft /
   TrimRight go through a 64-bit integer, so their receiver must be shorter
   than 2^63 elements / bytes — true of every Go value, not of every Coq list
   (C07_unguarded_refuted shows the condition cannot be dropped in the model).
   [guard] is a computable mirror of [eval] that is true iff every such call
   actually performed has a receiver below that size. *)
From Mpath.Model Require Import Base Dec Types GoVal Ast Lexer Parser Funcs Eval.
From Mpath.Proofs Require Import NoPanic Termination.

(** any AST (also ones no parser produces), any data (funcs, chans, nil
    pointers, structs with unexported fields, NaN), any fuel, any engines *)
Theorem C07_no_panic : forall uni eng fuel n cur orig m,
  guard uni eng fuel n cur orig = true ->
  eval uni eng fuel n cur orig <> Panic m.
Proof. exact eval_never_panics. Qed.
Print Assumptions C07_no_panic.

(** unconditional for every query that does not call Index, Left, Right,
    TrimLeft, TrimRight or Select *)
Theorem C07_no_panic_plain : forall uni eng fuel n cur orig m,
  plain_node n = true -> eval uni eng fuel n cur orig <> Panic m.
Proof. exact eval_never_panics_plain. Qed.
Print Assumptions C07_no_panic_plain.

(** every function of the table, on every receiver and argument list *)
Theorem C07_functions_no_panic : forall eng ft ps val m,
  recv_ok ft val = true -> run_func eng ft ps val <> Panic m.
Proof. exact run_func_never_panics. Qed.
Print Assumptions C07_functions_no_panic.

Theorem C07_functions_no_panic_other : forall eng ft ps val m,
  indexing_func ft = false -> run_func eng ft ps val <> Panic m.
Proof. exact run_func_never_panics_other. Qed.
Print Assumptions C07_functions_no_panic_other.

(** parsing (also the re-parse done by Select) never panics *)
Theorem C07_parse_no_panic : forall uni s m, parse_string uni s <> Panic m.
Proof. exact parse_never_panics. Qed.
Print Assumptions C07_parse_no_panic.

(** the size condition cannot be dropped in the model: Index(2^63) on a list
    of 2^63+1 elements wraps to a negative index *)
Theorem C07_unguarded_refuted :
  ~ (forall uni eng fuel n cur orig m, eval uni eng fuel n cur orig <> Panic m).
Proof. exact eval_unguarded_statement_is_false. Qed.
Print Assumptions C07_unguarded_refuted.

(** "…and always terminates": for a query without Select the fuel [depth n],
    computable from the query alone, always suffices — whatever the data *)
Theorem C07_terminates_no_select : forall uni eng n cur orig fuel,
  no_select n = true -> (depth n <= fuel)%nat -> eval uni eng fuel n cur orig <> OutOfFuel.
Proof. exact eval_fuel_sufficient_no_select. Qed.
Print Assumptions C07_terminates_no_select.

(** with Select, when every sub-query is a string literal (recursively):
    an explicit bound k, again independent of the data *)
Theorem C07_terminates_static_select : forall uni eng n k cur orig fuel,
  static_select uni n k -> (k <= fuel)%nat -> eval uni eng fuel n cur orig <> OutOfFuel.
Proof. exact eval_fuel_sufficient_static. Qed.
Print Assumptions C07_terminates_static_select.

(** parsed queries are at most 3·|text|+8 deep, so the default fuel suffices for every Select-free query of up to 1362 bytes *)
Theorem C07_terminates_parsed : forall uni eng (s : str) t data,
  parse_string uni s = Ok t -> no_select (NTop t) = true -> (length s <= 1362)%nat -> do_top uni eng t data <> OutOfFuel.
Proof. exact do_top_terminates_short_no_select. Qed.
Print Assumptions C07_terminates_parsed.

(** REFUTED for a sub-query read from the data (recorded finding): the query
    `$.AsArray().Select($.q)` on {"q": that same text} runs out of every fuel —
    in Go it recurses until the stack overflows *)
Theorem C07_select_self_reference_refuted :
  let q := bs "$.AsArray().Select($.q)" in
  exists t, parse_string uni_ascii q = Ok t /\
    forall fuel,
      eval uni_ascii no_engines fuel (NTop t)
           (VMap KtStr EAny false [(VStr false (bs "q"), VStr false q)])
           (VMap KtStr EAny false [(VStr false (bs "q"), VStr false q)]) = OutOfFuel.
Proof. exact select_self_reference_diverges. Qed.
Print Assumptions C07_select_self_reference_refuted.

(** non-vacuity: the guard holds on a concrete composite query *)
Example C07_example :
  ex_run "$.rows.Select(""@.v"").Index(2)" = Some (true, Ok (VDec (mkDec 3 0))).
Proof. exact guard_ex_select_index. Qed.
