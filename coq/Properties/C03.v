(* Properties/C03.v — logical groups are truth-functional AND / OR.
   Only statements, each closed by [exact] of a lemma from Proofs/, with
   Print Assumptions beneath. *)
From Mpath.Model Require Import Base Dec Types GoVal Ast Lexer Parser Funcs Eval.
From Mpath.Spec Require Import Logic.
From Mpath.Proofs Require Import C03.

(** One group: if every operand evaluates (without error) to a Go bool, the
    group evaluates to the conjunction / disjunction of those values — true
    for an empty AND, false for an empty OR.  Any Unicode classifier, any
    engines, any data, any flags. *)
Theorem C03_group_truth_functional :
  forall uni eng fuel inv isf is_and xs us cur orig bs,
    Forall2 (fun x b => eval uni eng fuel (operand_node x) cur orig = Ok (vbool b)) xs bs ->
    eval uni eng (S fuel) (NLog (LogOp inv isf (lot_of is_and) xs us)) cur orig
    = Ok (vbool (group_value is_and bs)).
Proof. exact group_one_level. Qed.
Print Assumptions C03_group_truth_functional.

(** Whole trees, of any depth and width: the value of the tree is the
    recursive conjunction / disjunction of the leaf values. *)
Theorem C03_tree :
  forall uni eng cur orig leaf f0 n g,
    (height g <= n)%nat ->
    (forall p, In p (leaves g) -> eval uni eng f0 (NPath p) cur orig = Ok (vbool (leaf p))) ->
    forall fuel, (f0 + n <= fuel)%nat ->
      eval uni eng fuel (operand_node (to_operand g)) cur orig = Ok (vbool (gvalue leaf g)).
Proof. exact group_tree. Qed.
Print Assumptions C03_tree.

(** The result of a group is always a bool. *)
Theorem C03_result_is_bool :
  forall uni eng fuel l cur orig v,
    eval uni eng fuel (NLog l) cur orig = Ok v -> exists b, v = vbool b.
Proof. exact group_result_is_bool. Qed.
Print Assumptions C03_result_is_bool.

(** AND when the keyword is omitted (the parser's default). *)
Theorem C03_default_and :
  forall k isf brace first rest,
    is_ch brace 123 || is_ch brace 91 = true ->
    is_ident_tok first = false ->
    parse_log (S k) isf (CTok brace) (first :: rest)
    = log_loop k false isf LAnd [] (ttext brace) (CTok first) rest.
Proof. exact group_default_and. Qed.
Print Assumptions C03_default_and.

(** Placement as a function argument: the function receives the group's bool. *)
Theorem C03_as_argument :
  forall (ev : node -> outcome gv) l b,
    ev (NLog l) = Ok (vbool b) -> eval_params ev [FPLog l] = Ok [RBool b].
Proof. exact group_as_argument. Qed.
Print Assumptions C03_as_argument.

(** Non-vacuity: a concrete two-level tree over concrete data meets the
    hypotheses and evaluates as stated. *)
Example C03_example :
  exists t, parse_string uni_ascii (bs "{OR,{$.a,$.b},$.b}") = Ok t /\
  do_top uni_ascii no_engines t
    (VMap KtStr EAny false [(VStr false (bs "a"), VBool false true); (VStr false (bs "b"), VBool false false)])
  = Ok (vbool (group_value false [group_value true [true; false]; false])).
Proof. eexists. split; [vm_compute; reflexivity|]. vm_compute. reflexivity. Qed.
