(* Properties/C20.v — the static read-set analyses cover everything a query
   reads.  Statements only; proofs in Proofs/C20.v (same names there).
   root_fields / addressed_paths (Model/Analysis.v) model GetRootFieldsAccessed
   and AddressedPaths; `chains` is the independent description of the key
   chains a query navigates; `begins_with_key` says that every path that
   starts from the root document begins with a key. *)
From Mpath.Model Require Import Base Dec Types GoVal Ast Lexer Parser Funcs Eval Analysis.
From Mpath.Proofs Require C20.
Import Mpath.Proofs.C20.

Theorem C20_root_fields_sorted_nodup : forall t, sorted (root_fields t).
Proof. exact Mpath.Proofs.C20.C20_root_fields_sorted_nodup. Qed.
Print Assumptions C20_root_fields_sorted_nodup.
Theorem C20_root_fields_nodup : forall t, NoDup (root_fields t).
Proof. exact Mpath.Proofs.C20.C20_root_fields_nodup. Qed.
Print Assumptions C20_root_fields_nodup.

(** non-interference: two root documents that answer alike for every listed
    key give the same result — for every query, fuel, engines, data *)
Theorem C20_root_fields_sound : forall uni eng fuel t d d',
  begins_with_key t -> agree (root_fields t) d d' ->
  eval uni eng fuel (NTop t) d d = eval uni eng fuel (NTop t) d' d'.
Proof. exact Mpath.Proofs.C20.C20_root_fields_sound. Qed.
Print Assumptions C20_root_fields_sound.

(** for parsed queries the premise is a check of flags *)
Theorem C20_root_fields_sound_parsed : forall uni0 s uni eng fuel t d d',
  parse_string uni0 s = Ok t -> begins_with_key_flags t = true -> agree (root_fields t) d d' ->
  eval uni eng fuel (NTop t) d d = eval uni eng fuel (NTop t) d' d'.
Proof. exact Mpath.Proofs.C20.C20_root_fields_sound_parsed. Qed.
Print Assumptions C20_root_fields_sound_parsed.

(** adding, removing or replacing a root field whose name folds to no listed
    name preserves the premise *)
Theorem C20_unlisted_field_add : forall L kt vt n n' kvs1 kvs2 key v,
  key_irrelevant L key ->
  agree L (VMap kt vt n (kvs1 ++ kvs2)) (VMap kt vt n' (kvs1 ++ (key, v) :: kvs2)).
Proof. exact agree_map_add. Qed.
Print Assumptions C20_unlisted_field_add.
Theorem C20_unlisted_field_replace : forall L kt vt n n' kvs1 kvs2 key v key' v',
  key_irrelevant L key -> key_irrelevant L key' ->
  agree L (VMap kt vt n (kvs1 ++ (key, v) :: kvs2)) (VMap kt vt n' (kvs1 ++ (key', v') :: kvs2)).
Proof. exact agree_map_replace. Qed.
Print Assumptions C20_unlisted_field_replace.

(** AddressedPaths: every chain is covered, every returned path is a chain, none twice, none empty *)
Theorem C20_addressed_cover : forall t c,
  In c (chains t) -> c <> [] -> exists p, In p (addressed_paths t) /\ is_prefix c p.
Proof. exact Mpath.Proofs.C20.C20_addressed_cover. Qed.
Print Assumptions C20_addressed_cover.
Theorem C20_addressed_exact : forall t p, In p (addressed_paths t) -> In p (chains t).
Proof. exact Mpath.Proofs.C20.C20_addressed_exact. Qed.
Print Assumptions C20_addressed_exact.
Theorem C20_addressed_nodup : forall t, NoDup (addressed_paths t).
Proof. exact Mpath.Proofs.C20.C20_addressed_nodup. Qed.
Print Assumptions C20_addressed_nodup.
Theorem C20_addressed_nonempty : forall t p, In p (addressed_paths t) -> p <> [].
Proof. exact Mpath.Proofs.C20.C20_addressed_nonempty. Qed.
Print Assumptions C20_addressed_nonempty.
