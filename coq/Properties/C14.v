(* Properties/C14.v — function typing agrees with the published descriptors
   and with evaluation.  Statements only (restated as Coq prints them); proofs
   in Proofs/C14.v.  The accept / reported-type theorems hold for ANY
   descriptor table; type soundness is proved row by row over the table
   regenerated from ListFunctions() (Generated/FuncTable.v).  Recorded
   deviations (each a theorem): the element-type refinement misses `bytes`
   lists; AsArray and Select on a typed list report the element type as an
   Array although they return an array of arrays / of sub-query results;
   numeral strings (known finding F23). *)
From Coq Require Import String List.
From Mpath.Model Require Import Base Dec Types GoVal Ast Parser Funcs Cue Validate.
From Mpath.Generated Require Import FuncTable.
From Mpath.Proofs Require Import NoPanic.
From Mpath.Spec Require Import Walk.
From Mpath.Proofs Require C13 C14.
Import Mpath.Proofs.C13 Mpath.Proofs.C14.

Theorem C14_accepts_iff :
  forall (tbl : list fdesc) (root : cty) (blocked : list str) (invalid : bool) (ft : str) (ps : list param) (us : str) (cue : list str) (prev : ioty) (v : cty) (ats : list vty), find_value_at_path root cue = Some v -> (invalid = true -> find_fdesc_key ft tbl = None) -> arg_types tbl root blocked cue ps = Some ats -> (forall d : fdesc, find_fdesc_key ft tbl = Some d -> conform (fd_params d) ats = true /\ any_single_array_gap (fd_on d) prev = false /\ typed_variadic (fd_on d) = false) -> part_has (call_part (validate_func tbl root blocked (Func invalid ft ps us) cue (Some prev))) = false <-> (exists d : fdesc, find_fdesc_key ft tbl = Some d /\ arity_ok (fd_params d) (Datatypes.length ats) = true /\ admits (fd_on d) prev = true).
Proof. exact Mpath.Proofs.C14.C14_accepts_iff. Qed.
Print Assumptions C14_accepts_iff.

Theorem C14_accepts_iff_cue :
  forall (tbl : list fdesc) (schema : cty) (k : str) (ks : list str) (invalid : bool) (ft : str) (ps : list param) (us : str) (prev : ptype * iotype) (ats : list vty), wf_schema schema = true -> walk schema (k :: ks) = Accept prev -> (invalid = true -> find_fdesc_key ft tbl = None) -> arg_types tbl schema [] (k :: ks) ps = Some ats -> (forall d : fdesc, find_fdesc_key ft tbl = Some d -> conform (fd_params d) ats = true /\ any_single_array_gap (fd_on d) prev = false /\ typed_variadic (fd_on d) = false) -> let r := validate_top_gen tbl schema [] (call_path (k :: ks) (Func invalid ft ps us)) in v_err r = false /\ v_has_errors r = false <-> (exists d : fdesc, find_fdesc_key ft tbl = Some d /\ arity_ok (fd_params d) (Datatypes.length ats) = true /\ admits (fd_on d) prev = true).
Proof. exact Mpath.Proofs.C14.C14_accepts_iff_cue. Qed.
Print Assumptions C14_accepts_iff_cue.

Theorem C14_reported_type :
  forall (tbl : list fdesc) (root : cty) (blocked : list str) (invalid : bool) (ft : str) (ps : list param) (us : str) (cue : list str) (prev : vty) (v : cty) (d : fdesc), find_value_at_path root cue = Some v -> find_fdesc_key ft tbl = Some d -> call_type (validate_func tbl root blocked (Func invalid ft ps us) cue prev) = Some (reported d v prev).
Proof. exact Mpath.Proofs.C14.C14_reported_type. Qed.
Print Assumptions C14_reported_type.

Theorem C14_reported_type_cue :
  forall (tbl : list fdesc) (schema : cty) (k : str) (ks : list str) (invalid : bool) (ft : str) (ps : list param) (us : str) (prev : ptype * iotype) (d : fdesc), wf_schema schema = true -> walk schema (k :: ks) = Accept prev -> find_fdesc_key ft tbl = Some d -> exists v : cty, find_value_at_path schema (k :: ks) = Some v /\ kind_of v = prev /\ v_type (validate_top_gen tbl schema [] (call_path (k :: ks) (Func invalid ft ps us))) = Some (reported d v (Some prev)).
Proof. exact Mpath.Proofs.C14.C14_reported_type_cue. Qed.
Print Assumptions C14_reported_type_cue.

Theorem C14_reported_type_plain :
  forall (d : fdesc) (v : cty) (prev : vty), ioty_eqb (fd_ret d) (PT_Any, IO_Single) = false -> implb (fd_known d) (ptype_eqb (fst (fd_ret d)) PT_Any) = true -> reported d v prev = fd_ret d.
Proof. exact Mpath.Proofs.C14.C14_reported_type_plain. Qed.
Print Assumptions C14_reported_type_plain.

Theorem C14_reported_type_element :
  forall (d : fdesc) (o : bool) (e : cty), fd_ret d = (PT_Any, IO_Single) -> wf (CList o e) = true -> e <> CBytes -> reported d (CList o e) (Some (kind_of (CList o e))) = (fst (kind_of e), IO_Single).
Proof. exact Mpath.Proofs.C14.C14_reported_type_element. Qed.
Print Assumptions C14_reported_type_element.

Theorem C14_reported_type_asarray_select :
  forall key : str, In key [bs "AsArray"; bs "Select"] -> exists d : fdesc, find_fdesc_key key func_table = Some d /\ fd_ret d = (PT_Any, IO_Array) /\ (forall (v : cty) (prev : vty), reported d v prev = fd_ret d).
Proof. exact Mpath.Proofs.C14.C14_reported_type_asarray_select. Qed.
Print Assumptions C14_reported_type_asarray_select.

Theorem C14_type_sound :
  forall d : fdesc, In d func_table -> fd_key d <> "Select" -> forall (eng : engines) (prev : ioty) (args : list rparam) (g : gv), admits (fd_on d) prev = true -> rconform (fd_params d) args = true -> has_type g prev -> plain_strings g -> recv_ok (fd_key d) (convert_number g) = true -> let o := run_func eng (fd_key d) args (convert_number g) in np o /\ typed_outcome o (sound_reported (fd_ret d) prev).
Proof. exact Mpath.Proofs.C14.C14_type_sound. Qed.
Print Assumptions C14_type_sound.

Theorem C14_type_sound_reported :
  forall (d : fdesc) (v : cty), In d func_table -> fd_key d <> "Select" -> wf v = true -> forall (eng : engines) (args : list rparam) (g : gv), let prev := kind_of v in admits (fd_on d) prev = true -> rconform (fd_params d) args = true -> has_type g prev -> plain_strings g -> recv_ok (fd_key d) (convert_number g) = true -> let o := run_func eng (fd_key d) args (convert_number g) in np o /\ typed_outcome o (reported d v (Some prev)).
Proof. exact Mpath.Proofs.C14.C14_type_sound_reported. Qed.
Print Assumptions C14_type_sound_reported.

Theorem C14_asarray_type_sound :
  forall (v : cty) (eng : engines) (g : gv), wf v = true -> snd (kind_of v) = IO_Array -> has_type g (kind_of v) -> plain_strings g -> exists d : fdesc, find_fdesc_key (bs "AsArray") func_table = Some d /\ (let o := run_func eng (fd_key d) [] (convert_number g) in np o /\ typed_outcome o (reported d v (Some (kind_of v))) /\ reported d v (Some (kind_of v)) = (PT_Any, IO_Array)).
Proof. exact Mpath.Proofs.C14.C14_asarray_type_sound. Qed.
Print Assumptions C14_asarray_type_sound.

Theorem C14_reported_type_bytes_refuted :
  exists d : fdesc, find_fdesc_key (bs "First") func_table = Some d /\ (let v := CList true CBytes in kind_of v = (PT_String, IO_Array) /\ reported d v (Some (kind_of v)) = (PT_Any, IO_Single)).
Proof. exact Mpath.Proofs.C14.C14_reported_type_bytes_refuted. Qed.
Print Assumptions C14_reported_type_bytes_refuted.

Theorem C14_numeral_string_refuted :
  let g := VStr false (bs "123") in has_type g (PT_String, IO_Single) /\ (exists e : err, run_func no_engines "Contains" [RStr (bs "1")] (convert_number g) = Err e /\ wrong_type_err e = true).
Proof. exact Mpath.Proofs.C14.C14_numeral_string_refuted. Qed.
Print Assumptions C14_numeral_string_refuted.

Theorem C14_any_single_array_gap_accepted :
  let schema := CStruct false [({| fl_name := bs "a"; fl_form := FRegular |}, CStr)] in let r := validate_top schema [] (call_path [bs "a"] (Func false (bs "First") [] (bs "First()"))) in v_has_errors r = false /\ v_type r = Some (PT_String, IO_Single).
Proof. exact Mpath.Proofs.C14.C14_any_single_array_gap_accepted. Qed.
Print Assumptions C14_any_single_array_gap_accepted.

(** Chains of calls (Proofs/C14b.v): `$.k….F1(a1).F2(a2)…Fn(an)` with literal arguments.  The receiver
    of call i+1 is what call i returns, so its type is the type reported for call i:
    [chain_types] / [chain_accepts] are what validation computes along the chain, and an accepted
    conformant chain evaluated on conforming data gives a value of the type reported for its last call
    or a data-dependent error, never a wrong-type failure — for every n, with element-returning
    functions (First / Last / Index) in any position (the side condition that confined them to the
    first position was the finding repaired by 5a651fc).  [chain_side] carries the hypotheses that
    cannot be derived for intermediate values (the 2^63 length guard of the slicers, and that an
    intermediate STRING is not a numeral: the recorded finding, C14b_numeral_intermediate_refuted). *)
From Mpath.Proofs Require C14b.
Import Mpath.Proofs.C14b.

Theorem C14_chain_reported_type :
  forall (tbl : list fdesc) (schema : cty) (k : str) (ks : list str) (fs : list func) (us : str) (prev : ptype * iotype), wf_schema schema = true -> walk schema (k :: ks) = Accept prev -> exists v : cty, find_value_at_path schema (k :: ks) = Some v /\ kind_of v = prev /\ wf v = true /\ (let r := validate_top_gen tbl schema [] (chain_path (k :: ks) fs us) in v_err r = false /\ v_type r = chain_types tbl v (Some prev) fs /\ (chain_wellposed tbl schema [] (k :: ks) v prev fs -> v_has_errors r = false <-> chain_accepts tbl v prev fs = true)).
Proof. exact Mpath.Proofs.C14b.C14b_chain_reported_type. Qed.
Print Assumptions C14_chain_reported_type.

Theorem C14_chain_sound :
  forall (uni : Lexer.uclass) (eng : engines) (schema : cty) (k : str) (ks : list str) (fs : list func) (us : str) (cs : list rcall) (prev : ptype * iotype) (v : cty) (doc g : gv), wf_schema schema = true -> walk schema (k :: ks) = Accept prev -> find_value_at_path schema (k :: ks) = Some v -> fs <> [] -> all_some (map call_of fs) = Some cs -> forallb (fun c : rcall => rconform (fd_params (fst c)) (snd c)) cs = true -> chain_accepts func_table v prev fs = true -> key_walk (k :: ks) doc g -> has_type g prev -> plain_strings g -> chain_side eng cs g -> let q := chain_path (k :: ks) fs us in let o := Eval.do_top uni eng q doc in let ty := chain_rtype v prev (map fst cs) in v_type (validate_top schema [] q) = Some ty /\ np o /\ typed_outcome o ty.
Proof. exact Mpath.Proofs.C14b.C14b_chain_sound. Qed.
Print Assumptions C14_chain_sound.

Theorem C14_chain_sound_cue :
  forall (uni : Lexer.uclass) (eng : engines) (schema : cty) (k : str) (ks : list str) (fs : list func) (us : str) (cs : list rcall) (prev : ptype * iotype) (v : cty) (doc g : gv), wf_schema schema = true -> walk schema (k :: ks) = Accept prev -> find_value_at_path schema (k :: ks) = Some v -> fs <> [] -> all_some (map call_of fs) = Some cs -> forallb (fun c : rcall => rconform (fd_params (fst c)) (snd c)) cs = true -> lit_wellposed v prev fs = true -> let q := chain_path (k :: ks) fs us in v_has_errors (validate_top schema [] q) = false -> key_walk (k :: ks) doc g -> has_type g prev -> plain_strings g -> chain_side eng cs g -> let o := Eval.do_top uni eng q doc in let ty := chain_rtype v prev (map fst cs) in v_type (validate_top schema [] q) = Some ty /\ np o /\ typed_outcome o ty.
Proof. exact Mpath.Proofs.C14b.C14b_chain_sound_cue. Qed.
Print Assumptions C14_chain_sound_cue.

Theorem C14_chain_sound_side_free :
  forall (uni : Lexer.uclass) (eng : engines) (schema : cty) (k : str) (ks : list str) (fs : list func) (us : str) (cs : list rcall) (prev : ptype * iotype) (v : cty) (doc g : gv), wf_schema schema = true -> walk schema (k :: ks) = Accept prev -> find_value_at_path schema (k :: ks) = Some v -> fs <> [] -> all_some (map call_of fs) = Some cs -> forallb (fun c : rcall => rconform (fd_params (fst c)) (snd c)) cs = true -> side_free cs = true -> chain_accepts func_table v prev fs = true -> key_walk (k :: ks) doc g -> has_type g prev -> plain_strings g -> let q := chain_path (k :: ks) fs us in let o := Eval.do_top uni eng q doc in let ty := chain_rtype v prev (map fst cs) in v_type (validate_top schema [] q) = Some ty /\ np o /\ typed_outcome o ty.
Proof. exact Mpath.Proofs.C14b.C14b_chain_sound_side_free. Qed.
Print Assumptions C14_chain_sound_side_free.

Theorem C14_asarray_first_repaired :
  has_type (jarr [jstr "x"; jstr "y"]) (PT_String, IO_Array) /\ plain_strings (jarr [jstr "x"; jstr "y"]) /\ val "$.ls.AsArray().First()" = accepted AnyS /\ val "$.ln.AsArray().Last()" = accepted AnyS /\ val "$.ls.AsArray().First().Left(1)" = Some (Ok {| v_err := false; v_has_errors := true; v_type := Some SS; v_errs := [EWrongReceiverType] |}) /\ val "$.ln.AsArray().Last().Add(1)" = Some (Ok {| v_err := false; v_has_errors := true; v_type := Some NS; v_errs := [EWrongReceiverType] |}) /\ (let fs2 := [Func false (bs "AsArray") [] (bs "AsArray()"); Func false (bs "First") [] (bs "First()")] in let fs3 := fs2 ++ [Func false (bs "Left") [FPNum {| coef := 1; dexp := 0 |}] (bs "Left(1)")] in parse_string Lexer.uni_ascii (bs "$.ls.AsArray().First().Left(1)") = Ok (chain_path [bs "ls"] fs3 (bs "$.ls.AsArray().First().Left(1)")) /\ chain_accepts func_table (CList true CStr) (PT_String, IO_Array) fs2 = true /\ chain_types func_table (CList true CStr) (Some (PT_String, IO_Array)) fs2 = Some AnyS /\ chain_accepts func_table (CList true CStr) (PT_String, IO_Array) fs3 = false /\ lit_wellposed (CList true CStr) (PT_String, IO_Array) fs3 = true) /\ run "$.ls.AsArray().First()" ex_doc = Some (Ok (jarr [jstr "x"; jstr "y"])) /\ typed_outcome (Ok (jarr [jstr "x"; jstr "y"])) AnyS /\ (exists e : err, run "$.ls.AsArray().First().Left(1)" ex_doc = Some (Err e) /\ wrong_type_err e = true) /\ (exists e : err, run "$.ln.AsArray().Last().Add(1)" ex_doc = Some (Err e) /\ wrong_type_err e = true).
Proof. exact Mpath.Proofs.C14b.C14b_asarray_first_repaired. Qed.
Print Assumptions C14_asarray_first_repaired.

Theorem C14_numeral_intermediate_refuted :
  let doc := jobj [("s", jstr "12ab")] in has_type (jstr "12ab") SS /\ plain_strings (jstr "12ab") /\ val "$.s.Left(2).Contains(""1"")" = accepted BS /\ run "$.s.Left(2)" doc = Some (Ok (jstr "12")) /\ (exists e : err, run "$.s.Left(2).Contains(""1"")" doc = Some (Err e) /\ wrong_type_err e = true).
Proof. exact Mpath.Proofs.C14b.C14b_numeral_intermediate_refuted. Qed.
Print Assumptions C14_numeral_intermediate_refuted.
