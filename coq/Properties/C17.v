(* Properties/C17.v — array functions return the right element, count and
   aggregate.  Statements only; proofs in Proofs/C17.v.  Arrays are slices and
   arrays of any element type (the generic versions over [elems cur = Some xs]
   in Proofs/C17.v also cover one pointer indirection). *)
From Mpath.Model Require Import Base Dec Types GoVal Ast Lexer Parser Funcs Eval.
From Mpath.Proofs Require Import Strings C04 C06 C17.

Theorem C17_count : forall eng t n xs,
  run_func eng "Count" [] (VSlice t n xs) = Ok (VDec (mkDec (Z.of_nat (length xs)) 0)).
Proof. exact count_spec. Qed.
Print Assumptions C17_count.
Theorem C17_count_array : forall eng t xs,
  run_func eng "Count" [] (VArray t xs) = Ok (VDec (mkDec (Z.of_nat (length xs)) 0)).
Proof. exact count_spec_array. Qed.
Print Assumptions C17_count_array.
Theorem C17_any : forall eng t n xs,
  run_func eng "Any" [] (VSlice t n xs) = Ok (vbool (negb (Nat.eqb (length xs) 0))).
Proof. exact any_spec. Qed.
Print Assumptions C17_any.

Theorem C17_first : forall eng t n x xs,
  run_func eng "First" [] (VSlice t n (x :: xs)) = Ok (convert_number x).
Proof. exact first_spec. Qed.
Print Assumptions C17_first.
Theorem C17_last : forall eng t n xs, xs <> [] ->
  run_func eng "Last" [] (VSlice t n xs) = Ok (convert_number (last xs VNil)).
Proof. exact last_spec. Qed.
Print Assumptions C17_last.
Theorem C17_first_last_empty_error : forall eng t n,
  (exists e, run_func eng "First" [] (VSlice t n []) = Err e) /\
  (exists e, run_func eng "Last" [] (VSlice t n []) = Err e).
Proof. exact first_last_empty_error. Qed.
Print Assumptions C17_first_last_empty_error.

(** Index(i) for any decimal denoting the natural number i *)
Theorem C17_index : forall eng t n xs p i,
  denotes_nat p i -> (i < length xs)%nat -> Z.of_nat (length xs) < 2 ^ 63 ->
  run_func eng "Index" [RNum p] (VSlice t n xs) = Ok (convert_number (nth i xs VNil)).
Proof. exact index_spec. Qed.
Print Assumptions C17_index.
Theorem C17_index_out_of_range_error : forall eng t n xs p i,
  denotes_nat p i -> (length xs <= i)%nat -> exists e, run_func eng "Index" [RNum p] (VSlice t n xs) = Err e.
Proof. exact index_out_of_range_error. Qed.
Print Assumptions C17_index_out_of_range_error.
Theorem C17_index_negative_error : forall eng t n xs p,
  dis_neg p = true -> exists e, run_func eng "Index" [RNum p] (VSlice t n xs) = Err e.
Proof. exact index_negative_error. Qed.
Print Assumptions C17_index_negative_error.
(** whatever the index (fractional, huge): an element of the array or an error, never a panic *)
Theorem C17_index_total : forall eng cur xs p,
  elems cur = Some xs -> Z.of_nat (length xs) < 2 ^ 63 ->
  (exists i, (i < length xs)%nat /\ run_func eng "Index" [RNum p] cur = Ok (convert_number (nth i xs VNil))) \/
  run_func eng "Index" [RNum p] cur = Err (EOther "nothing in array").
Proof. exact index_total_elems. Qed.
Print Assumptions C17_index_total.
(** First ≡ Index(0), Last ≡ Index(Count−1) *)
Theorem C17_identities : forall eng t n xs p0 pl,
  xs <> [] -> Z.of_nat (length xs) < 2 ^ 63 -> denotes_nat p0 0 -> denotes_nat pl (length xs - 1) ->
  run_func eng "First" [] (VSlice t n xs) = run_func eng "Index" [RNum p0] (VSlice t n xs) /\
  run_func eng "Last" [] (VSlice t n xs) = run_func eng "Index" [RNum pl] (VSlice t n xs).
Proof. exact identities. Qed.
Print Assumptions C17_identities.

Theorem C17_as_array : forall eng ps v, run_func eng "AsArray" ps v = Ok (VSlice EAny false [v]).
Proof. exact as_array_spec. Qed.
Print Assumptions C17_as_array.

(** Select(q): the results of running q on each element (`$` and `@` both
    bound to the element), in order, array results flattened one level *)
Theorem C17_select_flat_map : forall uni eng fuel inv q us t cur cur' orig xs rs,
  parse_string uni q = Ok t -> convert_number cur = cur' -> elems cur' = Some xs ->
  Forall2 (fun x r => eval uni eng fuel (NTop t) x x = Ok r) xs rs ->
  eval uni eng (S fuel) (NFunc (Func inv (bs "Select") [FPStr q] us)) cur orig
  = Ok (VSlice EAny (match concat (map flatten_result rs) with [] => true | _ => false end) (concat (map flatten_result rs))).
Proof. exact select_flat_map. Qed.
Print Assumptions C17_select_flat_map.

(** AnyOf after array-valued arguments are spread *)
Theorem C17_anyof_spread : forall uni eng fuel inv ls q t n ds us cur orig v,
  eval uni eng fuel (NPath q) cur orig = Ok (VSlice t n (map VDec ds)) -> t <> ETOther ->
  convert_number cur = VDec v ->
  eval uni eng (S fuel) (NFunc (Func inv (bs "AnyOf") (map FPNum ls ++ [FPPath q]) us)) cur orig
  = Ok (vbool (existsb (deq v) (ls ++ ds))).
Proof. exact anyof_literals_and_array. Qed.
Print Assumptions C17_anyof_spread.

(** a key stepped across objects yields exactly those values, as decimals, in
    order; so an aggregate over it equals the aggregate over the values given directly *)
Theorem C17_projection : forall k xs ds isnil,
  xs <> [] -> Forall2 (row k) xs ds -> do_ident k (VSlice EAny isnil xs) = Ok (VSlice EAny false (map VDec ds)).
Proof. exact aggregate_projection_identity. Qed.
Print Assumptions C17_projection.
Theorem C17_aggregate_over_key : forall uni eng fuel a k u1 u2 u3 inv me finv xs ds isnil orig,
  xs <> [] -> Forall2 (row k) xs ds ->
  eval uni eng (S (S (S fuel)))
    (NPath (Path inv false false me [PIdent k false u1; PFunc (Func finv (bs (agg_name a)) [] u2)] u3))
    (VSlice EAny isnil xs) orig
  = run_func eng (agg_name a) [] (VSlice EAny false (map VDec ds)).
Proof. exact aggregate_over_key. Qed.
Print Assumptions C17_aggregate_over_key.
Theorem C17_select_key_is_projection : forall uni eng fuel inv q us pinv pme u1 u2 k xs ds isnil orig,
  parse_string uni q = Ok (TopP (Path pinv true false pme [PIdent k false u1] u2)) ->
  xs <> [] -> Forall2 (row k) xs ds ->
  eval uni eng (S (S (S (S fuel)))) (NFunc (Func inv (bs "Select") [FPStr q] us)) (VSlice EAny isnil xs) orig
  = do_ident k (VSlice EAny isnil xs).
Proof. exact select_key_is_projection. Qed.
Print Assumptions C17_select_key_is_projection.
