(* Properties/C17.v — array functions return the right element, count and
   aggregate.  Statements only; proofs in Proofs/C17.v.  Arrays are slices and
   arrays of any element type (the generic versions over [elems cur = Some xs]
   in Proofs/C17.v also cover one pointer indirection). *)
From Mpath.Model Require Import Base Dec Types GoVal Ast Lexer Parser Funcs Eval.
From Mpath.Proofs Require Import Strings C04 C06 C17.

Theorem C17_count : forall eng t n xs,
  run_func eng "Count" [] (VSlice t n xs) = Ok (VDec (mkDec (Z.of_nat (length xs)) 0)).
Proof. exact count_spec. Qed.
Print Assumptions C17_count.
Theorem C17_count_array : forall eng t xs,
  run_func eng "Count" [] (VArray t xs) = Ok (VDec (mkDec (Z.of_nat (length xs)) 0)).
Proof. exact count_spec_array. Qed.
Print Assumptions C17_count_array.
Theorem C17_any : forall eng t n xs,
  run_func eng "Any" [] (VSlice t n xs) = Ok (vbool (negb (Nat.eqb (length xs) 0))).
Proof. exact any_spec. Qed.
Print Assumptions C17_any.

Theorem C17_first : forall eng t n x xs,
  run_func eng "First" [] (VSlice t n (x :: xs)) = Ok (convert_number x).
Proof. exact first_spec. Qed.
Print Assumptions C17_first.
Theorem C17_last : forall eng t n xs, xs <> [] ->
  run_func eng "Last" [] (VSlice t n xs) = Ok (convert_number (last xs VNil)).
Proof. exact last_spec. Qed.
Print Assumptions C17_last.
Theorem C17_first_last_empty_error : forall eng t n,
  (exists e, run_func eng "First" [] (VSlice t n []) = Err e) /\
  (exists e, run_func eng "Last" [] (VSlice t n []) = Err e).
Proof. exact first_last_empty_error. Qed.
Print Assumptions C17_first_last_empty_error.

(** Index(i) for any decimal denoting the natural number i *)
Theorem C17_index : forall eng t n xs p i,
  denotes_nat p i -> (i < length xs)%nat -> Z.of_nat (length xs) < 2 ^ 63 ->
  run_func eng "Index" [RNum p] (VSlice t n xs) = Ok (convert_number (nth i xs VNil)).
Proof. exact index_spec. Qed.
Print Assumptions C17_index.
Theorem C17_index_out_of_range_error : forall eng t n xs p i,
  denotes_nat p i -> (length xs <= i)%nat -> exists e, run_func eng "Index" [RNum p] (VSlice t n xs) = Err e.
Proof. exact index_out_of_range_error. Qed.
Print Assumptions C17_index_out_of_range_error.
Theorem C17_index_negative_error : forall eng t n xs p,
  dis_neg p = true -> exists e, run_func eng "Index" [RNum p] (VSlice t n xs) = Err e.
Proof. exact index_negative_error. Qed.
Print Assumptions C17_index_negative_error.
(** whatever the index (fractional, huge): an element of the array or an error, never a panic *)
Theorem C17_index_total : forall eng cur xs p,
  elems cur = Some xs -> Z.of_nat (length xs) < 2 ^ 63 ->
  (exists i, (i < length xs)%nat /\ run_func eng "Index" [RNum p] cur = Ok (convert_number (nth i xs VNil))) \/
  run_func eng "Index" [RNum p] cur = Err (EOther "nothing in array").
Proof. exact index_total_elems. Qed.
Print Assumptions C17_index_total.
(** First ≡ Index(0), Last ≡ Index(Count−1) *)
Theorem C17_identities : forall eng t n xs p0 pl,
  xs <> [] -> Z.of_nat (length xs) < 2 ^ 63 -> denotes_nat p0 0 -> denotes_nat pl (length xs - 1) ->
  run_func eng "First" [] (VSlice t n xs) = run_func eng "Index" [RNum p0] (VSlice t n xs) /\
  run_func eng "Last" [] (VSlice t n xs) = run_func eng "Index" [RNum pl] (VSlice t n xs).
Proof. exact identities. Qed.
Print Assumptions C17_identities.

Theorem C17_as_array : forall eng ps v, run_func eng "AsArray" ps v = Ok (VSlice EAny false [v]).
Proof. exact as_array_spec. Qed.
Print Assumptions C17_as_array.

(** Select(q): the results of running q on each element (`$` and `@` both
    bound to the element), in order, array results flattened one level *)
Theorem C17_select_flat_map : forall uni eng fuel inv q us t cur cur' orig xs rs,
  parse_string uni q = Ok t -> convert_number cur = cur' -> elems cur' = Some xs ->
  Forall2 (fun x r => eval uni eng fuel (NTop t) x x = Ok r) xs rs ->
  eval uni eng (S fuel) (NFunc (Func inv (bs "Select") [FPStr q] us)) cur orig
  = Ok (VSlice EAny (match concat (map flatten_result rs) with [] => true | _ => false end) (concat (map flatten_result rs))).
Proof. exact select_flat_map. Qed.
Print Assumptions C17_select_flat_map.

(** AnyOf after array-valued arguments are spread *)
Theorem C17_anyof_spread : forall uni eng fuel inv ls q t n ds us cur orig v,
  eval uni eng fuel (NPath q) cur orig = Ok (VSlice t n (map VDec ds)) -> t <> ETOther ->
  convert_number cur = VDec v ->
  eval uni eng (S fuel) (NFunc (Func inv (bs "AnyOf") (map FPNum ls ++ [FPPath q]) us)) cur orig
  = Ok (vbool (existsb (deq v) (ls ++ ds))).
Proof. exact anyof_literals_and_array. Qed.
Print Assumptions C17_anyof_spread.

(** a key stepped across objects yields exactly those values, as decimals, in
    order; so an aggregate over it equals the aggregate over the values given directly *)
Theorem C17_projection : forall k xs ds isnil,
  xs <> [] -> Forall2 (row k) xs ds -> do_ident k (VSlice EAny isnil xs) = Ok (VSlice EAny false (map VDec ds)).
Proof. exact aggregate_projection_identity. Qed.
Print Assumptions C17_projection.
Theorem C17_aggregate_over_key : forall uni eng fuel a k u1 u2 u3 inv me finv xs ds isnil orig,
  xs <> [] -> Forall2 (row k) xs ds ->
  eval uni eng (S (S (S fuel)))
    (NPath (Path inv false false me [PIdent k false u1; PFunc (Func finv (bs (agg_name a)) [] u2)] u3))
    (VSlice EAny isnil xs) orig
  = run_func eng (agg_name a) [] (VSlice EAny false (map VDec ds)).
Proof. exact aggregate_over_key. Qed.
Print Assumptions C17_aggregate_over_key.
Theorem C17_select_key_is_projection : forall uni eng fuel inv q us pinv pme u1 u2 k xs ds isnil orig,
  parse_string uni q = Ok (TopP (Path pinv true false pme [PIdent k false u1] u2)) ->
  xs <> [] -> Forall2 (row k) xs ds ->
  eval uni eng (S (S (S (S fuel)))) (NFunc (Func inv (bs "Select") [FPStr q] us)) (VSlice EAny isnil xs) orig
  = do_ident k (VSlice EAny isnil xs).
Proof. exact select_key_is_projection. Qed.
Print Assumptions C17_select_key_is_projection.

(** End to end (Proofs/E2E3.v): whole queries over documents in ANY carriers: aggregates over a key
    stepped across rows (`$.xs.k.Sum()`, exact in Q; Minimum / Maximum; Average within half a unit of
    the 16th place), over an array with literal / path / spread-array arguments, the aggregate identity
    (stepped key = Select("$.k") = the same numbers given directly, Average included), AnyOf with spread
    arguments of mixed kinds.  [rows_doc] / [nums_doc] / [args_values] bundle the hypotheses. *)
From Coq Require Import QArith Qabs.
From Mpath.Proofs Require C04 C06 C06b E2E E2E2 E2E3.
Import Mpath.Proofs.C06 Mpath.Proofs.C06b Mpath.Proofs.E2E Mpath.Proofs.E2E2 Mpath.Proofs.E2E3.

Theorem C17_E2E3_sum_stepped :
  forall (uni : uclass) (eng : engines) (fuel : nat) (cur : gv) (xinv xme xq1 : bool) (xu1 : str) (xq2 : bool) (xu2 : str) (xfinv : bool) (xfu xus a k : str) (doc arr : gv) (rows gs : list gv) (ds : list dec) (qs : list Q), rows_doc a k doc arr rows gs ds qs -> rows <> [] -> (is_nil arr = true -> xq1 = true) -> (exists r : dec, eval uni eng (S (S (S (S (S (S (S fuel))))))) (NPath (stepped_path xinv xme a xq1 xu1 k xq2 xu2 xfinv "Sum" xfu xus)) cur doc = Ok (VDec r) /\ DecQ.dval r == sumQ qs) /\ (exists r : dec, eval uni eng (S (S (S (S (S (S (S fuel))))))) (NPath (stepped_path xinv xme a xq1 xu1 k xq2 xu2 xfinv "Minimum" xfu xus)) cur doc = Ok (VDec r) /\ least_of (DecQ.dval r) qs) /\ (exists r : dec, eval uni eng (S (S (S (S (S (S (S fuel))))))) (NPath (stepped_path xinv xme a xq1 xu1 k xq2 xu2 xfinv "Maximum" xfu xus)) cur doc = Ok (VDec r) /\ greatest_of (DecQ.dval r) qs) /\ (exists r : dec, eval uni eng (S (S (S (S (S (S (S fuel))))))) (NPath (stepped_path xinv xme a xq1 xu1 k xq2 xu2 xfinv "Average" xfu xus)) cur doc = Ok (VDec r) /\ Qabs (DecQ.dval r - meanQ qs) <= half_unit).
Proof. exact Mpath.Proofs.E2E3.E2E3_sum_stepped. Qed.
Print Assumptions C17_E2E3_sum_stepped.

Theorem C17_E2E3_sum_stepped_empty :
  forall (uni : uclass) (eng : engines) (fuel : nat) (cur : gv) (xinv xme xq1 : bool) (xu1 : str) (xq2 : bool) (xu2 : str) (xfinv : bool) (xfu xus a k : str) (F : string) (doc arr : gv), In F agg_names -> obj_row a doc arr -> elems arr = Some [] -> eval uni eng (S (S (S (S (S (S (S fuel))))))) (NPath (stepped_path xinv xme a xq1 xu1 k xq2 xu2 xfinv F xfu xus)) cur doc = (if is_nil arr && negb xq1 then Err (EOther "cannot access property of nil value") else if xq2 then Ok (VDec dzero) else Err EKeyNotFound).
Proof. exact Mpath.Proofs.E2E3.E2E3_sum_stepped_empty. Qed.
Print Assumptions C17_E2E3_sum_stepped_empty.

Theorem C17_E2E3_sum_direct_with_arguments :
  forall (uni : uclass) (eng : engines) (fuel : nat) (cur : gv) (cinv cme cq : bool) (cu1 cu2 cu3 : str) (cfinv : bool) (b : str) (ps : list param) (doc arr : gv) (gs : list gv) (ds : list dec) (qs : list Q) (dsp : list dec) (qsp : list Q), nums_doc b doc arr gs ds qs -> args_values doc ps dsp qsp -> (exists r : dec, eval uni eng (S (S (S (S (S (S (S fuel))))))) (NPath (call_path cinv cme b cq cu1 cfinv "Sum" ps cu2 cu3)) cur doc = Ok (VDec r) /\ DecQ.dval r == sumQ qs + sumQ qsp) /\ (qs ++ qsp <> [] -> (exists r : dec, eval uni eng (S (S (S (S (S (S (S fuel))))))) (NPath (call_path cinv cme b cq cu1 cfinv "Minimum" ps cu2 cu3)) cur doc = Ok (VDec r) /\ least_of (DecQ.dval r) (qs ++ qsp)) /\ (exists r : dec, eval uni eng (S (S (S (S (S (S (S fuel))))))) (NPath (call_path cinv cme b cq cu1 cfinv "Maximum" ps cu2 cu3)) cur doc = Ok (VDec r) /\ greatest_of (DecQ.dval r) (qs ++ qsp)) /\ (exists r : dec, eval uni eng (S (S (S (S (S (S (S fuel))))))) (NPath (call_path cinv cme b cq cu1 cfinv "Average" ps cu2 cu3)) cur doc = Ok (VDec r) /\ Qabs (DecQ.dval r - meanQ (qs ++ qsp)) <= half_unit)).
Proof. exact Mpath.Proofs.E2E3.E2E3_sum_direct_with_arguments. Qed.
Print Assumptions C17_E2E3_sum_direct_with_arguments.

Theorem C17_E2E3_aggregate_identity :
  forall (uni : uclass) (eng : engines) (fuel : nat) (cur : gv) (xinv xme xq1 : bool) (xu1 : str) (xq2 : bool) (xu2 : str) (xfinv : bool) (xfu xus : str) (sinv sme sq1 : bool) (su1 : str) (ssinv : bool) (qstr ssu : str) (sfinv : bool) (sfu sus : str) (pinv pme pq : bool) (pu pus : str) (cinv cme cq : bool) (cu1 cu2 cu3 : str) (cfinv : bool) (a k b : str) (F : string) (doc arr : gv) (rows gs : list gv) (ds : list dec) (qs : list Q) (arrn : gv) (gsn : list gv) (dsn : list dec) (qsn : list Q), In F agg_names -> parse_string uni qstr = Ok (TopP (key_path pinv pme k pq pu pus)) -> rows_doc a k doc arr rows gs ds qs -> rows <> [] -> (is_nil arr = true -> xq1 = true) -> nums_doc b doc arrn gsn dsn qsn -> Forall2 Qeq qs qsn -> exists r r' : dec, eval uni eng (S (S (S (S (S (S (S fuel))))))) (NPath (stepped_path xinv xme a xq1 xu1 k xq2 xu2 xfinv F xfu xus)) cur doc = Ok (VDec r) /\ eval uni eng (S (S (S (S (S (S (S fuel))))))) (NPath (select_path sinv sme a sq1 su1 ssinv qstr ssu sfinv F sfu sus)) cur doc = Ok (VDec r) /\ eval uni eng (S (S (S (S (S (S (S fuel))))))) (NPath (call_path cinv cme b cq cu1 cfinv F [] cu2 cu3)) cur doc = Ok (VDec r') /\ DecQ.dval r == DecQ.dval r'.
Proof. exact Mpath.Proofs.E2E3.E2E3_aggregate_identity. Qed.
Print Assumptions C17_E2E3_aggregate_identity.

Theorem C17_E2E3_stepped_storage_invariant :
  forall (uni : uclass) (eng : engines) (fuel : nat) (cur : gv) (xinv xme xq1 : bool) (xu1 : str) (xq2 : bool) (xu2 : str) (xfinv : bool) (xfu xus a k : str) (F : string) (doc doc' arr arr' : gv) (rows rows' gs gs' : list gv) (ds ds' : list dec) (qs qs' : list Q), In F agg_names -> rows_doc a k doc arr rows gs ds qs -> rows_doc a k doc' arr' rows' gs' ds' qs' -> rows <> [] -> (is_nil arr = true -> xq1 = true) -> (is_nil arr' = true -> xq1 = true) -> Forall2 Qeq qs qs' -> exists r r' : dec, eval uni eng (S (S (S (S (S (S (S fuel))))))) (NPath (stepped_path xinv xme a xq1 xu1 k xq2 xu2 xfinv F xfu xus)) cur doc = Ok (VDec r) /\ eval uni eng (S (S (S (S (S (S (S fuel))))))) (NPath (stepped_path xinv xme a xq1 xu1 k xq2 xu2 xfinv F xfu xus)) cur doc' = Ok (VDec r') /\ DecQ.dval r == DecQ.dval r'.
Proof. exact Mpath.Proofs.E2E3.E2E3_stepped_storage_invariant. Qed.
Print Assumptions C17_E2E3_stepped_storage_invariant.

Theorem C17_E2E3_anyof :
  forall (uni : uclass) (eng : engines) (fuel : nat) (cur : gv) (cinv cme cq : bool) (cu1 cu2 cu3 : str) (cfinv : bool) (n : str) (ps : list param) (doc gn : gv) (dn : dec) (qn : Q) (dsp : list dec) (qsp : list Q), obj_row n doc gn -> num_carrier gn dn -> has_source gn qn -> args_values doc ps dsp qsp -> decides (eval uni eng (S (S (S (S (S (S (S fuel))))))) (NPath (call_path cinv cme n cq cu1 cfinv "AnyOf" ps cu2 cu3)) cur doc) (exists q : Q, In q qsp /\ q == qn).
Proof. exact Mpath.Proofs.E2E3.E2E3_anyof. Qed.
Print Assumptions C17_E2E3_anyof.

Theorem C17_E2E3_anyof_mixed :
  forall (uni : uclass) (eng : engines) (fuel : nat) (cur : gv) (cinv cme cq : bool) (cu1 cu2 cu3 : str) (cfinv : bool) (n : str) (ps : list param) (rss : list (list rparam)) (doc gn : gv) (dn : dec), obj_row n doc gn -> num_carrier gn dn -> Forall2 (arg_spreads doc) ps rss -> eval uni eng (S (S (S (S (S (S (S fuel))))))) (NPath (call_path cinv cme n cq cu1 cfinv "AnyOf" ps cu2 cu3)) cur doc = Ok (vbool (existsb (deq dn) (numbers (concat rss)))).
Proof. exact Mpath.Proofs.E2E3.E2E3_anyof_mixed. Qed.
Print Assumptions C17_E2E3_anyof_mixed.
