(* Properties/C13.v — CueValidate accepts a key path iff the schema declares
   it, with its kind.  Statements only (restated as Coq prints them); proofs in
   Proofs/C13.v.  Model/Cue.v: the schema fragment and the cue API calls mpath
   makes (observed on cue v0.8.1, re-validated against the library on every
   run); Model/Validate.v: findValueAtPath and the Validate methods;
   Spec/Walk.v: the property's reading of a schema (walk). *)
From Coq Require Import String List.
From Mpath.Model Require Import Base Types Ast Parser Cue Validate Blocked.
From Mpath.Generated Require Import FuncTable.
From Mpath.Spec Require Import Walk.
From Mpath.Proofs Require C13.
Import Mpath.Proofs.C13.

Theorem C13_keys_refine :
  forall (schema : cty) (ks : list str), wf_schema schema = true -> ks <> [] -> verdict (validate_top schema [] (key_path ks)) = Some (walk schema ks).
Proof. exact Mpath.Proofs.C13.C13_keys_refine. Qed.
Print Assumptions C13_keys_refine.

Theorem C13_keys_refine_gen :
  forall (tbl : list fdesc) (schema : cty) (bl : list str) (i sr f m : bool) (ops : list pathop) (us k : str) (ks : list str), wf_schema schema = true -> op_keys ops = Some (k :: ks) -> str_mem k bl = false -> verdict (validate_top_gen tbl schema bl (TopP (Path i sr f m ops us))) = Some (walk schema (k :: ks)).
Proof. exact Mpath.Proofs.C13.C13_keys_refine_gen. Qed.
Print Assumptions C13_keys_refine_gen.

Theorem C13_keys_refine_domain :
  forall (schema : cty) (ks : list str), wf_schema schema = true -> ks <> [] -> no_case_variant schema ks = true -> verdict (validate_top schema [] (key_path ks)) = Some (walk schema ks).
Proof. exact Mpath.Proofs.C13.C13_keys_refine_domain. Qed.
Print Assumptions C13_keys_refine_domain.

Theorem C13_keys_refine_step :
  forall (schema : cty) (cur : list ascii) (bl : list str) (k : str) (ks : list str), wf_schema schema = true -> cur <> [] -> blocked_root_fields schema cur = Ok bl -> str_mem k bl = false -> exists r : vres, cue_validate schema cur (key_path (k :: ks)) = Ok r /\ verdict r = Some (walk schema (k :: ks)).
Proof. exact Mpath.Proofs.C13.C13_keys_refine_step. Qed.
Print Assumptions C13_keys_refine_step.

Theorem C13_blocked_first_key :
  forall (tbl : list fdesc) (schema : cty) (bl : list str) (k : str) (ks : list str) (o : bool) (fs : list (flabel * cty)), schema = CStruct o fs -> str_mem k bl = true -> let r := validate_top_gen tbl schema bl (key_path (k :: ks)) in v_has_errors r = true /\ v_errs r = [ENotAvailable] /\ v_type r = None.
Proof. exact Mpath.Proofs.C13.C13_blocked_first_key. Qed.
Print Assumptions C13_blocked_first_key.

Theorem C13_empty_literal_list_is_error :
  let schema := CStruct false [({| fl_name := bs "e"; fl_form := FRegular |}, CDeps [])] in v_has_errors (validate_top schema [] (key_path [bs "e"])) = true /\ v_errs (validate_top schema [] (key_path [bs "e"])) = [EOtherErr].
Proof. exact Mpath.Proofs.C13.C13_empty_literal_list_is_error. Qed.
Print Assumptions C13_empty_literal_list_is_error.

Theorem C13_list_of_lists_is_any_single :
  let schema := CStruct false [({| fl_name := bs "ll"; fl_form := FRegular |}, CList true (CList true CInt))] in verdict (validate_top schema [] (key_path [bs "ll"])) = Some (Accept (PT_Any, IO_Single)).
Proof. exact Mpath.Proofs.C13.C13_list_of_lists_is_any_single. Qed.
Print Assumptions C13_list_of_lists_is_any_single.
