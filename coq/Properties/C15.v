(* Properties/C15.v — a step sees only base paths and its transitive
   dependencies.  Statements only; proofs in Proofs/C15.v (same names there).
   get_blocked is the model of getBlockedRootFields (Model/Blocked.v);
   `allowed` is the specification (Spec/Reach.v): base path, or the current
   step when it is `input`, or a step in the transitive closure of the
   current step's `_dependencies`.  base_valid_fields and BP_Input are
   regenerated from cue.go on every run. *)
From Coq Require Import Permutation.
From Mpath.Model Require Import Base Blocked.
From Mpath.Generated Require Import BasePaths.
From Mpath.Spec Require Import Reach.
From Mpath.Proofs Require C15.

(** the call ends for every dependency graph — cycles, self-loops, diamonds, fan-in *)
Theorem C15_terminates : forall deps fields cur,
  (forall d l, deps d = Ok l -> In d fields) ->
  get_blocked (blocked_fuel fields) deps fields cur <> OutOfFuel.
Proof. exact Mpath.Proofs.C15.C15_terminates. Qed.
Print Assumptions C15_terminates.

(** a root field is blocked exactly when it is not allowed.  (The side
    condition excludes a current step that is itself named like a base path
    other than `input`, where the property's two clauses conflict: see
    C15_base_named_step.) *)
Theorem C15_blocked_exact : forall fuel deps fields cur bl,
  (In cur base_valid_fields -> cur = BP_Input) ->
  get_blocked fuel deps fields cur = Ok bl ->
  forall f, In f fields ->
    (In f bl <-> ~ allowed deps base_valid_fields BP_Input cur f).
Proof. exact Mpath.Proofs.C15.C15_blocked_exact. Qed.
Print Assumptions C15_blocked_exact.

(** unconditional characterisation of the blocked list *)
Theorem C15_blocked_char : forall fuel deps fields cur bl,
  get_blocked fuel deps fields cur = Ok bl ->
  forall f, In f bl <->
    (f = cur /\ cur <> BP_Input) \/
    (In f fields /\ f <> cur /\ ~ In f base_valid_fields /\ ~ reach deps cur f).
Proof. exact Mpath.Proofs.C15.C15_blocked_char. Qed.
Print Assumptions C15_blocked_char.

Theorem C15_current_step_blocked : forall fuel deps fields cur bl,
  get_blocked fuel deps fields cur = Ok bl -> cur <> BP_Input -> In cur bl.
Proof. exact Mpath.Proofs.C15.C15_current_step_blocked. Qed.
Print Assumptions C15_current_step_blocked.

(** a dependency that is not a step, or has no `_dependencies` list, is an error, never a verdict *)
Theorem C15_error_on_dangling : forall fuel deps fields cur d e bl,
  d = cur \/ reach deps cur d -> deps d = Err e ->
  get_blocked fuel deps fields cur <> Ok bl.
Proof. exact Mpath.Proofs.C15.C15_error_on_dangling_not_ok. Qed.
Print Assumptions C15_error_on_dangling.

(** the order in which a `_dependencies` list is written is irrelevant *)
Theorem C15_order_irrelevant : forall fuel fuel' deps deps' fields cur bl,
  (forall d l, deps d = Ok l -> In d fields) ->
  (forall d, match deps d, deps' d with
             | Ok l, Ok l' => Permutation l l'
             | Err _, Err _ => True
             | _, _ => False
             end) ->
  (blocked_fuel fields <= fuel')%nat ->
  get_blocked fuel deps fields cur = Ok bl ->
  exists bl', get_blocked fuel' deps' fields cur = Ok bl' /\ (forall f, In f bl <-> In f bl').
Proof. exact Mpath.Proofs.C15.C15_order_irrelevant. Qed.
Print Assumptions C15_order_irrelevant.

(** non-vacuity: a graph with a cycle, a self-loop and a diamond *)
Example C15_example_cycle :
  get_blocked (blocked_fuel Mpath.Proofs.C15.ex_fields) Mpath.Proofs.C15.ex_deps Mpath.Proofs.C15.ex_fields (Mpath.Proofs.C15.ex_name "s2")
  = Ok (map Mpath.Proofs.C15.ex_name ["s2"; "s3"; "s4"; "s5"]%string).
Proof. exact Mpath.Proofs.C15.C15_example_cycle. Qed.

(** a current step named `variables` is blocked although `variables` is a base path *)
Example C15_base_named_step :
  let deps : deps_fn :=
    fun d => if str_eqb d (Mpath.Proofs.C15.ex_name "variables") then Ok [] else Mpath.Proofs.C15.ex_deps d in
  let cur := Mpath.Proofs.C15.ex_name "variables" in
  get_blocked (blocked_fuel Mpath.Proofs.C15.ex_fields) deps Mpath.Proofs.C15.ex_fields cur
    = Ok (map Mpath.Proofs.C15.ex_name ["variables"; "s1"; "s2"; "s3"; "s4"; "s5"]%string) /\
  In cur Mpath.Proofs.C15.ex_fields /\
  allowed deps base_valid_fields BP_Input cur cur.
Proof. exact Mpath.Proofs.C15.C15_deviation_base_step. Qed.

(** the fields OFFERED at the root are exactly the declared root fields that
    are not blocked (Proofs/C15b.v; [available_fields] models
    getAvailableFieldsForValue, [offered_root] what the root part offers for a
    current step).  Before repair 001cf94 a blocked step declared optional
    (`s2?: {…}`) stayed offered: the last conjunct of the example computes what
    the old comparison gave. *)
From Mpath.Model Require Import Types Cue Validate.
From Mpath.Proofs Require C15b.
Import Mpath.Proofs.C15b.

Theorem C15_available_fields_exact :
  forall (v : cty) (blocked l : list str), available_fields v blocked = Some l -> exists u : cty, listed_value v = Some u /\ (forall f : str, In f l <-> (exists fld : str, In fld (field_texts u) /\ str_eqb fld BP_Dependencies = false /\ ~ In (strip_quotes (clean_field_name fld)) blocked /\ clean_field_name fld = f)).
Proof. exact Mpath.Proofs.C15b.available_fields_exact. Qed.
Print Assumptions C15_available_fields_exact.

Theorem C15_available_fields_minus_blocked :
  forall (v : cty) (blocked l0 l : list str), available_fields v [] = Some l0 -> available_fields v blocked = Some l -> forall f : str, In f l <-> In f l0 /\ ~ In (strip_quotes f) blocked.
Proof. exact Mpath.Proofs.C15b.available_fields_minus_blocked. Qed.
Print Assumptions C15_available_fields_minus_blocked.

Theorem C15_offered_root :
  forall (schema : cty) (cur : list ascii) (bl l : list str), cur <> [] -> blocked_root_fields schema cur = Ok bl -> offered_root schema cur = Ok (Some l) -> forall f : str, In f l <-> In f (root_fields schema) /\ ~ In (strip_quotes f) bl.
Proof. exact Mpath.Proofs.C15b.C15_offered_root. Qed.
Print Assumptions C15_offered_root.

Theorem C15_offered_example :
  root_fields ex_schema = map bs ["input"; "s1"; "s2"; "s3"] /\ blocked_root_fields ex_schema (bs "s3") = Ok (map bs ["s3"; "s2"]) /\ offered_root ex_schema (bs "s3") = Ok (Some (map bs ["input"; "s1"])) /\ map clean_field_name (filter (fun fld : str => negb (str_eqb fld BP_Dependencies) && negb (str_mem (strip_quotes fld) (map bs ["s3"; "s2"]))) (field_texts ex_schema)) = map bs ["input"; "s1"; "s2"].
Proof. exact Mpath.Proofs.C15b.C15_offered_example. Qed.
Print Assumptions C15_offered_example.

Theorem C15_offered_quoted_example :
  field_texts ex_schema_quoted = [bs "input"; dquote ++ bs "s-1" ++ dquote; dquote ++ bs "s-2" ++ dquote ++ bs "?"; dquote ++ bs "s-3" ++ dquote ++ bs "!"] /\ root_fields ex_schema_quoted = map bs ["input"; "s-1"; "s-2"; "s-3"] /\ blocked_root_fields ex_schema_quoted (bs "s-3") = Ok (map bs ["s-3"; "s-2"]) /\ offered_root ex_schema_quoted (bs "s-3") = Ok (Some (map bs ["input"; "s-1"])).
Proof. exact Mpath.Proofs.C15b.C15_offered_quoted_example. Qed.
Print Assumptions C15_offered_quoted_example.
