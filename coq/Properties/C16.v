(* Properties/C16.v — CueValidate is a total, deterministic function of its
   three arguments (PARTIAL: cuelang's own totality and purity — that
   CompileString and the cue API are functions of the schema text that
   return — are trusted; the validation walk is the parameter [validate],
   modelled in Model/Validate.v for C13/C14).
   Model/Caches.v is CueValidate's cache protocol; statements only here. *)
From Mpath.Model Require Import Base Ast Lexer Parser Caches Blocked.
From Mpath.Proofs Require Import C16.
From Mpath.Proofs Require C08 C15.

(** for ANY parser, compiler and validation walk that are functions of their
    arguments, and any history of earlier calls (hits, misses, failures): the
    result of a call is the result of the same call made first in a fresh process *)
Theorem C16_cache_transparent : forall (OP CV R : Type) parse compile validate history call,
  snd (cv_step OP CV R parse compile validate (cv_run OP CV R parse compile validate history (empty_caches OP CV)) call)
  = cv_fresh OP CV R parse compile validate call.
Proof. exact cache_transparent. Qed.
Print Assumptions C16_cache_transparent.

(** in particular with mpath's own parser (the model of ParseString), for every Unicode classifier *)
Theorem C16_cache_transparent_parser : forall uni (CV R : Type) compile validate history call,
  snd (cv_step top CV R (parse_string uni) compile validate (cv_run top CV R (parse_string uni) compile validate history (empty_caches top CV)) call)
  = cv_fresh top CV R (parse_string uni) compile validate call.
Proof. intros uni CV R. exact (cache_transparent top CV R (parse_string uni)). Qed.
Print Assumptions C16_cache_transparent_parser.

(** calling again returns the same *)
Theorem C16_repeatable : forall (OP CV R : Type) parse compile validate history call,
  snd (cv_step OP CV R parse compile validate (fst (cv_step OP CV R parse compile validate (cv_run OP CV R parse compile validate history (empty_caches OP CV)) call)) call)
  = snd (cv_step OP CV R parse compile validate (cv_run OP CV R parse compile validate history (empty_caches OP CV)) call).
Proof. exact repeated_call_same. Qed.
Print Assumptions C16_repeatable.

(** semantically neutral re-spellings that defeat the cache change nothing *)
Theorem C16_respelling : forall (OP CV R : Type) parse compile validate history q q' s s' cur op v,
  parse q = Ok op -> parse q' = Ok op -> compile s = Ok v -> compile s' = Ok v ->
  q <> [] -> q' <> [] -> s <> [] -> s' <> [] ->
  snd (cv_step OP CV R parse compile validate (cv_run OP CV R parse compile validate history (empty_caches OP CV)) (q, s, cur))
  = snd (cv_step OP CV R parse compile validate (cv_run OP CV R parse compile validate history (empty_caches OP CV)) (q', s', cur)).
Proof. exact respelling_transparent. Qed.
Print Assumptions C16_respelling.

(** the invariant behind it: every cached entry is what parse / compile return for its key *)
Theorem C16_cache_invariant : forall (OP CV R : Type) parse compile validate history,
  cache_inv OP CV parse compile (cv_run OP CV R parse compile validate history (empty_caches OP CV)).
Proof. intros OP CV R parse compile validate history. apply inv_run. apply inv_empty. Qed.
Print Assumptions C16_cache_invariant.

(** totality of the mpath side: the parser returns (no panic, no fuel) and
    the dependency walk ends on every graph *)
Theorem C16_total_mpath_side :
  (forall uni s, parse_string uni s <> OutOfFuel /\ forall m, parse_string uni s <> Panic m) /\
  (forall deps fields cur, (forall d l, deps d = Ok l -> In d fields) ->
     get_blocked (blocked_fuel fields) deps fields cur <> OutOfFuel).
Proof. split; [exact Mpath.Proofs.C08.C08_parse_string_no_fuel_no_panic | exact Mpath.Proofs.C15.C15_terminates]. Qed.
Print Assumptions C16_total_mpath_side.

(** non-vacuity: a hit after a miss, with a toy compiler *)
Example C16_example :
  let parse := parse_string uni_ascii in
  let compile := fun s : str => Ok (length s) in
  let validate := fun (t : top) (n : nat) (cur : str) => (top_us t, n, cur) in
  let call := (bs "$.a", bs "a: int", bs "s1") in
  snd (cv_step _ _ _ parse compile validate (cv_run _ _ _ parse compile validate [call; (bs "$.", bs "x", []); call] (empty_caches _ _)) call)
  = CVDone _ (bs "$.a", 6%nat, bs "s1").
Proof. vm_compute. reflexivity. Qed.

(** the state the cache theorems are about is ALL the state there is: apart from one mutex, the
    scanner pool (C08) and the two caches, the package has no variable that is written after
    initialisation and no self-synchronising value (sync.Map, sync.Once, atomic values) — Generated/State.v,
    regenerated from the source on every run.  A new process-wide memo, counter or table is a new way
    for one call to influence the next and is not covered by [C16_cache_transparent]. *)
From Coq Require Import String List.
From Mpath.Generated Require State.
Theorem C16_state_inventory :
  map fst Mpath.Generated.State.package_state = ["mutex"; "pool"; "variable"; "variable"]%string.
Proof. reflexivity. Qed.
Print Assumptions C16_state_inventory.
