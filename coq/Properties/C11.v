(* Properties/C11.v — evaluation is pure: no mutation, same answer every time
   (PARTIAL).  The Gallina evaluator is a function of (operation, data), so
   "no mutation" cannot be a theorem about it; what is proved instead:
   (1) Generated/Purity.v — regenerated from the source by go/ast on every run
   — lists the statements of the evaluation code that can write through a
   parameter, the receiver or an alias of one, and it is empty;
   (2) the places where Go's random map iteration could make results
   order-dependent are order-independent when sibling keys stay distinct
   under folding (and the collision case is refuted: a recorded finding);
   (3) a store model of Go slices with capacity shows the aggregate functions
   cannot write into the caller's backing array under any aliasing pattern
   (and the variant without the defensive copy does).
   The runtime half is the purity job of the harness (snapshots before/after,
   repeated and interleaved evaluations, spare-capacity sentinels). *)
From Coq Require Import String List Permutation.
From Mpath.Model Require Import Base Dec Types GoVal Ast Lexer Parser Funcs Eval Store.
From Mpath.Generated Require Import Purity.
From Mpath.Proofs Require C11.
Import Mpath.Proofs.C11.

Theorem C11_no_write_sites : evaluation_write_sites = [].
Proof. reflexivity. Qed.
Print Assumptions C11_no_write_sites.

Theorem C11_map_lookup_perm :
  forall (name : str) (kvs kvs' : list (gv * gv)), Permutation kvs kvs' -> fold_distinct_keys kvs -> map_lookup_fold name kvs = map_lookup_fold name kvs'.
Proof. exact Mpath.Proofs.C11.map_lookup_perm. Qed.
Print Assumptions C11_map_lookup_perm.

Theorem C11_do_ident_perm :
  forall (name : str) (kt : kty) (vt : ety) (n : bool) (kvs kvs' : list (gv * gv)), Permutation kvs kvs' -> fold_distinct_keys kvs -> do_ident name (VMap kt vt n kvs) = do_ident name (VMap kt vt n kvs').
Proof. exact Mpath.Proofs.C11.do_ident_perm. Qed.
Print Assumptions C11_do_ident_perm.

Theorem C11_collision_order_dependent_refuted :
  Permutation collide_kvs (rev collide_kvs) /\ do_ident (bs "a") (VMap KtStr EAny false collide_kvs) = Ok (VDec {| coef := 1; dexp := 0 |}) /\ do_ident (bs "a") (VMap KtStr EAny false (rev collide_kvs)) = Ok (VDec {| coef := 2; dexp := 0 |}) /\ do_ident (bs "a") (VMap KtStr EAny false collide_kvs) <> do_ident (bs "a") (VMap KtStr EAny false (rev collide_kvs)).
Proof. exact Mpath.Proofs.C11.collision_order_dependent_refuted. Qed.
Print Assumptions C11_collision_order_dependent_refuted.

Theorem C11_sorted_values_perm :
  forall (kvs kvs' : list (gv * gv)) (ss : list str), Permutation kvs kvs' -> str_keys kvs ss -> NoDup ss -> sorted_values kvs = sorted_values kvs'.
Proof. exact Mpath.Proofs.C11.sorted_values_perm. Qed.
Print Assumptions C11_sorted_values_perm.

Theorem C11_sorted_values_defined_iff :
  forall kvs : list (gv * gv), (exists vs : list gv, sorted_values kvs = Some vs) <-> (exists ss : list str, str_keys kvs ss /\ NoDup ss).
Proof. exact Mpath.Proofs.C11.sorted_values_defined_iff. Qed.
Print Assumptions C11_sorted_values_defined_iff.

Theorem C11_sorted_values_mixed_keys :
  let kvs := [(VInt KInt false 10, VStr false (bs "ten")); (VStr false (bs "b"), VStr false (bs "bee")); (VBool false true, VStr false (bs "yes")); (VInt KInt false 9, VStr false (bs "nine")); (VNil, VStr false (bs "nil"))] in let sorted := [VStr false (bs "nil"); VStr false (bs "ten"); VStr false (bs "nine"); VStr false (bs "bee"); VStr false (bs "yes")] in sorted_values kvs = Some sorted /\ sorted_values (rev kvs) = Some sorted /\ map (fun kv : gv * gv => key_sort_text (fst kv)) kvs = [Some (bs "10"); Some (bs "b"); Some (bs "true"); Some (bs "9"); Some (bs "")] /\ (str_ltb (bs "") (bs "10") && str_ltb (bs "10") (bs "9") && str_ltb (bs "9") (bs "b") && str_ltb (bs "b") (bs "true"))%bool = true.
Proof. exact Mpath.Proofs.C11.sorted_values_mixed_keys. Qed.
Print Assumptions C11_sorted_values_mixed_keys.

Theorem C11_sorted_values_declines_alike :
  sorted_values [(VInt KInt false 1, VStr false (bs "x")); (VStr false (bs "1"), VStr false (bs "y"))] = None.
Proof. exact Mpath.Proofs.C11.sorted_values_declines_alike. Qed.
Print Assumptions C11_sorted_values_declines_alike.

Theorem C11_remove_keys_spec :
  forall (keepb : str -> bool) (keep : str -> option bool) (kt : kty) (vt : ety) (n : bool) (kvs : list (gv * gv)), (forall s : str, keep s = Some (keepb s)) -> remove_keys keep (VMap kt vt n kvs) = Ok (VMap kt vt false (filter (fun kv : gv * gv => match key_string (fst kv) with | Some s => keepb s | None => true end) kvs)).
Proof. exact Mpath.Proofs.C11.remove_keys_spec. Qed.
Print Assumptions C11_remove_keys_spec.

Theorem C11_remove_keys_perm :
  forall (keep : str -> option bool) (kt : kty) (vt : ety) (n : bool) (kvs kvs' : list (gv * gv)), Permutation kvs kvs' -> same_up_to_map_order (remove_keys keep (VMap kt vt n kvs)) (remove_keys keep (VMap kt vt n kvs')).
Proof. exact Mpath.Proofs.C11.remove_keys_perm. Qed.
Print Assumptions C11_remove_keys_perm.

Theorem C11_current_is_pure :
  forall (st : store) (zb : nat) (v w : slice) (ps : list Z) (fresh1 extra1 fresh2 extra2 : nat), s_arr v <> fresh1 -> s_arr v <> fresh2 -> s_arr w <> fresh1 -> s_arr w <> fresh2 -> let r := decimal_slice_current st zb v ps fresh1 extra1 fresh2 extra2 in read (fst r) w = read st w /\ read (fst r) v = read st v /\ read (fst r) (snd r) = (read st v ++ ps)%list.
Proof. exact Mpath.Proofs.C11.current_is_pure. Qed.
Print Assumptions C11_current_is_pure.

Theorem C11_current_result :
  forall (st : store) (zb : nat) (v : slice) (ps : list Z) (fresh1 extra1 fresh2 extra2 : nat), let r := decimal_slice_current st zb v ps fresh1 extra1 fresh2 extra2 in read (fst r) (snd r) = (read st v ++ ps)%list.
Proof. exact Mpath.Proofs.C11.current_result. Qed.
Print Assumptions C11_current_result.

Theorem C11_aliasing_refuted :
  slice_ok alias_store alias_v /\ slice_ok alias_store alias_w /\ s_arr alias_v <> 1%nat /\ s_arr alias_w <> 1%nat /\ read alias_store alias_w = [1; 2; 3; 4] /\ read (fst (decimal_slice_aliasing alias_store alias_v [9] 1 0)) alias_w = [1; 2; 9; 4] /\ read (fst (decimal_slice_aliasing alias_store alias_v [9] 1 0)) alias_w <> read alias_store alias_w.
Proof. exact Mpath.Proofs.C11.aliasing_refuted. Qed.
Print Assumptions C11_aliasing_refuted.

Theorem C11_aliasing_writes_callers_array :
  forall (st : nat -> list Z) (v : slice) (ps : list Z) (fresh extra : nat), (s_len v + Datatypes.length ps <= s_cap v)%nat -> (s_off v + s_cap v <= Datatypes.length (st (s_arr v)))%nat -> let r := decimal_slice_aliasing st v ps fresh extra in s_arr (snd r) = s_arr v /\ read (fst r) {| s_arr := s_arr v; s_off := s_off v; s_len := s_len v + Datatypes.length ps; s_cap := s_cap v |} = (read st v ++ ps)%list.
Proof. exact Mpath.Proofs.C11.aliasing_writes_callers_array. Qed.
Print Assumptions C11_aliasing_writes_callers_array.

Theorem C11_results_are_per_call :
  forall (uni : uclass) (eng : engines) (cs : list (top * gv)) (i : nat) (c : top * gv), nth_error cs i = Some c -> nth_error (map (fun c0 : top * gv => do_top uni eng (fst c0) (snd c0)) cs) i = Some (do_top uni eng (fst c) (snd c)).
Proof. exact Mpath.Proofs.C11.C11_results_are_per_call. Qed.
Print Assumptions C11_results_are_per_call.

Theorem C11_repeat :
  forall (uni : uclass) (eng : engines) (t : top) (data : gv) (n : nat), map (fun c : top * gv => do_top uni eng (fst c) (snd c)) (repeat (t, data) n) = repeat (do_top uni eng t data) n.
Proof. exact Mpath.Proofs.C11.C11_repeat. Qed.
Print Assumptions C11_repeat.
