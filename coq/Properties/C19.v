(* Properties/C19.v — null tests and `?` propagation behave as a three-valued
   guard.  Statements only; proofs in Proofs/C19.v. *)
From Mpath.Model Require Import Base Dec Types GoVal Ast Lexer Parser Funcs Eval.
From Mpath.Proofs Require Import C19.

(** the six predicates by name; the Not* ones are the exact negations *)
Theorem C19_predicates : forall eng val,
  run_func eng "IsNull" [] val = Ok (vbool (is_nil val)) /\
  run_func eng "IsNotNull" [] val = Ok (vbool (negb (is_nil val))) /\
  run_func eng "IsEmpty" [] val = Ok (vbool (cmp_is_zero val)) /\
  run_func eng "IsNotEmpty" [] val = Ok (vbool (negb (cmp_is_zero val))) /\
  run_func eng "IsNullOrEmpty" [] val = Ok (vbool (is_nil val || cmp_is_zero val)) /\
  run_func eng "IsNotNullOrEmpty" [] val = Ok (vbool (negb (is_nil val || cmp_is_zero val))).
Proof. exact predicates_by_name. Qed.
Print Assumptions C19_predicates.

(** IsNull: exactly null, nil pointers, nil slices / maps / funcs / chans *)
Theorem C19_is_null_exact : forall v, is_nil v = nil_like v.
Proof. exact is_nil_nil_like. Qed.
Print Assumptions C19_is_null_exact.

(** IsEmpty: exactly the zero values "", 0, false, empty array, empty object *)
Theorem C19_is_empty_exact :
  (forall nm s, cmp_is_zero (VStr nm s) = true <-> s = []) /\
  (forall k nm z, cmp_is_zero (VInt k nm z) = true <-> z = 0) /\
  (forall w nm f, cmp_is_zero (VFloat w nm f) = true <-> (exists d, f = FFin d /\ coef d = 0)) /\
  (forall d, cmp_is_zero (VDec d) = true <-> coef d = 0) /\
  (forall nm b, cmp_is_zero (VBool nm b) = true <-> b = false) /\
  (forall t n xs, cmp_is_zero (VSlice t n xs) = true <-> xs = []) /\
  (forall kt vt n kvs, cmp_is_zero (VMap kt vt n kvs) = true <-> kvs = []).
Proof. exact is_empty_table. Qed.
Print Assumptions C19_is_empty_exact.

(** a key that is absent and not marked `?` fails with ErrKeyNotFound whatever follows *)
Theorem C19_unmarked_absent_fails : forall uni eng k orig prev pn op rest data le,
  ev_at uni eng k orig op data = Err EKeyNotFound -> pathop_qmark op = false -> blocked prev pn op = false ->
  path_ops (ev_at uni eng k orig) prev pn (op :: rest) data le = Err EKeyNotFound.
Proof. exact unmarked_absent_fails. Qed.
Print Assumptions C19_unmarked_absent_fails.

(** a marked key that is missing, or whose value is null, lets the path continue on null *)
Theorem C19_marked_absent_continues : forall uni eng k orig prev pn op rest data le,
  ev_at uni eng k orig op data = Err EKeyNotFound -> pathop_qmark op = true -> blocked prev pn op = false ->
  path_ops (ev_at uni eng k orig) prev pn (op :: rest) data le
  = path_ops (ev_at uni eng k orig) (Some op) true rest VNil (Some EKeyNotFound).
Proof. exact marked_absent_continues. Qed.
Print Assumptions C19_marked_absent_continues.
Theorem C19_marked_null_continues : forall uni eng k orig prev pn op rest data le v,
  ev_at uni eng k orig op data = Ok v -> is_nil v = true -> blocked prev pn op = false ->
  path_ops (ev_at uni eng k orig) prev pn (op :: rest) data le
  = path_ops (ev_at uni eng k orig) (Some op) true rest v None.
Proof. exact marked_null_continues. Qed.
Print Assumptions C19_marked_null_continues.

(** the following marked keys are skipped, and the next function receives null *)
Theorem C19_marked_run : forall uni eng k orig ks prev rest le,
  ks <> [] -> pathop_qmark prev = true ->
  path_ops (ev_at uni eng (S k) orig) (Some prev) true (marked ks ++ rest) VNil le
  = path_ops (ev_at uni eng (S k) orig) (Some (last (marked ks) prev)) true rest VNil (Some EKeyNotFound).
Proof. exact marked_run. Qed.
Print Assumptions C19_marked_run.
Theorem C19_function_receives_null : forall uni eng k orig prev f rest le,
  path_ops (ev_at uni eng (S k) orig) (Some prev) true (PFunc f :: rest) VNil le
  = match eval uni eng k (NFunc f) VNil orig with
    | Ok v => path_ops (ev_at uni eng (S k) orig) (Some (PFunc f)) true rest v None
    | Err e => Err e | Panic m => Panic m | OutOfFuel => OutOfFuel | Declined w => Declined w
    end.
Proof. exact function_receives_null. Qed.
Print Assumptions C19_function_receives_null.
(** an unmarked key after a null: the nil-access error (not a value, not a panic) *)
Theorem C19_unmarked_after_null_fails : forall uni eng k orig prev op rest data le,
  pathop_qmark prev = false -> pathop_is_func op = false ->
  path_ops (ev_at uni eng k orig) (Some prev) true (op :: rest) data le
  = Err (EOther "cannot access property of nil value").
Proof. exact unmarked_after_null_fails. Qed.
Print Assumptions C19_unmarked_after_null_fails.

(** end to end: `$.a?.b?.IsNull()` with a absent is true; with a unmarked it is ErrKeyNotFound *)
Theorem C19_guard_marked : forall uni eng fuel a b u1 u2 u3 u4 kvs cur,
  map_lookup_fold a kvs = None ->
  eval uni eng (S (S (S fuel)))
    (NPath (Path false true false false [PIdent a true u1; PIdent b true u2; PFunc (Func false (bs "IsNull") [] u3)] u4))
    cur (VMap KtStr EAny false kvs) = Ok (vbool true).
Proof. exact Mpath.Proofs.C19.C19_guard_marked. Qed.
Print Assumptions C19_guard_marked.
Theorem C19_guard_unmarked : forall uni eng fuel a b u1 u2 u3 u4 kvs cur,
  map_lookup_fold a kvs = None ->
  eval uni eng (S (S fuel))
    (NPath (Path false true false false [PIdent a false u1; PIdent b true u2; PFunc (Func false (bs "IsNull") [] u3)] u4))
    cur (VMap KtStr EAny false kvs) = Err EKeyNotFound.
Proof. exact Mpath.Proofs.C19.C19_guard_unmarked. Qed.
Print Assumptions C19_guard_unmarked.
Theorem C19_guard_null_value : forall uni eng fuel a q b u1 u2 u3 u4 kvs cur,
  map_lookup_fold a kvs = Some VNil ->
  eval uni eng (S (S (S fuel)))
    (NPath (Path false true false false [PIdent a q u1; PIdent b true u2; PFunc (Func false (bs "IsNull") [] u3)] u4))
    cur (VMap KtStr EAny false kvs)
  = (if q then Ok (vbool true) else Err (EOther "cannot access property of nil value")).
Proof. exact Mpath.Proofs.C19.C19_guard_null_value. Qed.
Print Assumptions C19_guard_null_value.
