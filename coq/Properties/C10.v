(* Properties/C10.v — results do not depend on the Go types that carry the
   data (PARTIAL).  Statements only (restated as Coq prints them); proofs in
   Proofs/C10a–d.v and Proofs/C10.v.  [absx] forgets the carrier (keys folded
   when structs are in play, numbers by value via the canonical decimal,
   transparent through the root pointer); [supported] is the carrier class
   for which independence holds in the model; [in_fragment] admits every node
   kind and every function except AsJSON, Sprintf and Parse* (carrier text by
   design), with the per-mode function sets documented in Proofs/C10.v.
   Two modes: st (objects may be structs) and pt (the root may be handed over
   by pointer).  Every carrier or function that had to be left out is a
   machine-checked counterexample (the *_refuted theorems): the recorded
   findings about named string/bool types and pointers in interface slots,
   and the struct-vs-map and pointer-to-container differences listed in
   DESIGN §9. *)
From Coq Require Import String List.
From Mpath.Model Require Import Base Dec Types GoVal Ast Lexer Parser Funcs Eval.
From Mpath.Spec Require Import Json.
From Mpath.Proofs Require C10a C10b C10c C10d C10.
Import Mpath.Proofs.C10a Mpath.Proofs.C10b Mpath.Proofs.C10c Mpath.Proofs.C10d Mpath.Proofs.C10.

Theorem C10_carrier_independent :
  forall (st pt : bool) (uni : uclass) (eng : engines) (fuel : nat) (n : node) (cur1 cur2 orig1 orig2 : gv), in_fragment st pt uni n -> supported st pt cur1 -> supported st pt cur2 -> supported st pt orig1 -> supported st pt orig2 -> absx st cur1 = absx st cur2 -> absx st orig1 = absx st orig2 -> out_rel st (eval uni eng fuel n cur1 orig1) (eval uni eng fuel n cur2 orig2).
Proof. exact Mpath.Proofs.C10.C10_carrier_independent. Qed.
Print Assumptions C10_carrier_independent.

Theorem C10_do_top :
  forall (st pt : bool) (uni : uclass) (eng : engines) (t : top) (g1 g2 : gv), frag st pt uni default_fuel (NTop t) = true -> supported st pt g1 -> supported st pt g2 -> absx st g1 = absx st g2 -> out_rel st (do_top uni eng t g1) (do_top uni eng t g2).
Proof. exact Mpath.Proofs.C10.C10_do_top. Qed.
Print Assumptions C10_do_top.

Theorem C10_relational :
  forall (st pt : bool) (uni : uclass) (eng : engines) (fuel : nat) (n : node) (c1 c2 o1 o2 : gv), frag st pt uni fuel n = true -> Rv st pt c1 c2 -> Rv st pt o1 o2 -> orel (Rv st pt) (eval uni eng fuel n c1 o1) (eval uni eng fuel n c2 o2).
Proof. exact Mpath.Proofs.C10.C10_relational. Qed.
Print Assumptions C10_relational.

Theorem C10_same_verdict :
  forall (st pt : bool) (uni : uclass) (eng : engines) (t : top) (g1 g2 : gv), frag st pt uni default_fuel (NTop t) = true -> supported st pt g1 -> supported st pt g2 -> absx st g1 = absx st g2 -> (forall v1 : gv, do_top uni eng t g1 = Ok v1 -> exists v2 : gv, do_top uni eng t g2 = Ok v2 /\ absx st v1 = absx st v2) /\ (do_top uni eng t g1 = Err EKeyNotFound -> do_top uni eng t g2 = Err EKeyNotFound).
Proof. exact Mpath.Proofs.C10.C10_same_verdict. Qed.
Print Assumptions C10_same_verdict.

Theorem C10_json_carrier_supported :
  forall (st pt : bool) (g : gv), C01.json_carrier g -> supported st pt g.
Proof. exact Mpath.Proofs.C10.json_carrier_supported. Qed.
Print Assumptions C10_json_carrier_supported.

Theorem C10_structs_and_pointers :
  forall (uni : uclass) (eng : engines) (fuel : nat) (n : node) (cur1 cur2 orig1 orig2 : gv), in_fragment true true uni n -> supported true true cur1 -> supported true true cur2 -> supported true true orig1 -> supported true true orig2 -> absx true cur1 = absx true cur2 -> absx true orig1 = absx true orig2 -> out_rel true (eval uni eng fuel n cur1 orig1) (eval uni eng fuel n cur2 orig2).
Proof. exact Mpath.Proofs.C10.C10_structs_and_pointers. Qed.
Print Assumptions C10_structs_and_pointers.

Theorem C10_maps_only :
  forall (uni : uclass) (eng : engines) (fuel : nat) (n : node) (cur1 cur2 orig1 orig2 : gv), in_fragment false false uni n -> supported false false cur1 -> supported false false cur2 -> supported false false orig1 -> supported false false orig2 -> absx false cur1 = absx false cur2 -> absx false orig1 = absx false orig2 -> out_rel false (eval uni eng fuel n cur1 orig1) (eval uni eng fuel n cur2 orig2).
Proof. exact Mpath.Proofs.C10.C10_maps_only. Qed.
Print Assumptions C10_maps_only.

Theorem C10_named_string_refuted :
  differs true "$.a.Equal(""x"")" (M [(K "a", VStr true (bs "x"))]) (M [(K "a", K "x")]) (Ok (JBool false)) (Ok (JBool true)).
Proof. exact Mpath.Proofs.C10.named_string_refuted. Qed.
Print Assumptions C10_named_string_refuted.

Theorem C10_named_bool_refuted :
  differs true "$.a.Not()" (M [(K "a", VBool true true)]) (M [(K "a", VBool false true)]) eo (Ok (JBool false)).
Proof. exact Mpath.Proofs.C10.named_bool_refuted. Qed.
Print Assumptions C10_named_bool_refuted.

Theorem C10_ptr_in_interface_slot_refuted :
  differs true "$.a" (A [P (M [(K "a", F 1)])]) (A [M [(K "a", F 1)]]) (Err EKeyNotFound) (Ok (JArr [n1])).
Proof. exact Mpath.Proofs.C10.ptr_in_interface_slot_refuted. Qed.
Print Assumptions C10_ptr_in_interface_slot_refuted.

Theorem C10_zero_struct_isempty_refuted :
  differs true "$.IsEmpty()" (VStruct [fld "A" (F 0)]) (M [(K "a", F 0)]) (Ok (JBool true)) (Ok (JBool false)).
Proof. exact Mpath.Proofs.C10.zero_struct_isempty_refuted. Qed.
Print Assumptions C10_zero_struct_isempty_refuted.

Theorem C10_struct_sum_refuted :
  differs true "$.Sum()" (VStruct [fld "A" (F 1)]) (M [(K "a", F 1)]) (Ok n0) (Ok n1).
Proof. exact Mpath.Proofs.C10.struct_sum_refuted. Qed.
Print Assumptions C10_struct_sum_refuted.

Theorem C10_ptr_to_slice_sum_refuted :
  differs false "$.a.Sum()" (M [(K "a", P (A [F 1]))]) (M [(K "a", A [F 1])]) (Ok n0) (Ok n1).
Proof. exact Mpath.Proofs.C10.ptr_to_slice_sum_refuted. Qed.
Print Assumptions C10_ptr_to_slice_sum_refuted.

Theorem C10_nil_map_refuted :
  differs true "$.a.IsNull()" (M [(K "a", VMap KtStr EAny true [])]) (M [(K "a", M [])]) (Ok (JBool true)) (Ok (JBool false)).
Proof. exact Mpath.Proofs.C10.nil_map_refuted. Qed.
Print Assumptions C10_nil_map_refuted.

Theorem C10_example_by_theorem :
  forall (eng : engines) (t : top), frag true true uni_ascii default_fuel (NTop t) = true -> out_rel true (do_top uni_ascii eng t doc_json) (do_top uni_ascii eng t doc_go).
Proof. exact Mpath.Proofs.C10.C10_example_by_theorem. Qed.
Print Assumptions C10_example_by_theorem.
