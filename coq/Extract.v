(* Extract.v — extraction of the executable model to OCaml.  Only the standard
   directives of ExtrOcamlBasic and ExtrOcamlString are used (bool, option,
   list, pairs, unit; ascii as char, string as char list); Z, N, positive and
   nat stay the extracted inductive types. *)
From Coq Require Import Extraction ExtrOcamlBasic ExtrOcamlString.
From Mpath.Model Require Import Wire WireAll.
Extraction Language OCaml.
Extraction "model.ml" run_case_all.
