(* WireAll.v — the case runner for every kind of case the harness sends
   (one line in, one line out).  Extract.v extracts [run_case_all]. *)
From Mpath.Model Require Import Base Dec Types GoVal Ast Lexer Parser Printer Funcs Eval Wire Analysis Blocked Reader Sys Cue Validate WireVal.

Definition comma : str := bs ",".
Definition join_hex (l : list str) : str := concat_str comma (map show_hex l).

(** analysis <TAB> query-hex <TAB> uni
    → "ok rf=<hex,hex,…> ap=<hex.hex,hex.hex.hex,…>" | "parse-err" | "declined" *)
Definition run_analysis (q unis : str) : str :=
  match atom_hex q, sexp_of_str unis with
  | Some qs, Some u =>
    match parse_string (uni_of_sexp u) qs with
    | Ok t => bs "ok rf=" ++ join_hex (Mpath.Model.Analysis.root_fields t) ++ bs " ap="
              ++ concat_str comma (map (fun p => concat_str (bs ".") (map show_hex p)) (Mpath.Model.Analysis.addressed_paths t))
    | Declined w => bs "declined " ++ bs w
    | _ => bs "parse-err"
    end
  | _, _ => bad_case
  end.

(** blocked <TAB> cur-hex <TAB> (field-hex …) <TAB> ((name-hex (dep-hex …)) | (name-hex err) …)
    → "ok <hex,hex,…>" | "err" | "fuel" *)
Definition run_blocked (cur fields deps : str) : str :=
  match atom_hex cur, sexp_of_str fields, sexp_of_str deps with
  | Some c, Some (SL fl), Some (SL dl) =>
    let fs := filter_map (fun x => match x with SA a => atom_hex a | _ => None end) fl in
    let table := filter_map (fun x => match x with
                                      | SL [SA n; SL ds] => opt n' <- atom_hex n;
                                                            Some (n', Some (filter_map (fun d => match d with SA a => atom_hex a | _ => None end) ds))
                                      | SL [SA n; SA _] => opt n' <- atom_hex n; Some (n', None)
                                      | _ => None
                                      end) dl in
    let deps_fn := fun d => match find_first (fun '(n, _) => str_eqb n d) table with
                            | Some (_, Some l) => Ok l
                            | _ => fail "no _dependencies"
                            end in
    match get_blocked (blocked_fuel fs) deps_fn fs c with
    | Ok bl => bs "ok " ++ join_hex bl
    | Err _ => bs "err"
    | OutOfFuel => bs "fuel"
    | _ => bs "other"
    end
  | _, _, _ => bad_case
  end.

(** parse <TAB> bytes-hex <TAB> uni
    → "ok <sprint-hex> <userString-hex> <reparse>" | "err" | "declined …"
    where <reparse> is "ok <sprint-hex>" | "err" | "declined": the result of parsing the Sprint text again *)
Definition run_parse (q unis : str) : str :=
  match atom_hex q, sexp_of_str unis with
  | Some qs, Some u =>
    let uni := uni_of_sexp u in
    match parse_string uni qs with
    | Ok t =>
      let printed := sprint_top t in
      bs "ok " ++ show_hex printed ++ sp ++ show_hex (top_us t) ++ sp ++
      match parse_string uni printed with
      | Ok t' => bs "ok " ++ show_hex (sprint_top t')
      | Declined _ => bs "declined"
      | _ => bs "err"
      end
    | Declined w => bs "declined " ++ bs w
    | _ => bs "err"
    end
  | _, _ => bad_case
  end.

(** chunks <TAB> (chunk-hex | err …) <TAB> uni → same answer format as [parse] (first field only) *)
Definition run_chunks (chunks unis : str) : str :=
  match sexp_of_str chunks, sexp_of_str unis with
  | Some (SL cl), Some u =>
    let rdr := filter_map (fun x => match x with
                                    | SA a => if atom_is a "err" then Some RErr else option_map RChunk (atom_hex a)
                                    | _ => None
                                    end) cl in
    match parse_reader (uni_of_sexp u) rdr with
    | Ok t => bs "ok " ++ show_hex (sprint_top t)
    | Declined w => bs "declined " ++ bs w
    | _ => bs "err"
    end
  | _, _ => bad_case
  end.

Definition run_case_all (line : str) : str :=
  match split_tab line [] with
  | kind :: fields =>
    if atom_is kind "eval" then
      match fields with [q; data; unis; engs] => run_eval q data unis engs | _ => bad_case end
    else if atom_is kind "analysis" then
      match fields with [q; unis] => run_analysis q unis | _ => bad_case end
    else if atom_is kind "blocked" then
      match fields with [c; fs; ds] => run_blocked c fs ds | _ => bad_case end
    else if atom_is kind "parse" then
      match fields with [q; unis] => run_parse q unis | _ => bad_case end
    else if atom_is kind "validate" then run_validate fields
    else if atom_is kind "chunks" then
      match fields with [cs; unis] => run_chunks cs unis | _ => bad_case end
    else bad_case
  | [] => bad_case
  end.
