(* Dec.v — shopspring/decimal v1.3.1 as used by mpath, re-implemented from its
   source (decimal.go).  value = coef * 10^dexp, coef an unbounded integer
   (big.Int), dexp an int32 in Go and an unbounded Z here (DESIGN §3.3). *)
From Mpath.Model Require Import Base.

Record dec := mkDec { coef : Z; dexp : Z }.

Definition dzero : dec := mkDec 0 0.
Definition pow10 (n : Z) : Z := 10 ^ n.

(** Decimal.rescale: big.Int.Quo truncates toward zero. *)
Definition rescale (d : dec) (e : Z) : dec :=
  if e =? dexp d then d
  else if dexp d <? e then mkDec (Z.quot (coef d) (pow10 (e - dexp d))) e
  else mkDec (coef d * pow10 (dexp d - e)) e.

Definition rescale_pair (a b : dec) : dec * dec :=
  let e := Z.min (dexp a) (dexp b) in (rescale a e, rescale b e).

Definition dadd (a b : dec) : dec :=
  let (x, y) := rescale_pair a b in mkDec (coef x + coef y) (dexp x).
Definition dsub (a b : dec) : dec :=
  let (x, y) := rescale_pair a b in mkDec (coef x - coef y) (dexp x).
Definition dmul (a b : dec) : dec := mkDec (coef a * coef b) (dexp a + dexp b).
Definition dabs (a : dec) : dec := mkDec (Z.abs (coef a)) (dexp a).
Definition dneg (a : dec) : dec := mkDec (- coef a) (dexp a).

Definition dcmp (a b : dec) : comparison :=
  let (x, y) := rescale_pair a b in Z.compare (coef x) (coef y).
Definition deq (a b : dec) : bool := match dcmp a b with Eq => true | _ => false end.
Definition dlt (a b : dec) : bool := match dcmp a b with Lt => true | _ => false end.
Definition dgt (a b : dec) : bool := match dcmp a b with Gt => true | _ => false end.
Definition dle (a b : dec) : bool := negb (dgt a b).
Definition dge (a b : dec) : bool := negb (dlt a b).
Definition dis_zero (a : dec) : bool := coef a =? 0.
Definition dis_neg (a : dec) : bool := coef a <? 0.

(** QuoRem / DivRound with DivisionPrecision = 16.  The divisor is non-zero
    (Go panics otherwise; callers guard). *)
Definition division_precision : Z := 16.

Definition quo_rem (a b : dec) (prec : Z) : dec * dec :=
  let scale := - prec in
  let e := dexp a - dexp b - scale in
  if e <? 0 then
    let aa := coef a in
    let bb := coef b * pow10 (- e) in
    (mkDec (Z.quot aa bb) scale, mkDec (Z.rem aa bb) (dexp a))
  else
    let aa := coef a * pow10 e in
    let bb := coef b in
    (mkDec (Z.quot aa bb) scale, mkDec (Z.rem aa bb) (scale + dexp b)).

Definition div_round (a b : dec) (prec : Z) : dec :=
  let (q, r) := quo_rem a b prec in
  let r2 := mkDec (Z.abs (coef r) * 2) (dexp r + prec) in
  match dcmp r2 (dabs b) with
  | Lt => q
  | _ => if Z.sgn (coef a) * Z.sgn (coef b) <? 0
         then dsub q (mkDec 1 (- prec))
         else dadd q (mkDec 1 (- prec))
  end.

Definition ddiv (a b : dec) : dec := div_round a b division_precision.

(** Truncate(0) *)
Definition truncate0 (d : dec) : dec := if dexp d <? 0 then rescale d 0 else d.
Definition dmod (a b : dec) : dec := dsub a (dmul b (truncate0 (ddiv a b))).

Definition dsum (first : dec) (rest : list dec) : dec := fold_left dadd rest first.
Definition davg (first : dec) (rest : list dec) : dec :=
  ddiv (dsum first rest) (mkDec (Z.of_nat (S (length rest))) 0).
Definition dmin (first : dec) (rest : list dec) : dec :=
  fold_left (fun ans item => match dcmp item ans with Lt => item | _ => ans end) rest first.
Definition dmax (first : dec) (rest : list dec) : dec :=
  fold_left (fun ans item => match dcmp item ans with Gt => item | _ => ans end) rest first.

(** IsInteger *)
Definition dis_integer (d : dec) : bool :=
  if 0 <=? dexp d then true else Z.rem (coef d) (pow10 (- dexp d)) =? 0.

(** IntPart: rescale(0).value.Int64() — math/big: the low 64 bits of |x|
    reinterpreted as int64, negated (with wrap-around) when x < 0. *)
Definition sint64 (z : Z) : Z := (z + 2 ^ 63) mod 2 ^ 64 - 2 ^ 63.
Definition big_int64 (x : Z) : Z :=
  let v := sint64 (Z.abs x mod 2 ^ 64) in
  if x <? 0 then sint64 (- v) else v.
Definition int_part (d : dec) : Z := big_int64 (coef (rescale d 0)).

(** * Canonical form: same value, no trailing zero in the coefficient. *)
Fixpoint strip_zeros (fuel : nat) (c e : Z) : dec :=
  match fuel with
  | O => mkDec c e
  | S k => if (c =? 0) then mkDec 0 0
           else if Z.rem c 10 =? 0 then strip_zeros k (Z.quot c 10) (e + 1)
           else mkDec c e
  end.
(** number of decimal digits of |c| is at most log2|c| + 1 *)
Definition dnorm (d : dec) : dec :=
  strip_zeros (S (Z.to_nat (Z.log2 (Z.abs (coef d))))) (coef d) (dexp d).

(** * NewFromString *)
Fixpoint index_any_e (s : str) (i : nat) : option nat :=
  match s with
  | [] => None
  | c :: s' => if Ascii.eqb c "e"%char || Ascii.eqb c "E"%char then Some i else index_any_e s' (S i)
  end.

Fixpoint count_dots (s : str) : nat :=
  match s with [] => O | c :: s' => (if Ascii.eqb c "."%char then 1 else 0) + count_dots s' end.
Fixpoint before_dot (s : str) : str :=
  match s with [] => [] | c :: s' => if Ascii.eqb c "."%char then [] else c :: before_dot s' end.
Fixpoint after_dot (s : str) : option str :=
  match s with [] => None | c :: s' => if Ascii.eqb c "."%char then Some s' else after_dot s' end.

Definition in_int32 (z : Z) : bool := (- 2 ^ 31 <=? z) && (z <? 2 ^ 31).

Definition dec_of_string (value : str) : option dec :=
  let '(mant, eopt) :=
    match index_any_e value 0 with
    | Some i => (firstn i value, Some (skipn (S i) value))
    | None => (value, None)
    end in
  let expo := match eopt with None => Some 0 | Some es => match parse_int es with Some z => if in_int32 z then Some z else None | None => None end end in
  match expo with
  | None => None
  | Some e0 =>
    if (1 <? count_dots mant)%nat then None else
    let '(int_string, e1) :=
      match after_dot mant with
      | None => (mant, e0)
      | Some frac => (before_dot mant ++ frac, e0 - Z.of_nat (length frac))
      end in
    match parse_int int_string with
    | None => None
    | Some c => if in_int32 e1 then Some (mkDec c e1) else None
    end
  end.

(** * Decimal.String(): plain notation, trailing fractional zeros trimmed. *)
Fixpoint trim_trailing_zeros_rev (r : str) : str :=
  match r with
  | c :: r' => if Ascii.eqb c "0"%char then trim_trailing_zeros_rev r' else r
  | [] => []
  end.
Definition trim_trailing_zeros (s : str) : str := rev (trim_trailing_zeros_rev (rev s)).

Definition dec_to_string (d : dec) : str :=
  if 0 <=? dexp d then show_Z (coef (rescale d 0))
  else
    let digits := show_Z (Z.abs (coef d)) in
    let n := Z.to_nat (- dexp d) in
    let '(ip, fp) :=
      if (n <? length digits)%nat
      then (firstn (length digits - n) digits, skipn (length digits - n) digits)
      else (bs "0", repeat "0"%char (n - length digits) ++ digits) in
    let fp' := trim_trailing_zeros fp in
    let number := match fp' with [] => ip | _ => ip ++ bs "." ++ fp' end in
    if coef d <? 0 then "-"%char :: number else number.

(** * Query numerals: strconv.ParseFloat then decimal.NewFromFloat.
    Exact for plain decimal syntax with at most 15 significant digits and a
    moderate exponent (the value survives the float64 round trip and
    NewFromFloat yields its shortest digits, i.e. the canonical form); other
    syntactically plausible numerals are [NumUnknown]: the model declines. *)
Inductive num_result := NumOk (d : dec) | NumReject | NumUnknown.

Fixpoint all_digits (s : str) : bool :=
  match s with [] => true | c :: s' => is_digit c && all_digits s' end.
Fixpoint strip_leading_zeros (s : str) : str :=
  match s with c :: s' => if Ascii.eqb c "0"%char then strip_leading_zeros s' else s | [] => [] end.

Definition is_sign (c : ascii) : bool := Ascii.eqb c "+"%char || Ascii.eqb c "-"%char.
Definition is_hexish (c : ascii) : bool :=
  is_digit c || Ascii.eqb c "_"%char || Ascii.eqb c "."%char || is_sign c ||
  let l := lower_ascii c in
  (Ascii.eqb l "a"%char || Ascii.eqb l "b"%char || Ascii.eqb l "c"%char || Ascii.eqb l "d"%char ||
   Ascii.eqb l "e"%char || Ascii.eqb l "f"%char || Ascii.eqb l "x"%char || Ascii.eqb l "p"%char).

Definition starts_hex (body : str) : bool :=
  match body with
  | z :: x :: _ => Ascii.eqb z "0"%char && Ascii.eqb (lower_ascii x) "x"%char
  | _ => false
  end.

Definition numeral (tt : str) : num_result :=
  let '(neg, body) :=
    match tt with
    | c :: r => if Ascii.eqb c "-"%char then (true, r) else if Ascii.eqb c "+"%char then (false, r) else (false, tt)
    | [] => (false, [])
    end in
  if forallb is_hexish tt && (existsb (fun c => Ascii.eqb c "_"%char) tt || starts_hex body) then
    (* hexadecimal floats and digit separators are left to strconv: the model declines *)
    NumUnknown
  else
  let '(mant, eopt) :=
    match index_any_e body 0 with
    | Some i => (firstn i body, Some (skipn (S i) body))
    | None => (body, None)
    end in
  let ip := before_dot mant in
  let fp := match after_dot mant with Some f => f | None => [] end in
  let simple_mant := all_digits ip && all_digits fp && (count_dots mant <=? 1)%nat
                     && negb ((List.length ip + List.length fp =? 0)%nat) in
  let eok := match eopt with
             | None => Some 0
             | Some es => match es with
                          | [] => None
                          | c :: r => let ds := if is_sign c then r else es in
                                      match ds with [] => None | _ => if all_digits ds then parse_int es else None end
                          end
             end in
  if negb simple_mant then NumReject   (* includes the NaN/Inf spellings, which the parser refuses *)
  else
    match eok with
    | None => NumReject
    | Some e0 =>
      let digits := strip_leading_zeros (ip ++ fp) in
      match digits_val 0 digits with
      | None => NumReject
      | Some c =>
        let e := e0 - Z.of_nat (List.length fp) in
        let adj := e + Z.of_nat (List.length digits) in
        if (15 <? List.length digits)%nat then NumUnknown
        else if (c =? 0) then (if (Z.abs e0 <? 100000) then NumOk dzero else NumUnknown)
        else if (adj <? -300) || (300 <? adj) then NumUnknown
        else NumOk (dnorm (mkDec (if neg then - c else c) e))
      end
    end.
