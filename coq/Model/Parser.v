(* Parser.v — ParseReadSeeker's loop and the Parse methods of the five node
   types (mpath.go, op*.go; DESIGN App. A.2), over the token stream.

   The Go code threads the current token rune [r] and the scanner; here a
   cursor (current token, or EOF, or the rune 0 that a callee's bare `return`
   yields at EOF) and the list of tokens still to be scanned. *)
From Mpath.Model Require Import Base Dec Types Ast Lexer.
From Mpath.Generated Require Import FuncTable Escapes.

Inductive cursor := CTok (t : token) | CEOF | CZero.

Definition scan (rest : list token) : cursor * list token :=
  match rest with [] => (CEOF, []) | t :: r => (CTok t, r) end.

(** parse results: None = a parse error *)
Definition pres (A : Type) := outcome (cursor * list token * A).
Definition perr {A} : pres A := Err (EOther "parse error").

Definition is_ch (t : token) (c : Z) : bool := match tk t with TCh d => d =? c | _ => false end.
Definition is_ident_tok (t : token) : bool := match tk t with TIdent => true | _ => false end.

Fixpoint find_fdesc (name : str) (tbl : list fdesc) : option fdesc :=
  match tbl with
  | [] => None
  | d :: tbl' => if str_eqb (bs (fd_name d)) name then Some d else find_fdesc name tbl'
  end.

(** ft_GetByName: look the descriptor up by Name, yield its key *)
Definition ft_get_by_name (name : str) : option str :=
  option_map (fun d => bs (fd_key d)) (find_fdesc name func_table).

Fixpoint find_fdesc_key (key : str) (tbl : list fdesc) : option fdesc :=
  match tbl with
  | [] => None
  | d :: tbl' => if str_eqb (bs (fd_key d)) key then Some d else find_fdesc_key key tbl'
  end.

Definition ft_is_bool_func (ft : str) : bool :=
  match find_fdesc_key ft func_table with
  | Some d => match fd_ret d with (PT_Boolean, IO_Single) => true | _ => false end
  | None => false
  end.

(** strings.Replace(s, old, new, -1) for non-empty old *)
Definition apply_replacements (tbl : list (str * str)) (s : str) : str :=
  fold_left (fun acc '(o, n) => replace_all acc o n) tbl s.
Definition unescape (s : str) : str := apply_replacements unescape_table s.
Definition escape (s : str) : str := apply_replacements escape_table s.

Definition strip_qmark (name : str) : str * bool :=
  match rev name with
  | c :: r => if Ascii.eqb c "?"%char then (rev r, true) else (name, false)
  | [] => (name, false)
  end.

Definition strip_dquotes (tt : str) : str :=
  match tt with
  | q :: r =>
    match rev r with
    | q2 :: mid => if Ascii.eqb q """"%char && Ascii.eqb q2 """"%char then rev mid else tt
    | [] => tt
    end
  | [] => tt
  end.

Definition is_digit_rune (c : Z) : bool := (48 <=? c) && (c <=? 57).

(** dealWithNumbers: returns the numeral text, the params/userString update is
    done by the caller; the cursor stays on the last token consumed. *)
Definition deal_with_numbers (t : token) (rest : list token) : str * list token :=
  if tnext t =? 46 then
    match rest with
    | dot :: rest' =>                       (* s.Scan(): the dot *)
      if is_digit_rune (tnext dot) then
        match rest' with
        | t2 :: rest'' => (ttext t ++ bs "." ++ ttext t2, rest'')
        | [] => (ttext t, rest')
        end
      else (ttext t, rest')
    | [] => (ttext t, rest)
    end
  else (ttext t, rest).

Definition last_ok_for_group (ops : list pathop) : bool :=
  match rev ops with
  | PFunc (Func _ ft _ _) :: _ => ft_is_bool_func ft
  | PIdent _ _ _ :: _ => true
  | _ => false
  end.

Definition ch_str (c : Z) : str := [chr c].

(** The five Parse methods, mutually recursive on fuel; every loop iteration
    and every call spends one unit. *)
Fixpoint parse_path (fuel : nat) (is_filter must_end : bool) (cur : cursor) (rest : list token) : pres path :=
  match fuel with
  | O => OutOfFuel
  | S k =>
    match cur with
    | CTok t =>
      if is_ch t 36 then                                   (* '$' *)
        if is_filter then perr
        else let (c, r) := scan rest in path_loop k true is_filter must_end [] (ch_str 36) c r
      else if is_ch t 64 then                              (* '@' *)
        let (c, r) := scan rest in path_loop k false is_filter must_end [] (ch_str 64) c r
      else perr
    | _ => perr
    end
  end

with path_loop (fuel : nat) (root is_filter must_end : bool) (ops : list pathop) (us : str)
               (cur : cursor) (rest : list token) : pres path :=
  match fuel with
  | O => OutOfFuel
  | S k =>
    match cur with
    | CEOF => Ok (CZero, rest, Path false root is_filter must_end ops us)
    | CZero => perr
    | CTok t =>
      if is_ch t 46 then let (c, r) := scan rest in path_loop k root is_filter must_end ops (us ++ ch_str 46) c r
      else if is_ch t 44 || is_ch t 41 || is_ch t 93 || is_ch t 125 then
        let invalid := must_end && negb (last_ok_for_group ops) in
        Ok (cur, rest, Path invalid root is_filter must_end ops us)
      else if is_ident_tok t then
        if tnext t =? 40 then
          do (c, r, f) <- parse_func k cur rest; path_loop k root is_filter must_end (ops ++ [PFunc f]) (us ++ func_us f) c r
        else
          let '(name, q) := strip_qmark (ttext t) in
          let (c, r) := scan rest in
          path_loop k root is_filter must_end (ops ++ [PIdent name q (ttext t)]) (us ++ ttext t) c r
      else if is_ch t 91 then                              (* '[' : a filter *)
        do (c, r, l) <- parse_log k true cur rest; path_loop k root is_filter must_end (ops ++ [PFilter l (logop_us l)]) (us ++ logop_us l) c r
      else perr
    end
  end

with parse_func (fuel : nat) (cur : cursor) (rest : list token) : pres func :=
  match fuel with
  | O => OutOfFuel
  | S k =>
    match cur with
    | CTok t =>
      if negb (tnext t =? 40) then perr else
      let '(invalid, ft) := match ft_get_by_name (ttext t) with
                            | Some key => (false, key)
                            | None => (true, ttext t)
                            end in
      let (c, r) := scan rest in
      let us := ft ++ match c with CTok t1 => ttext t1 | _ => [] end in   (* string(r) of the '(' *)
      func_loop k invalid ft [] us c r
    | _ => perr
    end
  end

with func_loop (fuel : nat) (invalid : bool) (ft : str) (ps : list param) (us : str)
               (cur : cursor) (rest : list token) : pres func :=
  match fuel with
  | O => OutOfFuel
  | S k =>
    match cur with
    | CEOF => Ok (CZero, rest, Func invalid ft ps us)
    | CZero => let (c, r) := scan rest in func_loop k invalid ft ps us c r
    | CTok t =>
      if is_ch t 44 then let (c, r) := scan rest in func_loop k invalid ft ps (us ++ ch_str 44) c r
      else if is_ch t 41 then
        let (c, r) := scan rest in Ok (c, r, Func invalid ft ps (us ++ ch_str 41))
      else if is_ch t 36 || is_ch t 64 then
        do (c, r, p) <- parse_path k false false cur rest; func_loop k invalid ft (ps ++ [FPPath p]) (us ++ path_us p) c r
      else if is_ch t 123 then
        do (c, r, l) <- parse_log k false cur rest; func_loop k invalid ft (ps ++ [FPLog l]) (us ++ logop_us l) c r
      else
        match tk t with
        | TString | TChar =>
          let v := unescape (strip_dquotes (ttext t)) in
          let (c, r) := scan rest in
          func_loop k invalid ft (ps ++ [FPStr v]) (us ++ ttext t) c r
        | TIdent =>
          if str_eqb (ttext t) (bs "true") then
            let (c, r) := scan rest in func_loop k invalid ft (ps ++ [FPBool true]) (us ++ ttext t) c r
          else if str_eqb (ttext t) (bs "false") then
            let (c, r) := scan rest in func_loop k invalid ft (ps ++ [FPBool false]) (us ++ ttext t) c r
          else
            let '(ntxt, rest') := deal_with_numbers t rest in
            match numeral ntxt with
            | NumOk d => let (c, r) := scan rest' in func_loop k invalid ft (ps ++ [FPNum d]) (us ++ ntxt) c r
            | NumReject => perr
            | NumUnknown => Declined "numeral outside the modelled fragment"
            end
        | TCh _ => let (c, r) := scan rest in func_loop k invalid ft ps us c r   (* silently skipped *)
        end
    end
  end

with parse_log (fuel : nat) (is_filter : bool) (cur : cursor) (rest : list token) : pres logop :=
  match fuel with
  | O => OutOfFuel
  | S k =>
    match cur with
    | CTok t =>
      if negb (is_ch t 123 || is_ch t 91) then perr else
      let us := ttext t in
      let (c, r) := scan rest in
      match c with
      | CTok t1 =>
        if is_ident_tok t1 then
          let ty := if str_eqb (ttext t1) (bs "AND") then LAnd
                    else if str_eqb (ttext t1) (bs "OR") then LOr
                    else LBad (ttext t1) in
          let inv := match ty with LBad _ => true | _ => false end in
          let (c', r') := scan r in
          log_loop k inv is_filter ty [] (us ++ ttext t1) c' r'
        else log_loop k false is_filter LAnd [] us c r
      | _ => log_loop k false is_filter LAnd [] us c r
      end
    | _ => perr
    end
  end

with log_loop (fuel : nat) (invalid is_filter : bool) (ty : lot) (xs : list operand) (us : str)
              (cur : cursor) (rest : list token) : pres logop :=
  match fuel with
  | O => OutOfFuel
  | S k =>
    match cur with
    | CEOF => Ok (CZero, rest, LogOp invalid is_filter ty xs us)
    | CZero => perr
    | CTok t =>
      if is_ch t 44 then let (c, r) := scan rest in log_loop k invalid is_filter ty xs (us ++ ch_str 44) c r
      else if is_ch t 36 || is_ch t 64 then
        do (c, r, p) <- parse_path k is_filter true cur rest; log_loop k invalid is_filter ty (xs ++ [OpP p]) (us ++ path_us p) c r
      else if is_ch t 123 then
        do (c, r, l) <- parse_log k false cur rest; log_loop k invalid is_filter ty (xs ++ [OpL l]) (us ++ logop_us l) c r
      else if is_ch t 125 || is_ch t 93 then
        let (c, r) := scan rest in Ok (c, r, LogOp invalid is_filter ty xs (us ++ ttext t))
      else perr
    end
  end.

(** ParseReadSeeker's top loop *)
Fixpoint top_loop (fuel : nat) (topop : option top) (cur : cursor) (rest : list token) : outcome top :=
  match fuel with
  | O => OutOfFuel
  | S k =>
    match cur with
    | CEOF | CZero =>
      match topop with
      | Some t => Ok t
      | None => Err (EOther "invalid query: no operation found")
      end
    | CTok t =>
      if is_ch t 123 then
        match topop with
        | Some _ => Err (EOther "operation not terminated properly")
        | None =>
          do (c, r, l) <- parse_log k false cur rest; top_loop k (Some (TopL l)) c r
        end
      else if is_ch t 64 || is_ch t 36 then
        match topop with
        | Some _ => Err (EOther "operation not terminated properly")
        | None =>
          do (c, r, p) <- parse_path k false false cur rest; top_loop k (Some (TopP p)) c r
        end
      else Err (EOther "invalid query")
    end
  end.

Definition parse_fuel (toks : list token) : nat := (3 * length toks + 8)%nat.

Definition parse_tokens (toks : list token) : outcome top :=
  let (c, r) := scan toks in top_loop (parse_fuel toks) None c r.

(** ParseString *)
Definition parse_string (uni : uclass) (s : str) : outcome top :=
  match lex uni s with
  | None => Err (EOther "scanner error")
  | Some toks => parse_tokens toks
  end.
