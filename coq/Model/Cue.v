(* Cue.v — the CUE schema fragment CueValidate is specified on, and the few
   cuelang (v0.8.1) API calls mpath makes, as total functions on that fragment.
   Definitions only ("modelled, not verified": the behaviour below was read off
   the real library by probing; the C13/C14 harness re-checks it on every
   generated schema).

   Fragment: closed and open (`...`) structs; regular, optional `?`, required
   `!`, quoted, hidden `_x` fields and definitions `#D`; string bytes bool int
   float number _; `[...T]` (open) and `[T]` (closed, one element) lists;
   concrete lists of string literals (the `_dependencies` lists).
   A field whose type is a reference to a definition is modelled by inlining
   the definition's type.

   Values of the API are schema nodes; a failed lookup (cue's bottom value with
   a non-nil Err()) is [None].

   Observed lookup table (v.LookupPath(MakePath(sel)).Err() == nil ?), struct
   closed unless stated:
     field form        Str n    Str n .Optional()   Hid(n,"_")   Hid .Optional()
     n: T              ok       ok                  (panics: not `_`-prefixed)
     n?: T  / n!: T    error    ok
     "n-x": T, "_q": T ok       ok                  error        error
     _h: T             error    error               ok           ok
     #D: T             error    error
     undeclared        error    error               error        error
     undeclared, `...` error    ok, value `_`       error        error
   On a primitive, on `_`, on a list every Str/Hid lookup fails.
   AnyIndex succeeds on `[...T]` only (value T).  IncompleteKind of `[...T]`,
   `[T]`, `["a","b"]`, `[]` is list; List() iterates nothing on `[...T]` and
   `[]`; Kind() is list on `[T]`, `["a"]`, `[]` and bottom on `[...T]`.
   Fields(cue.All()) never fails on a non-error value (scalars are allowed
   when hidden fields or definitions are requested); it lists every label of a
   struct with the selector texts n, n?, n!, "n-x", _h, #D. *)
From Mpath.Model Require Import Base.
From Mpath.Generated Require Import BasePaths.

(** * The schema fragment *)
Inductive fform := FRegular | FOptional | FRequired | FQuoted | FHidden | FDef.

(** [fl_name] is the label text without quotes and without the `?`/`!` mark;
    for a hidden field it includes the leading `_`, for a definition the `#`. *)
Record flabel := mkLabel { fl_name : str; fl_form : fform }.

Inductive cty :=
| CStr | CBytes | CBool | CInt | CFloat | CNumber | CTop
| CList (open : bool) (elem : cty)                (* [...T] / [T] *)
| CDeps (l : list str)                            (* ["a", "b"]: concrete string literals *)
| CStruct (open : bool) (fields : list (flabel * cty)).

Definition fform_eqb (a b : fform) : bool :=
  match a, b with
  | FRegular, FRegular | FOptional, FOptional | FRequired, FRequired
  | FQuoted, FQuoted | FHidden, FHidden | FDef, FDef => true
  | _, _ => false
  end.

(** * Kinds (cue.Kind as far as mpath distinguishes them) *)
Inductive ckind := KBottom | KBool | KString | KBytes | KInt | KFloat | KNumber | KTop | KStruct | KList.

Definition ckind_eqb (a b : ckind) : bool :=
  match a, b with
  | KBottom, KBottom | KBool, KBool | KString, KString | KBytes, KBytes | KInt, KInt | KFloat, KFloat
  | KNumber, KNumber | KTop, KTop | KStruct, KStruct | KList, KList => true
  | _, _ => false
  end.

(** Value.IncompleteKind().  No value of the fragment has kind bottom; only a
    failed lookup has, see [opt_kind]. *)
Definition incomplete_kind (v : cty) : ckind :=
  match v with
  | CStr => KString | CBytes => KBytes | CBool => KBool
  | CInt => KInt | CFloat => KFloat | CNumber => KNumber
  | CTop => KTop
  | CList _ _ | CDeps _ => KList
  | CStruct _ _ => KStruct
  end.

Definition opt_kind (o : option cty) : ckind :=
  match o with Some v => incomplete_kind v | None => KBottom end.

(** * Selectors and LookupPath *)
Inductive selector := SelStr (n : str) | SelHid (n : str).

(** which field forms a selector finds; [optional] = the selector's .Optional() variant *)
Definition form_found (hid optional : bool) (f : fform) : bool :=
  if hid then match f with FHidden => true | _ => false end
  else match f with
       | FRegular | FQuoted => true
       | FOptional | FRequired => optional
       | FHidden | FDef => false
       end.

Fixpoint find_field (p : fform -> bool) (n : str) (fs : list (flabel * cty)) : option cty :=
  match fs with
  | [] => None
  | (l, t) :: r => if str_eqb (fl_name l) n && p (fl_form l) then Some t else find_field p n r
  end.

(** v.LookupPath(cue.MakePath(sel)) and v.LookupPath(cue.MakePath(sel.Optional())) *)
Definition lookup (v : cty) (sel : selector) (optional : bool) : option cty :=
  match v with
  | CStruct open fs =>
    match sel with
    | SelStr n =>
      match find_field (form_found false optional) n fs with
      | Some t => Some t
      | None => if optional && open then Some CTop else None     (* `...` admits any string label as `_` *)
      end
    | SelHid n => find_field (form_found true optional) n fs       (* `...` does not cover hidden labels *)
    end
  | _ => None
  end.

(** v.LookupPath(cue.MakePath(cue.AnyIndex)) *)
Definition any_index (v : cty) : option cty :=
  match v with CList true t => Some t | _ => None end.

(** the values v.List() iterates over *)
Definition list_elems (v : cty) : list cty :=
  match v with
  | CList false t => [t]
  | CList true _ => []
  | CDeps l => map (fun _ => CStr) l            (* a string literal: kind string *)
  | _ => []
  end.

(** * ast.IsValidIdent, for ASCII names.  A name with a byte >= 128 is reported
    invalid; this only makes [get_selector] skip a hidden lookup that fails
    anyway as long as the hidden labels of the schema are ASCII identifiers. *)
Definition is_ascii_letter (c : ascii) : bool :=
  let x := byte c in ((97 <=? x) && (x <=? 122)) || ((65 <=? x) && (x <=? 90)).
Definition ident_char (c : ascii) : bool :=
  is_ascii_letter c || is_digit c || Ascii.eqb c "_"%char || Ascii.eqb c "$"%char.

Definition valid_ident (s : str) : bool :=
  match s with
  | [] => false
  | c0 :: r0 =>
    let '(s1, consumed) := if Ascii.eqb c0 "_"%char then (r0, true) else (s, false) in
    match s1, consumed with
    | [], true => true                                      (* "_" *)
    | _, _ =>
      let '(s2, consumed2) :=
        match s1 with
        | c1 :: r1 => if Ascii.eqb c1 "#"%char then (r1, false) else (s1, consumed)
        | [] => (s1, consumed)
        end in
      let starts_with_digit := match s2 with c :: _ => is_digit c | [] => false end in
      if negb consumed2 && starts_with_digit then false
      else forallb ident_char s2
    end
  end.

Definition underscore : str := bs "_".
Definition dash : str := bs "-".

(** cue.go getSelectorForField *)
Definition get_selector (v : cty) (name : str) : selector :=
  if has_prefix name underscore && negb (contains name dash) && valid_ident name then
    match lookup v (SelHid name) false with
    | Some _ => SelHid name
    | None => SelStr name
    end
  else SelStr name.

(** * cue.go findValueAtPath *)

(** One iteration of the loop `for _, cp := range cuePath`. *)
Inductive step_res :=
| StepTo (v : cty)          (* outputValue = thisValue *)
| StepStop (v : cty)        (* `return outputValue, nil` on a value of kind `_`: the remaining keys are ignored *)
| StepErr.                  (* errFunc, or an error value that every later step and the final check turn into errFunc *)

Definition find_step (v : cty) (cp : str) : step_res :=
  let sel := get_selector v cp in
  match lookup v sel false with
  | Some t => StepTo t
  | None =>
    match lookup v sel true with
    | Some t => StepTo t
    | None =>
      match any_index v with
      | Some t => StepTo t                       (* the element type; the key [cp] is NOT applied to it *)
      | None =>
        match incomplete_kind v with
        | KTop => StepStop v
        | KList =>
          (* it, _ := outputValue.List(); it.Next(); thisValue = it.Value() *)
          match list_elems v with
          | e :: _ =>
            (* thisValue = thisValue.LookupPath(selector); the error test that follows
               looks at outputValue (the list), so a failed lookup is carried on as an
               error value: every lookup on it fails, its kind is bottom, and both the
               next iteration and the check after the loop end in errFunc. *)
            match lookup e sel false with
            | Some t => StepTo t
            | None => StepErr
            end
          | [] => StepErr                        (* it.Value() of an exhausted iterator is an error value *)
          end
        | _ => StepErr
        end
      end
    end
  end.

(** [None] = (value, error).  After the loop the code replaces a value whose
    IncompleteKind is bottom by its AnyIndex; no non-error value of the fragment
    has that kind. *)
Fixpoint find_value_at_path (v : cty) (cue_path : list str) : option cty :=
  match cue_path with
  | [] => Some v
  | cp :: rest =>
    match find_step v cp with
    | StepTo t => find_value_at_path t rest
    | StepStop t => Some t
    | StepErr => None
    end
  end.

(** * getUnderlyingKind / getUnderlyingValue *)
Definition underlying_value (v : cty) : option cty :=
  match incomplete_kind v with
  | KList =>
    match list_elems v with
    | e :: _ => Some e
    | [] => any_index v            (* `[...T]`: T; `[]`: an error value *)
    end
  | _ => Some v
  end.

Definition underlying_kind (v : cty) : ckind := opt_kind (underlying_value v).

(** * getAvailableFieldsForValue *)
Definition dquote : str := bs """".

(** Selector.String() of a field label, for names that need no escaping *)
Definition needs_quotes (n : str) : bool :=
  has_prefix n underscore || has_prefix n (bs "#") || negb (valid_ident n).

Definition selector_text (l : flabel) : str :=
  let n := fl_name l in
  match fl_form l with
  | FRegular | FQuoted => if needs_quotes n then dquote ++ n ++ dquote else n
  | FOptional => (if needs_quotes n then dquote ++ n ++ dquote else n) ++ bs "?"
  | FRequired => (if needs_quotes n then dquote ++ n ++ dquote else n) ++ bs "!"
  | FHidden | FDef => n
  end.

Definition trim_prefix (s p : str) : str := if has_prefix s p then skipn (length p) s else s.
Definition trim_suffix (s p : str) : str := if has_suffix s p then firstn (length s - length p) s else s.

Definition strip_quotes (s : str) : str :=
  if has_prefix s dquote && has_suffix s dquote then trim_suffix (trim_prefix s dquote) dquote else s.

(** the selector texts Fields(cue.All()) iterates over *)
Definition field_texts (v : cty) : list str :=
  match v with
  | CStruct _ fs => map (fun lt => selector_text (fst lt)) fs
  | CList false _ => [bs "0"]
  | CDeps l => map show_nat (seq 0 (length l))
  | _ => []
  end.

(** the `?` / `!` mark is trimmed first (it follows the closing quote of a quoted label), then the quotes *)
Definition clean_field_name (fld : str) : str :=
  strip_quotes (trim_suffix (trim_suffix fld (bs "?")) (bs "!")).

(** [None] = the error return (Fields on the error value that the underlying
    value of `[]` is). *)
Definition available_fields (v : cty) (blocked : list str) : option (list str) :=
  let v' := match incomplete_kind v with KStruct => Some v | _ => underlying_value v end in
  match v' with
  | None => None
  | Some u =>
    Some (map clean_field_name
              (filter (fun fld => negb (str_eqb fld BP_Dependencies)
                                  && negb (str_mem (strip_quotes (clean_field_name fld)) blocked))
                      (field_texts u)))
  end.

(** * getConcreteValuesForListOfStringValueAtPath, after findValueAtPath:
    Kind() must be list (it is bottom for `[...T]`), the underlying kind string
    (or bottom for `[]`), every element a concrete string. *)
Definition concrete_strings (v : cty) : option (list str) :=
  match v with CDeps l => Some l | _ => None end.

(** findValueAtPath(rootValue, {d}) then the `_dependencies` list of that value *)
Definition deps_of (root : cty) (d : str) : outcome (list str) :=
  match find_value_at_path root [d] with
  | None => fail "failed to find step in cue value"
  | Some v =>
    match find_value_at_path v [BP_Dependencies] with
    | None => fail "failed to find output in cue value"
    | Some w =>
      match concrete_strings w with
      | Some l => Ok l
      | None => fail "output was of the wrong kind"
      end
    end
  end.
