(* Sys.v — the scanner pool and ParseReadSeeker as a state machine
   (mpath.go: scannerPool, ParseReadSeeker and its deferred function,
   scanner.Reset, scanner.Err), so that "whatever was parsed before" is a
   statement about histories of calls.

   What survives a call is the *scanner object*, which goes back into a
   sync.Pool.  Of its state only four things can influence a later parse:
   the remembered first error, the identifier predicate, the mode, and the
   error handler.  Everything else (source, buffers, positions, the look-ahead
   character) is overwritten by sx.Init.  No proofs here. *)
From Mpath.Model Require Import Base Ast Lexer Parser.

Record sobj := mkS {
  s_err : option string;   (* scanner.err: the first scanner error of the parse *)
  s_ident_std : bool;      (* sx.IsIdentRune is the function the pool's New installed *)
  s_mode_std : bool;       (* sx.Mode is mpath's mode *)
  s_handler : bool         (* sx.Error is mpath's handler (else: nil, text/scanner prints to os.Stderr) *)
}.

(** scannerPool.New: fresh object, handler not yet the one Reset installs *)
Definition new_obj : sobj := mkS None true true false.

(** scanner.Reset after a successful Seek: sx.Init sets Error := nil and
    Mode := GoTokens and leaves IsIdentRune alone; Reset then installs the
    handler and the mode.  It does NOT clear scanner.err. *)
Definition reset (o : sobj) : sobj := mkS (s_err o) (s_ident_std o) true true.

(** the handler: keeps the first message only *)
Definition on_error (o : sobj) (msg : string) : sobj :=
  match s_err o with
  | Some _ => o
  | None => mkS (Some msg) (s_ident_std o) (s_mode_std o) (s_handler o)
  end.

(** How the body of ParseReadSeeker is left. *)
Inductive exit :=
| XReturn (t : top)          (* return topOp, nil *)
| XError (e : err)           (* return nil, err: from Reset, from a Parse method, or from s.Err() *)
| XPanic (m : string)        (* a panic unwinding through the function *)
| XOutOfFuel                 (* the two artefacts of the model: no claim about Go *)
| XDeclined (w : string).

Definition exit_of (r : outcome top) : exit :=
  match r with
  | Ok t => XReturn t | Err e => XError e | Panic m => XPanic m
  | OutOfFuel => XOutOfFuel | Declined w => XDeclined w
  end.

Definition result_of (x : exit) : outcome top :=
  match x with
  | XReturn t => Ok t | XError e => Err e | XPanic m => Panic m
  | XOutOfFuel => OutOfFuel | XDeclined w => Declined w
  end.

(** The body after Reset, on an object [o]: the token loop, then s.Err().
    [lex] = None means that at least one scanner error event occurred (the
    handler ran); whatever the Parse methods then made of the tokens, the
    call returns an error (theirs, or the one s.Err() reports).
    An object whose identifier predicate or mode is not the standard one would
    scan differently: the model declines. *)
Definition body (o : sobj) (uni : uclass) (bytes : str) : exit * sobj :=
  if negb (s_ident_std o && s_mode_std o) then (XDeclined "non-standard scanner", o) else
  match lex uni bytes with
  | None => (XError (EOther "scanner error"), on_error o "scanner error")
  | Some toks =>
    match parse_tokens toks with
    | Ok t =>
      match s_err o with                       (* if err := s.Err(); err != nil *)
      | Some m => (XError (EOther m), o)       (* possibly a STALE error *)
      | None => (XReturn t, o)
      end
    | r => (exit_of r, o)
    end
  end.

(** text/scanner prints an error event to os.Stderr iff no handler is set *)
Definition writes_stderr (o : sobj) (uni : uclass) (bytes : str) : bool :=
  negb (s_handler o) && match lex uni bytes with None => true | Some _ => false end.

(** defer func() { s.err = nil; scannerPool.Put(s) }(): runs on EVERY exit *)
Definition deferred (o : sobj) : sobj := mkS None (s_ident_std o) (s_mode_std o) (s_handler o).

(** ParseReadSeeker on the object Get handed out: result, object put back *)
Definition parse_with (o : sobj) (uni : uclass) (bytes : str) : outcome top * sobj :=
  let (x, o') := body (reset o) uni bytes in (result_of x, deferred o').

(** the same when Seek fails: Reset returns before sx.Init, the deferred function still runs *)
Definition parse_bad_seek (o : sobj) : outcome top * sobj :=
  (Err (EOther "seek error"), deferred o).

(** * The pool: the free objects.  Get hands out any of them, or a new one
    (sync.Pool may also drop objects: [pick] out of range is a miss). *)
Definition pool := list sobj.

Fixpoint remove_nth {A} (n : nat) (l : list A) {struct l} : list A :=
  match l with
  | [] => []
  | x :: l' => match n with O => l' | S n' => x :: remove_nth n' l' end
  end.

Definition get (pick : option nat) (p : pool) : sobj * pool :=
  match pick with
  | None => (new_obj, p)
  | Some i => match nth_error p i with Some o => (o, remove_nth i p) | None => (new_obj, p) end
  end.

Inductive call :=
| Parse (pick : option nat) (uni : uclass) (bytes : str)   (* ParseString / ParseReadSeeker on these bytes *)
| ParseBadSeek (pick : option nat).                       (* ParseReadSeeker on a reader whose Seek fails *)

Definition step (p : pool) (c : call) : pool * outcome top :=
  match c with
  | Parse pick uni bytes =>
    let (o, p') := get pick p in
    let (r, o') := parse_with o uni bytes in (o' :: p', r)
  | ParseBadSeek pick =>
    let (o, p') := get pick p in
    let (r, o') := parse_bad_seek o in (o' :: p', r)
  end.

(** the pool after a history of calls *)
Definition run (history : list call) (p : pool) : pool :=
  fold_left (fun p c => fst (step p c)) history p.
