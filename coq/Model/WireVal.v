(* WireVal.v — the `validate` case of the harness: one CueValidate call.
   Definitions only.

   Input fields (TAB-separated after the case kind):
     1. query-hex      the mpath query, as an atom xHEX (Wire.v [atom_hex])
     2. schema-sexp    the CUE schema, see below
     3. step-hex       currentPath as xHEX, or the atom "x" alone for none
     4. uni-sexp       Unicode class table for the lexer (Wire.v [uni_of_sexp]); "()" for ASCII queries

   Schema s-expressions (T):
     str | bytes | bool | int | float | number | top          string bytes bool int float number _
     (list open T)                                            [...T]
     (list closed T)                                          [T]
     (deps xHEX ...)                                          ["a", "b"]  concrete string literals (`_dependencies`)
     (struct open|closed (FORM xNAME T) ...)                  { FIELD, ... }  with `...` when open
   FORM is one of
     reg     NAME: T         opt   NAME?: T        req  NAME!: T
     quoted  "NAME": T       hidden NAME: T (NAME starts with `_`)
     def     NAME: T (NAME starts with `#`)
   xNAME is the hex of the label text without quotes and marks (with the `_`
   of a hidden field and the `#` of a definition).  A field whose type is a
   definition used elsewhere is sent with the definition's type inlined; the
   harness may render it as a reference to a definition of that type.
   The top-level T must be a struct (a CUE file).

   Output, one line:
     ok|err <has_errors 0/1> <ptype> <iotype> <classes>
       ok|err    CueValidate's `err` is nil | non-nil (tc is non-nil in both cases)
       ptype     String Bytes Boolean Number Any Object Root ElementRoot, or - for the zero InputOrOutput
       iotype    Single Array Variadic, or -
       classes   the error classes occurring in tc.GetErrors(), comma-separated, each once, in the
                 order of [all_classes] below; - when there is none
     blocked-err             getBlockedRootFields failed (CueValidate returns a nil tc and an error)
     parse-err               the query does not parse (nil tc and an error)
     declined <why> | fuel   outside the modelled fragment
     badcase                 malformed input fields *)
From Mpath.Model Require Import Base Dec Types GoVal Ast Lexer Parser Funcs Eval Wire Cue Blocked Validate.

(** * schema <- sexp *)
Definition form_names : list (string * fform) :=
  [("reg", FRegular); ("opt", FOptional); ("req", FRequired); ("quoted", FQuoted); ("hidden", FHidden); ("def", FDef)].

Definition atom_open (a : str) : option bool :=
  if atom_is a "open" then Some true else if atom_is a "closed" then Some false else None.

Fixpoint cty_of_sexp (fuel : nat) (x : sexp) : option cty :=
  match fuel with
  | O => None
  | S k =>
    match x with
    | SA a =>
      if atom_is a "str" then Some CStr
      else if atom_is a "bytes" then Some CBytes
      else if atom_is a "bool" then Some CBool
      else if atom_is a "int" then Some CInt
      else if atom_is a "float" then Some CFloat
      else if atom_is a "number" then Some CNumber
      else if atom_is a "top" then Some CTop
      else None
    | SL (SA tag :: args) =>
      if atom_is tag "list" then
        match args with
        | [SA o; t] => opt o' <- atom_open o; opt t' <- cty_of_sexp k t; Some (CList o' t')
        | _ => None
        end
      else if atom_is tag "deps" then
        opt l <- opt_map_all (fun d => match d with SA a => atom_hex a | _ => None end) args;
        Some (CDeps l)
      else if atom_is tag "struct" then
        match args with
        | SA o :: fs =>
          opt o' <- atom_open o;
          opt fs' <- opt_map_all (fun f => match f with
                                           | SL [SA form; SA nm; t] =>
                                             opt form' <- lookup_name form form_names;
                                             opt nm' <- atom_hex nm;
                                             opt t' <- cty_of_sexp k t;
                                             Some (mkLabel nm' form', t')
                                           | _ => None
                                           end) fs;
          Some (CStruct o' fs')
        | _ => None
        end
      else None
    | _ => None
    end
  end.

Definition schema_of_str (s : str) : option cty :=
  opt x <- sexp_of_str s; cty_of_sexp (sexp_size x) x.

(** * answer -> text *)
Definition show_ptype (p : ptype) : str :=
  bs match p with
     | PT_String => "String" | PT_Bytes => "Bytes" | PT_Boolean => "Boolean" | PT_Number => "Number"
     | PT_Any => "Any" | PT_Object => "Object" | PT_Root => "Root" | PT_ElementRoot => "ElementRoot"
     end.
Definition show_iotype (i : iotype) : str :=
  bs match i with IO_Single => "Single" | IO_Array => "Array" | IO_Variadic => "Variadic" end.

Definition show_vty (t : vty) : str :=
  match t with
  | Some (p, i) => show_ptype p ++ sp ++ show_iotype i
  | None => bs "- -"
  end.

Definition eclass_eqb (a b : eclass) : bool :=
  match a, b with
  | EUndeclared, EUndeclared | EIntoPrimitive, EIntoPrimitive | EAcrossList, EAcrossList
  | ENotAvailable, ENotAvailable | EUnknownFunction, EUnknownFunction | EInvalidOp, EInvalidOp
  | ETooManyParams, ETooManyParams | EWrongReceiverType, EWrongReceiverType | EParamType, EParamType
  | ENotList, ENotList | EFilterOnFunction, EFilterOnFunction | EFilterNoPart, EFilterNoPart
  | EFuncNotHere, EFuncNotHere | ENotBoolean, ENotBoolean | ENoParts, ENoParts | EOtherErr, EOtherErr => true
  | _, _ => false
  end.

Definition all_classes : list (eclass * string) :=
  [(EUndeclared, "undeclared"); (EIntoPrimitive, "into-primitive"); (EAcrossList, "across-list");
   (ENotAvailable, "not-available"); (EUnknownFunction, "unknown-function"); (EInvalidOp, "invalid-op");
   (ETooManyParams, "too-many-params"); (EWrongReceiverType, "wrong-receiver"); (EParamType, "param-type");
   (ENotList, "not-list"); (EFilterOnFunction, "filter-on-function"); (EFilterNoPart, "filter-no-part");
   (EFuncNotHere, "func-not-here"); (ENotBoolean, "not-boolean"); (ENoParts, "no-parts"); (EOtherErr, "other")].

Definition comma_str : str := bs ",".

Definition show_classes (m : emsg) : str :=
  match filter (fun cn : eclass * string => existsb (eclass_eqb (fst cn)) m) all_classes with
  | [] => bs "-"
  | l => concat_str comma_str (map (fun cn : eclass * string => bs (snd cn)) l)
  end.

Definition show_vres (r : vres) : str :=
  (if v_err r then bs "err" else bs "ok") ++ sp ++ show_bool (v_has_errors r) ++ sp
  ++ show_vty (v_type r) ++ sp ++ show_classes (v_errs r).

(** * the case runner *)
Definition step_of_atom (a : str) : option str :=
  if atom_is a "x" then Some [] else atom_hex a.

Definition run_validate (fields : list str) : str :=
  match fields with
  | [q; schema; step; unis] =>
    match atom_hex q, schema_of_str schema, step_of_atom step, sexp_of_str unis with
    | Some qs, Some sch, Some cur, Some u =>
      match parse_string (uni_of_sexp u) qs with
      | Ok t =>
        match cue_validate sch cur t with
        | Ok r => show_vres r
        | Err _ => bs "blocked-err"
        | OutOfFuel => bs "fuel"
        | Declined w => bs "declined " ++ bs w
        | Panic _ => bs "panic"
        end
      | Declined w => bs "declined " ++ bs w
      | OutOfFuel => bs "fuel"
      | _ => bs "parse-err"
      end
    | _, _, _, _ => bad_case
    end
  | _ => bad_case
  end.
