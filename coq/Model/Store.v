(* Store.v — a micro-model of Go slices with capacity (definitions only).

   A slice header is (backing array, offset, length, capacity); backing arrays
   live in a store indexed by an array id.  Cells hold decimal.Decimal values,
   abstracted as integers: only WHICH cell holds WHICH value matters here.

   [go_append] is the built-in append: when the spare capacity suffices it
   writes IN PLACE into the backing array it was given (the write is visible
   through every other slice that shares the array) and returns the same
   array with a larger length; otherwise it allocates a new array.

   Used by Proofs/C11.v to justify that func_decimalSlice (funcs.go:
   `newSlc = append([]decimal.Decimal{}, valueInstance...)` and then
   `append(newSlc, paramNumbers...)`) cannot write into the caller's backing
   array, whereas `append(valueInstance, paramNumbers...)` could. *)
From Coq Require Import List ZArith.
Import ListNotations.

Record slice := mkSlice {
  s_arr : nat;   (* id of the backing array *)
  s_off : nat;   (* index of the slice's first cell in the backing array *)
  s_len : nat;
  s_cap : nat    (* cells available from s_off on; s_len <= s_cap *)
}.

(** backing arrays by id *)
Definition store := nat -> list Z.

(** what Go guarantees of a slice header (not needed by the purity theorem,
    which holds for arbitrary headers; stated for the examples) *)
Definition slice_ok (st : store) (s : slice) : Prop :=
  s_len s <= s_cap s /\ s_off s + s_cap s <= length (st (s_arr s)).

(** the elements s[0], ..., s[len-1] *)
Definition read (st : store) (s : slice) : list Z :=
  firstn (s_len s) (skipn (s_off s) (st (s_arr s))).

(** overwrite cells i, i+1, ... of an array with xs *)
Definition write_at (l : list Z) (i : nat) (xs : list Z) : list Z :=
  firstn i l ++ xs ++ skipn (i + length xs) l.

Definition upd (st : store) (a : nat) (l : list Z) : store :=
  fun b => if Nat.eqb b a then l else st b.

(** append(s, xs...).  [fresh] is the id the allocator would hand out and
    [extra] the spare capacity it would add (Go's growth policy is not
    specified: any amount). *)
Definition go_append (st : store) (s : slice) (xs : list Z) (fresh extra : nat) : store * slice :=
  if Nat.leb (s_len s + length xs) (s_cap s) then
    (upd st (s_arr s) (write_at (st (s_arr s)) (s_off s + s_len s) xs),
     mkSlice (s_arr s) (s_off s) (s_len s + length xs) (s_cap s))
  else
    (upd st fresh (read st s ++ xs ++ repeat 0%Z extra),
     mkSlice fresh 0 (s_len s + length xs) (s_len s + length xs + extra)).

(** `[]decimal.Decimal{}`: length 0, capacity 0.  Its data pointer is the
    runtime's zero-size base; [zb] is whatever array id that is (it may even
    coincide with one of the caller's arrays: nothing is ever written through
    a capacity-0 slice). *)
Definition empty_slice (zb : nat) : slice := mkSlice zb 0 0 0.

(** The current code: copy onto a fresh empty slice, then append the
    parameters. *)
Definition decimal_slice_current (st : store) (zb : nat) (v : slice) (ps : list Z)
    (fresh1 extra1 fresh2 extra2 : nat) : store * slice :=
  let (st1, n) := go_append st (empty_slice zb) (read st v) fresh1 extra1 in
  go_append st1 n ps fresh2 extra2.

(** A buggy variant for contrast: append straight onto the caller's slice. *)
Definition decimal_slice_aliasing (st : store) (v : slice) (ps : list Z)
    (fresh extra : nat) : store * slice :=
  go_append st v ps fresh extra.
