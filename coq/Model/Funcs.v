(* Funcs.v — the runtime functions of funcs.go (all except Select, which needs
   the evaluator), after the repairs listed in known_findings.txt. *)
From Mpath.Model Require Import Base Dec Types GoVal.

Inductive rparam := RNum (d : dec) | RStr (s : str) | RBool (b : bool).

(** External engines are parameters (DESIGN §3.5).  None = the oracle table of
    the case has no entry: the model declines. *)
Record engines := mkEngines {
  eng_re_match : str -> str -> option (option bool);          (* pattern, subject; Some None = pattern rejected *)
  eng_re_replace : str -> str -> str -> option (option str);  (* pattern, subject, template *)
  eng_json_marshal : gv -> option (option str);
  eng_decode : string -> str -> option (option gv);           (* "JSON" | "YAML" | "TOML" | "XML" *)
  eng_sprintf : str -> list gv -> option str
}.
Definition no_engines : engines :=
  mkEngines (fun _ _ => None) (fun _ _ _ => None) (fun _ => None) (fun _ _ => None) (fun _ _ => None).

Definition numbers (ps : list rparam) : list dec := filter_map (fun p => match p with RNum d => Some d | _ => None end) ps.
Definition strings (ps : list rparam) : list str := filter_map (fun p => match p with RStr s => Some s | _ => None end) ps.
Definition bools (ps : list rparam) : list bool := filter_map (fun p => match p with RBool b => Some b | _ => None end) ps.

Definition string_number (s : str) : option dec :=
  let (was, d) := convert_number_check (VStr false s) in if was then Some d else None.

Definition len_is (ps : list rparam) (n : nat) : bool := (length ps =? n)%nat.

Definition params_first_any (ps : list rparam) : outcome rparam :=
  match ps with [p] => Ok p | _ => fail "expected 1 params" end.

Definition params_first_number (ps : list rparam) : outcome dec :=
  if negb (len_is ps 1) then fail "expected 1 params" else
  match numbers ps with
  | d :: _ => Ok d
  | [] => match filter_map string_number (strings ps) with
          | d :: _ => Ok d
          | [] => fail "no number parameter found"
          end
  end.

Definition params_first_string (ps : list rparam) : outcome str :=
  if negb (len_is ps 1) then fail "expected 1 params" else
  match strings ps with s :: _ => Ok s | [] => fail "no string parameter found" end.

Definition params_get_all (ps : list rparam) : list gv :=
  map VDec (numbers ps) ++ map (VStr false) (strings ps) ++ map (VBool false) (bools ps).

Definition vbool (b : bool) : gv := VBool false b.
Definition vstr (s : str) : gv := VStr false s.

(** interface equality `val == p` for p a decimal, string or bool *)
Definition go_eq (val p : gv) : bool :=
  match val, p with
  | VStr false s, VStr false t => str_eqb s t
  | VBool false b, VBool false c => Bool.eqb b c
  | _, _ => false
  end.

Definition rparam_gv (p : rparam) : gv :=
  match p with RNum d => VDec d | RStr s => vstr s | RBool b => vbool b end.

Definition func_equal (ps : list rparam) (val : gv) : outcome bool :=
  do p <- params_first_any ps;
  match val with
  | VDec v => match p with RNum d => Ok (deq v d) | _ => Ok false end
  | _ => Ok (go_eq val (rparam_gv p))
  end.

Definition decimal_bool_func (f : dec -> dec -> bool) (ps : list rparam) (val : gv) : outcome gv :=
  do p <- params_first_number ps;
  match val with VDec v => Ok (vbool (f v p)) | _ => fail "parameter wasn't number" end.

Definition string_bool_func (f : str -> str -> bool) (invert : bool) (ps : list rparam) (val : gv) : outcome gv :=
  do p <- params_first_string ps;
  match val with
  | VStr false s => Ok (vbool (xorb invert (f s p)))
  | _ => fail "parameter wasn't string"
  end.

Definition is_seq_kind (v : rv) : bool :=
  match rkind v with KdSlice | KdArray => true | _ => false end.

Definition func_count (ps : list rparam) (val : gv) : outcome gv :=
  if negb (len_is ps 0) then fail "expected 0 params" else
  let v := value_of val in
  if is_empty_value v then Ok (VDec dzero) else
  match elems_of (rv_v (deref1 v)) with
  | Some (_, xs) => Ok (VDec (mkDec (Z.of_nat (length xs)) 0))
  | None => Ok (VDec dzero)
  end.

(** reflect.Value.IsZero on a struct, as far as Any() can observe it *)
Fixpoint gv_is_zero (g : gv) : bool :=
  match g with
  | VNil => true
  | VBool _ b => negb b
  | VInt _ _ z => z =? 0
  | VFloat _ _ f => float_is_zero f
  | VStr _ s => match s with [] => true | _ => false end
  | VDec d => false   (* a decimal built by any constructor holds a non-nil *big.Int; the literal decimal.Decimal{} is outside the model (DESIGN §8) *)
  | VPtr o => match o with None => true | Some _ => false end
  | VSlice _ isnil _ => isnil
  | VMap _ _ isnil _ => isnil
  | VArray t xs => forallb (fun x => if ety_eqb t EAny then match x with VNil => true | _ => false end else gv_is_zero x) xs
  | VStruct fs => forallb (fun '(_, _, iface, v) => if (iface : bool) then match v with VNil => true | _ => false end else gv_is_zero v) fs
  | VFunc isnil => isnil
  | VChan isnil => isnil
  end.

Definition func_any (ps : list rparam) (val : gv) : outcome gv :=
  if negb (len_is ps 0) then fail "expected 0 params" else
  let v := value_of val in
  if is_empty_value v then Ok (vbool false) else
  let v := deref1 v in
  match rv_v v with
  | VSlice _ _ xs | VArray _ xs => Ok (vbool (negb (length xs =? 0)%nat))
  | VStruct _ => Ok (vbool (gv_is_zero (rv_v v)))
  | VDec d => Declined "Any() on a decimal: IsZero of big.Int internals"
  | _ => Ok (vbool false)
  end.

Definition empty_guard (v : rv) : bool := is_empty_value v && negb (is_seq_kind v).

Definition func_first (ps : list rparam) (val : gv) : outcome gv :=
  if negb (len_is ps 0) then fail "expected 0 params" else
  let v := value_of val in
  if empty_guard v then Ok (VDec dzero) else
  match elems_of (rv_v (deref1 v)) with
  | Some (_, x :: _) => Ok (convert_number x)
  | Some (_, []) => fail "nothing in array"
  | None => fail "not array"
  end.

Definition func_last (ps : list rparam) (val : gv) : outcome gv :=
  if negb (len_is ps 0) then fail "expected 0 params" else
  let v := value_of val in
  if empty_guard v then Ok (VDec dzero) else
  match elems_of (rv_v (deref1 v)) with
  | Some (_, []) => fail "nothing in array"
  | Some (_, xs) => match nth_error xs (length xs - 1) with
                    | Some x => Ok (convert_number x)
                    | None => Panic "reflect: slice index out of range"
                    end
  | None => fail "not array"
  end.

Definition func_index (ps : list rparam) (val : gv) : outcome gv :=
  do p <- params_first_number ps;
  let v := value_of val in
  if empty_guard v then Ok (VDec dzero) else
  match elems_of (rv_v (deref1 v)) with
  | Some (_, xs) =>
    if negb (dis_neg p) && dlt p (mkDec (Z.of_nat (length xs)) 0) then
      let i := int_part p in
      if i <? 0 then Panic "reflect: slice index out of range" else
      match nth_error xs (Z.to_nat i) with
      | Some x => Ok (convert_number x)
      | None => Panic "reflect: slice index out of range"
      end
    else fail "nothing in array"
  | None => fail "not array"
  end.

Inductive agg := AggSum | AggAvg | AggMin | AggMax.
Definition run_agg (a : agg) (first : dec) (rest : list dec) : dec :=
  match a with AggSum => dsum first rest | AggAvg => davg first rest | AggMin => dmin first rest | AggMax => dmax first rest end.

(** an element of an aggregate's array: a decimal, or whatever
    convertToDecimalIfNumberAndCheck accepts (any numeric kind, a numeric
    string, one of these behind a pointer) *)
Definition elem_number (x : gv) : option dec :=
  match x with
  | VDec d => Some d
  | _ => let (was, d) := convert_number_check x in if was then Some d else None
  end.

Fixpoint all_some {A} (l : list (option A)) : option (list A) :=
  match l with
  | [] => Some []
  | Some x :: l' => option_map (cons x) (all_some l')
  | None :: _ => None
  end.

Definition func_decimal_slice (a : agg) (ps : list rparam) (val : gv) : outcome gv :=
  let val := match val with VDec d => VSlice EDec false [VDec d] | _ => val end in
  let param_numbers := numbers ps ++ filter_map string_number (strings ps) in
  let val := match val with VMap _ _ _ kvs => VSlice EAny false (map snd kvs) | _ => val end in
  let new_slc :=
    match val with
    | VSlice EDec _ xs => option_map (fun ds => ds ++ param_numbers) (all_some (map (fun x => match x with VDec d => Some d | _ => None end) xs))
    | VSlice _ _ xs | VArray _ xs => option_map (fun ds => param_numbers ++ ds) (all_some (map elem_number xs))
    | _ => Some []
    end in
  match new_slc with
  | None => fail "not an array of numbers"
  | Some [] => Ok (VDec dzero)
  | Some [d] => Ok (VDec d)
  | Some (d :: rest) => Ok (VDec (run_agg a d rest))
  end.

Inductive arith := AAdd | ASub | AMul | ADiv | AMod.

Definition func_decimal (op : arith) (ps : list rparam) (val : gv) : outcome gv :=
  do p <- params_first_number ps;
  match op with
  | ADiv | AMod => if dis_zero p then fail "cannot divide by zero" else
    match val with
    | VDec v => Ok (VDec (match op with ADiv => ddiv v p | _ => dmod v p end))
    | _ => fail "not a number"
    end
  | _ =>
    match val with
    | VDec v => Ok (VDec (match op with AAdd => dadd v p | ASub => dsub v p | _ => dmul v p end))
    | _ => fail "not a number"
    end
  end.

Fixpoint any_of_loop (val : gv) (params : list gv) : bool :=
  match params with
  | [] => false
  | p :: rest =>
    match val with
    | VDec v => match p with
                | VDec d => if deq v d then true else any_of_loop val rest
                | _ => false
                end
    | _ => if go_eq val p then true else any_of_loop val rest
    end
  end.

Definition func_any_of (ps : list rparam) (val : gv) : outcome gv :=
  Ok (vbool (any_of_loop val (params_get_all ps))).

(** Go slicing s[lo:hi]; panics like the runtime when out of range *)
Definition go_slice (s : str) (lo hi : Z) : outcome str :=
  if (0 <=? lo) && (lo <=? hi) && (hi <=? Z.of_nat (length s))
  then Ok (firstn (Z.to_nat (hi - lo)) (skipn (Z.to_nat lo) s))
  else Panic "slice bounds out of range".

Inductive spart := SLeft | SRight | STrimLeft | STrimRight.

Definition string_part_func (w : spart) (ps : list rparam) (val : gv) : outcome gv :=
  do p <- params_first_number ps;
  if negb (dis_integer p) then fail "parameter must be an integer" else
  if dis_neg p then fail "parameter must not be negative" else
  match val with
  | VStr false s =>
    let n := Z.of_nat (length s) in
    let p := if dgt p (mkDec n 0) then mkDec n 0 else p in
    let i := int_part p in
    do r <- match w with
            | STrimRight => if n <=? i then Ok [] else go_slice s 0 (n - i)
            | STrimLeft => if n <=? i then Ok [] else go_slice s i n
            | SRight => if n <? i then Ok s else go_slice s (n - i) n
            | SLeft => if n <? i then Ok s else go_slice s 0 i
            end;
    Ok (vstr r)
  | _ => fail "value wasn't string"
  end.

Definition func_replace_all (ps : list rparam) (val : gv) : outcome gv :=
  if negb (len_is ps 2) then fail "expected 2 params" else
  match strings ps with
  | [] => fail "replace parameter missing"
  | f :: rest =>
    match f with
    | [] => fail "find parameter must not be an empty string"
    | _ =>
      match rest with
      | [] => fail "replace parameter missing"
      | r :: _ =>
        match val with
        | VStr false s => Ok (vstr (replace_all s f r))
        | _ => fail "value wasn't string"
        end
      end
    end
  end.

(** cmp.Equal(val, zero, EquateEmpty, Exporter(all)) *)
Fixpoint cmp_is_zero (g : gv) : bool :=
  match g with
  | VNil => true
  | VBool _ b => negb b
  | VInt _ _ z => z =? 0
  | VFloat _ _ f => float_is_zero f
  | VStr _ s => match s with [] => true | _ => false end
  | VDec d => coef d =? 0
  | VPtr o => match o with None => true | Some _ => false end
  | VSlice _ _ xs => match xs with [] => true | _ => false end
  | VMap _ _ _ kvs => match kvs with [] => true | _ => false end
  | VArray t xs => forallb (fun x => if ety_eqb t EAny then match x with VNil => true | _ => false end else cmp_is_zero x) xs
  | VStruct fs => forallb (fun '(_, _, iface, v) => if (iface : bool) then match v with VNil => true | _ => false end else cmp_is_zero v) fs
  | VFunc isnil => isnil
  | VChan isnil => isnil
  end.

Definition func_is_null (ps : list rparam) (val : gv) : outcome bool :=
  if negb (len_is ps 0) then fail "expected 0 params" else Ok (is_nil val).
Definition func_is_empty (ps : list rparam) (val : gv) : outcome bool :=
  if negb (len_is ps 0) then fail "expected 0 params" else Ok (cmp_is_zero val).
Definition func_is_null_or_empty (ps : list rparam) (val : gv) : outcome bool :=
  if negb (len_is ps 0) then fail "expected 0 params" else Ok (is_nil val || cmp_is_zero val).

Definition negate (o : outcome bool) : outcome gv := do b <- o; Ok (vbool (negb b)).
Definition boolv (o : outcome bool) : outcome gv := do b <- o; Ok (vbool b).

Definition func_not (val : gv) : outcome gv :=
  match val with VBool false b => Ok (vbool (negb b)) | _ => fail "value is not a boolean" end.
Definition func_invert (val : gv) : outcome gv :=
  match val with
  | VBool false b => Ok (vbool (negb b))
  | VPtr (Some (VBool false b)) => Ok (vbool (negb b))
  | _ => fail "input was not boolean"
  end.

Section WithEngines.
Variable eng : engines.

Definition func_does_match_regex (ps : list rparam) (val : gv) : outcome gv :=
  do p <- params_first_string ps;
  match val with
  | VStr false s =>
    match eng_re_match eng p s with
    | None => Declined "regexp oracle miss"
    | Some None => fail "regular expression is invalid"
    | Some (Some b) => Ok (vbool b)
    end
  | _ =>
    match eng_re_match eng p [] with
    | None => Declined "regexp oracle miss"
    | Some None => fail "regular expression is invalid"
    | Some _ => fail "value wasn't string"
    end
  end.

Definition func_replace_regex (ps : list rparam) (val : gv) : outcome gv :=
  if negb (len_is ps 2) then fail "expected 2 params" else
  match strings ps with
  | [] => fail "replace parameter missing"
  | [] :: _ => fail "find parameter must not be an empty string"
  | rgx :: rest =>
    match rest with
    | [] => fail "replace parameter missing"
    | repl :: _ =>
      let subject := match val with VStr false s => s | _ => [] end in
      match eng_re_replace eng rgx subject repl with
      | None => Declined "regexp oracle miss"
      | Some None => fail "regular expression is invalid"
      | Some (Some out) => match val with VStr false _ => Ok (vstr out) | _ => fail "value wasn't string" end
      end
    end
  end.

Definition func_as_json (ps : list rparam) (val : gv) : outcome gv :=
  if negb (len_is ps 0) then fail "expected 0 params" else
  if is_empty_value (value_of val) then Ok (vstr []) else
  match eng_json_marshal eng val with
  | None => Declined "json.Marshal oracle miss"
  | Some None => fail "unable to marshal to JSON"
  | Some (Some s) => Ok (vstr s)
  end.

Definition string_to_object (fmt : string) (ps : list rparam) (val : gv) : outcome gv :=
  if negb (len_is ps 0) then fail "expected 0 params" else
  let v := value_of val in
  if is_empty_value v then Ok (VMap KtStr EAny true []) else
  match val with
  | VStr false s =>
    match eng_decode eng fmt s with
    | None => Declined "decoder oracle miss"
    | Some None => fail "value is not parsable"
    | Some (Some g) => Ok g
    end
  | _ => fail "value is not a string"
  end.

Definition func_sprintf (ps : list rparam) (val : gv) : outcome gv :=
  match val with
  | VStr false s =>
    match params_get_all ps with
    | [] => Ok (vstr s)
    | _ :: rest => match eng_sprintf eng s rest with
                   | Some out => Ok (vstr out)
                   | None => Declined "fmt.Sprintf oracle miss"
                   end
    end
  | _ => fail "input was not a string"
  end.

Definition remove_keys (keep : str -> option bool) (val : gv) : outcome gv :=
  let v := deref1 (value_of val) in
  match rv_v v with
  | VMap kt vt _ kvs =>
    (* keys that do not convert to a string are kept; None from [keep] = oracle miss *)
    let step := fun (acc : option (list (gv * gv))) (kv : gv * gv) =>
      match acc with
      | None => None
      | Some l =>
        match key_string (fst kv) with
        | None => Some (l ++ [kv])
        | Some ks => match keep ks with
                     | None => None
                     | Some true => Some (l ++ [kv])
                     | Some false => Some l
                     end
        end
      end in
    match fold_left step kvs (Some []) with
    | Some l => Ok (VMap kt vt false l)
    | None => Declined "regexp oracle miss"
    end
  | _ => fail "value is not a map"
  end.

Definition func_remove_keys_by (how : string) (ps : list rparam) (val : gv) : outcome gv :=
  if negb (len_is ps 1) then fail "expected 1 params" else
  do p <- params_first_string ps;
  if String.eqb how "Regex" then
    match eng_re_match eng p [] with
    | None => Declined "regexp oracle miss"
    | Some None => fail "regular expression is invalid"
    | Some _ => remove_keys (fun k => match eng_re_match eng p k with Some (Some b) => Some (negb b) | _ => None end) val
    end
  else if String.eqb how "Prefix" then remove_keys (fun k => Some (negb (has_prefix k p))) val
  else remove_keys (fun k => Some (negb (has_suffix k p))) val.

(** dispatch by funcMap key; Select is handled by the evaluator *)
Definition run_func (ft : string) (ps : list rparam) (val : gv) : outcome gv :=
  if String.eqb ft "Equal" then boolv (func_equal ps val)
  else if String.eqb ft "NotEqual" then negate (func_equal ps val)
  else if String.eqb ft "Less" then decimal_bool_func dlt ps val
  else if String.eqb ft "LessOrEqual" then decimal_bool_func dle ps val
  else if String.eqb ft "Greater" then decimal_bool_func dgt ps val
  else if String.eqb ft "GreaterOrEqual" then decimal_bool_func dge ps val
  else if String.eqb ft "Invert" then func_invert val
  else if String.eqb ft "Not" then func_not val
  else if String.eqb ft "Contains" then string_bool_func contains false ps val
  else if String.eqb ft "NotContains" then string_bool_func contains true ps val
  else if String.eqb ft "Prefix" then string_bool_func has_prefix false ps val
  else if String.eqb ft "NotPrefix" then string_bool_func has_prefix true ps val
  else if String.eqb ft "Suffix" then string_bool_func has_suffix false ps val
  else if String.eqb ft "NotSuffix" then string_bool_func has_suffix true ps val
  else if String.eqb ft "Sprintf" then func_sprintf ps val
  else if String.eqb ft "Count" then func_count ps val
  else if String.eqb ft "Any" then func_any ps val
  else if String.eqb ft "First" then func_first ps val
  else if String.eqb ft "Last" then func_last ps val
  else if String.eqb ft "Index" then func_index ps val
  else if String.eqb ft "Sum" then func_decimal_slice AggSum ps val
  else if String.eqb ft "Average" then func_decimal_slice AggAvg ps val
  else if String.eqb ft "Minimum" then func_decimal_slice AggMin ps val
  else if String.eqb ft "Maximum" then func_decimal_slice AggMax ps val
  else if String.eqb ft "AsArray" then Ok (VSlice EAny false [val])
  else if String.eqb ft "Add" then func_decimal AAdd ps val
  else if String.eqb ft "Subtract" then func_decimal ASub ps val
  else if String.eqb ft "Multiply" then func_decimal AMul ps val
  else if String.eqb ft "Divide" then func_decimal ADiv ps val
  else if String.eqb ft "Modulo" then func_decimal AMod ps val
  else if String.eqb ft "AnyOf" then func_any_of ps val
  else if String.eqb ft "TrimRight" then string_part_func STrimRight ps val
  else if String.eqb ft "TrimLeft" then string_part_func STrimLeft ps val
  else if String.eqb ft "Right" then string_part_func SRight ps val
  else if String.eqb ft "Left" then string_part_func SLeft ps val
  else if String.eqb ft "DoesMatchRegex" then func_does_match_regex ps val
  else if String.eqb ft "ReplaceRegex" then func_replace_regex ps val
  else if String.eqb ft "ReplaceAll" then func_replace_all ps val
  else if String.eqb ft "AsJSON" then func_as_json ps val
  else if String.eqb ft "ParseJSON" then string_to_object "JSON" ps val
  else if String.eqb ft "ParseXML" then string_to_object "XML" ps val
  else if String.eqb ft "ParseYAML" then string_to_object "YAML" ps val
  else if String.eqb ft "ParseTOML" then string_to_object "TOML" ps val
  else if String.eqb ft "RemoveKeysByRegex" then func_remove_keys_by "Regex" ps val
  else if String.eqb ft "RemoveKeysByPrefix" then func_remove_keys_by "Prefix" ps val
  else if String.eqb ft "RemoveKeysBySuffix" then func_remove_keys_by "Suffix" ps val
  else if String.eqb ft "IsNull" then boolv (func_is_null ps val)
  else if String.eqb ft "IsNotNull" then negate (func_is_null ps val)
  else if String.eqb ft "IsEmpty" then boolv (func_is_empty ps val)
  else if String.eqb ft "IsNotEmpty" then negate (func_is_empty ps val)
  else if String.eqb ft "IsNullOrEmpty" then boolv (func_is_null_or_empty ps val)
  else if String.eqb ft "IsNotNullOrEmpty" then negate (func_is_null_or_empty ps val)
  else fail "unrecognised function".

End WithEngines.
