(* Lexer.v — text/scanner as mpath configures it (mpath.go:26-57,127-173;
   DESIGN App. A.1), from bytes to the token stream the parser sees.

   After the repair of F9 every scanner error event (invalid UTF-8, NUL,
   unterminated literal or comment, bad char literal, read fault) except
   "invalid char escape" makes the parse fail, and a parse can only succeed after reading the input to
   EOF; so the lexer is modelled as a total function on the whole input that
   yields [None] as soon as one error event occurs. *)
From Mpath.Model Require Import Base.
From Mpath.Generated Require Import Runes.

(** Unicode properties of runes >= 128 are a parameter (DESIGN §3.4). *)
Record uclass := mkUclass { u_print : Z -> bool; u_space : Z -> bool }.

Definition rune_error : Z := 65533.

Definition is_cont (c : ascii) : bool := (128 <=? byte c) && (byte c <=? 191).
Definition in_rng (lo hi : Z) (c : ascii) : bool := (lo <=? byte c) && (byte c <=? hi).

(** utf8.DecodeRune on a non-empty prefix: (rune, width, bytes). *)
Definition decode_rune (s : str) : Z * nat :=
  match s with
  | [] => (rune_error, O)
  | b0 :: r =>
    let x0 := byte b0 in
    if x0 <? 128 then (x0, 1%nat)
    else if in_rng 194 223 b0 then
      match r with
      | b1 :: _ => if is_cont b1 then ((x0 - 192) * 64 + (byte b1 - 128), 2%nat) else (rune_error, 1%nat)
      | _ => (rune_error, 1%nat)
      end
    else if in_rng 224 239 b0 then
      match r with
      | b1 :: b2 :: _ =>
        let lo := if x0 =? 224 then 160 else 128 in
        let hi := if x0 =? 237 then 159 else 191 in
        if in_rng lo hi b1 && is_cont b2
        then ((x0 - 224) * 4096 + (byte b1 - 128) * 64 + (byte b2 - 128), 3%nat)
        else (rune_error, 1%nat)
      | _ => (rune_error, 1%nat)
      end
    else if in_rng 240 244 b0 then
      match r with
      | b1 :: b2 :: b3 :: _ =>
        let lo := if x0 =? 240 then 144 else 128 in
        let hi := if x0 =? 244 then 143 else 191 in
        if in_rng lo hi b1 && is_cont b2 && is_cont b3
        then ((x0 - 240) * 262144 + (byte b1 - 128) * 4096 + (byte b2 - 128) * 64 + (byte b3 - 128), 4%nat)
        else (rune_error, 1%nat)
      | _ => (rune_error, 1%nat)
      end
    else (rune_error, 1%nat)
  end.

(** The character stream: runes with their bytes.  None = an error event
    ("invalid UTF-8 encoding" or "invalid character NUL"). *)
Fixpoint chars_fuel (fuel : nat) (s : str) : option (list (Z * str)) :=
  match fuel with
  | O => Some []
  | S k =>
    match s with
    | [] => Some []
    | _ =>
      let '(r, w) := decode_rune s in
      if (r =? rune_error) && (w =? 1)%nat then None
      else if r =? 0 then None
      else match chars_fuel k (skipn w s) with
           | Some cs => Some ((r, firstn w s) :: cs)
           | None => None
           end
    end
  end.

Definition bom : Z := 65279.

Definition chars (s : str) : option (list (Z * str)) :=
  match chars_fuel (S (length s)) s with
  | Some ((r, _) :: cs) => if r =? bom then Some cs else chars_fuel (S (length s)) s
  | o => o
  end.

Inductive tkind := TIdent | TString | TChar | TCh (c : Z).
Record token := mkTok { tk : tkind; ttext : str; tnext : Z }.   (* tnext: sx.Peek() after the token, -1 at EOF *)

Section Lex.
Variable uni : uclass.

Definition is_print (c : Z) : bool :=
  if c <? 128 then (32 <=? c) && (c <=? 126) else u_print uni c.
Definition is_space (c : Z) : bool :=
  if c <? 128 then ((9 <=? c) && (c <=? 13)) || (c =? 32) else u_space uni c.

Fixpoint zmem (z : Z) (l : list Z) : bool :=
  match l with [] => false | x :: l' => (z =? x) || zmem z l' end.

(** s.sx.IsIdentRune as installed by the scanner pool *)
Definition is_ident_rune (c : Z) : bool :=
  if zmem c invalid_runes || is_space c then false else is_print c.

Definition is_ws (c : Z) : bool := (c =? 9) || (c =? 10) || (c =? 13) || (c =? 32).

Definition peek (cs : list (Z * str)) : Z := match cs with [] => -1 | (c, _) :: _ => c end.

Fixpoint span_ident (cs : list (Z * str)) : str * list (Z * str) :=
  match cs with
  | (c, b) :: cs' => if is_ident_rune c then let (t, r) := span_ident cs' in (b ++ t, r) else ([], cs)
  | [] => ([], [])
  end.

Definition digit_val (c : Z) : Z :=
  if (48 <=? c) && (c <=? 57) then c - 48
  else if (97 <=? c) && (c <=? 102) then c - 97 + 10
  else if (65 <=? c) && (c <=? 70) then c - 65 + 10
  else 16.

(** scanDigits: up to n digits of the base are consumed; fewer than n is an
    "invalid char escape" event, which mpath ignores (the characters stay in
    the token as written) *)
Fixpoint scan_digits (n : nat) (base : Z) (cs : list (Z * str)) (acc : str) : str * list (Z * str) :=
  match n with
  | O => (acc, cs)
  | S n' =>
    match cs with
    | (c, b) :: cs' => if digit_val c <? base then scan_digits n' base cs' (acc ++ b) else (acc, cs)
    | [] => (acc, cs)
    end
  end.

(** scanString after the opening quote: (text consumed including the closing
    quote, number of characters, rest) *)
Fixpoint scan_string (fuel : nat) (quote : Z) (cs : list (Z * str)) (acc : str) (n : nat)
  : option (str * nat * list (Z * str)) :=
  match fuel with
  | O => None
  | S k =>
    match cs with
    | [] => None                                   (* literal not terminated *)
    | (c, b) :: cs' =>
      if c =? quote then Some (acc ++ b, n, cs')
      else if c =? 10 then None                    (* literal not terminated *)
      else if c =? 92 then                         (* backslash: scanEscape *)
        match cs' with
        | [] => None
        | (e, eb) :: cs'' =>
          if zmem e [97; 98; 102; 110; 114; 116; 118; 92] || (e =? quote)
          then scan_string k quote cs'' (acc ++ b ++ eb) (S n)
          else if (48 <=? e) && (e <=? 55) then
            let (acc', r) := scan_digits 3 8 cs' (acc ++ b) in scan_string k quote r acc' (S n)
          else if e =? 120 then
            let (acc', r) := scan_digits 2 16 cs'' (acc ++ b ++ eb) in scan_string k quote r acc' (S n)
          else if e =? 117 then
            let (acc', r) := scan_digits 4 16 cs'' (acc ++ b ++ eb) in scan_string k quote r acc' (S n)
          else if e =? 85 then
            let (acc', r) := scan_digits 8 16 cs'' (acc ++ b ++ eb) in scan_string k quote r acc' (S n)
          else scan_string k quote cs' (acc ++ b) (S n)   (* unknown escape: ignored event, the character is scanned next *)
        end
      else scan_string k quote cs' (acc ++ b) (S n)
    end
  end.

Fixpoint skip_line (cs : list (Z * str)) : list (Z * str) :=
  match cs with
  | (c, _) :: cs' => if c =? 10 then cs else skip_line cs'
  | [] => []
  end.

(** after "/*": up to and including "*/"; None = comment not terminated *)
Fixpoint skip_block (cs : list (Z * str)) : option (list (Z * str)) :=
  match cs with
  | (c, _) :: cs' =>
    match cs' with
    | (d, _) :: cs'' => if (c =? 42) && (d =? 47) then Some cs'' else skip_block cs'
    | [] => None
    end
  | [] => None
  end.

(** Scanner.Scan, repeated to EOF *)
Fixpoint tokens_fuel (fuel : nat) (cs : list (Z * str)) : option (list token) :=
  match fuel with
  | O => None
  | S k =>
    match cs with
    | [] => Some []
    | (c, b) :: cs' =>
      if is_ws c then tokens_fuel k cs'
      else if is_ident_rune c then
        let (t, r) := span_ident cs in
        option_map (cons (mkTok TIdent t (peek r))) (tokens_fuel k r)
      else if c =? 34 then
        match scan_string (S (length cs')) 34 cs' b O with
        | Some (t, _, r) => option_map (cons (mkTok TString t (peek r))) (tokens_fuel k r)
        | None => None
        end
      else if c =? 39 then
        match scan_string (S (length cs')) 39 cs' b O with
        | Some (t, n, r) =>
          if (n =? 1)%nat then option_map (cons (mkTok TChar t (peek r))) (tokens_fuel k r)
          else None                                (* invalid char literal *)
        | None => None
        end
      else if (c =? 47) && (peek cs' =? 47) then tokens_fuel k (skip_line (tl cs'))
      else if (c =? 47) && (peek cs' =? 42) then
        match skip_block (tl cs') with
        | Some r => tokens_fuel k r
        | None => None
        end
      else option_map (cons (mkTok (TCh c) b (peek cs'))) (tokens_fuel k cs')
    end
  end.

(** The mpath Scan wrapper drops character tokens that are not printable. *)
Definition visible (t : token) : bool :=
  match tk t with TCh c => is_print c | _ => true end.

Definition lex (s : str) : option (list token) :=
  match chars s with
  | None => None
  | Some cs => option_map (filter visible) (tokens_fuel (S (length cs)) cs)
  end.

End Lex.

(** The classifier used when the input is ASCII or when nothing is known:
    no rune above 127 is printable or a space. *)
Definition uni_ascii : uclass := mkUclass (fun _ => false) (fun _ => false).
