(* Wire.v — the exchange format between the Go harness and the model, and the
   case runner.  Everything the OCaml driver does beyond reading and printing
   lines is defined here, so the same definitions run under vm_compute for the
   in-Coq cross-check (DESIGN §2.3b). *)
From Mpath.Model Require Import Base Dec Types GoVal Ast Lexer Parser Printer Funcs Eval.

(** * S-expressions *)
Inductive sexp := SA (a : str) | SL (l : list sexp).

Inductive stok := SLp | SRp | SAtom (a : str).

Definition is_sep (c : ascii) : bool := Ascii.eqb c " "%char.

Fixpoint stokens (s : str) (cur : str) : list stok :=
  let flush := match cur with [] => [] | _ => [SAtom (rev cur)] end in
  match s with
  | [] => flush
  | c :: s' =>
    if Ascii.eqb c "("%char then flush ++ SLp :: stokens s' []
    else if Ascii.eqb c ")"%char then flush ++ SRp :: stokens s' []
    else if is_sep c then flush ++ stokens s' []
    else stokens s' (c :: cur)
  end.

Fixpoint sparse (ts : list stok) (stack : list (list sexp)) : option sexp :=
  match ts with
  | [] => match stack with [[x]] => Some x | _ => None end
  | SLp :: ts' => sparse ts' ([] :: stack)
  | SRp :: ts' =>
    match stack with
    | top :: next :: stack' => sparse ts' ((SL (rev top) :: next) :: stack')
    | _ => None
    end
  | SAtom a :: ts' =>
    match stack with
    | top :: stack' => sparse ts' ((SA a :: top) :: stack')
    | [] => None
    end
  end.

Definition sexp_of_str (s : str) : option sexp := sparse (stokens s []) [[]].

(** * Atoms *)
Definition hex_val (c : ascii) : option Z :=
  let x := byte c in
  if (48 <=? x) && (x <=? 57) then Some (x - 48)
  else if (97 <=? x) && (x <=? 102) then Some (x - 87)
  else None.

Fixpoint unhex (s : str) : option str :=
  match s with
  | [] => Some []
  | a :: b :: s' =>
    match hex_val a, hex_val b, unhex s' with
    | Some x, Some y, Some r => Some (chr (x * 16 + y) :: r)
    | _, _, _ => None
    end
  | _ => None
  end.

Definition hex_digit (z : Z) : ascii := if z <? 10 then chr (48 + z) else chr (87 + z).
Definition hex (s : str) : str :=
  flat_map (fun c => [hex_digit (byte c / 16); hex_digit (byte c mod 16)]) s.

(** hex atoms carry a leading "x" so that the empty string is an atom too *)
Definition atom_hex (a : str) : option str :=
  match a with c :: r => if Ascii.eqb c "x"%char then unhex r else None | [] => None end.
Definition show_hex (s : str) : str := "x"%char :: hex s.

Definition atom_bool (a : str) : option bool :=
  if str_eqb a (bs "1") then Some true else if str_eqb a (bs "0") then Some false else None.
Definition show_bool (b : bool) : str := if b then bs "1" else bs "0".

Definition atom_is (a : str) (s : string) : bool := str_eqb a (bs s).

Definition nkind_names : list (string * nkind) :=
  [("int", KInt); ("int8", KInt8); ("int16", KInt16); ("int32", KInt32); ("int64", KInt64);
   ("uint", KUint); ("uint8", KUint8); ("uint16", KUint16); ("uint32", KUint32); ("uint64", KUint64)].
Definition ety_names : list (string * ety) :=
  [("any", EAny); ("dec", EDec); ("str", EStr); ("bool", EBool); ("f64", EFloat64); ("int", EInt); ("other", ETOther)].
Definition kty_names : list (string * kty) :=
  [("str", KtStr); ("nstr", KtNamedStr); ("any", KtAny); ("other", KtOther)].

Fixpoint lookup_name {A} (a : str) (l : list (string * A)) : option A :=
  match l with [] => None | (n, x) :: l' => if atom_is a n then Some x else lookup_name a l' end.

Definition nkind_eqb (a b : nkind) : bool :=
  match a, b with
  | KInt, KInt | KInt8, KInt8 | KInt16, KInt16 | KInt32, KInt32 | KInt64, KInt64
  | KUint, KUint | KUint8, KUint8 | KUint16, KUint16 | KUint32, KUint32 | KUint64, KUint64 => true
  | _, _ => false
  end.
Definition kty_eqb (a b : kty) : bool :=
  match a, b with KtStr, KtStr | KtNamedStr, KtNamedStr | KtAny, KtAny | KtOther, KtOther => true | _, _ => false end.

Fixpoint name_of {A} (eqb : A -> A -> bool) (x : A) (l : list (string * A)) : str :=
  match l with [] => bs "?" | (n, y) :: l' => if eqb x y then bs n else name_of eqb x l' end.

Definition opt_bind {A B} (o : option A) (f : A -> option B) : option B :=
  match o with Some a => f a | None => None end.
Notation "'opt' x <- o ; k" := (opt_bind o (fun x => k)) (at level 200, x pattern, o at level 100, k at level 200).

Fixpoint opt_map_all {A B} (f : A -> option B) (l : list A) : option (list B) :=
  match l with
  | [] => Some []
  | x :: l' => opt y <- f x; opt ys <- opt_map_all f l'; Some (y :: ys)
  end.

Definition dec_of_atoms (c e : str) : option dec :=
  opt cz <- parse_int c; opt ez <- parse_int e; Some (mkDec cz ez).

(** * gv <-> sexp *)
Fixpoint gv_of_sexp (fuel : nat) (x : sexp) : option gv :=
  match fuel with
  | O => None
  | S k =>
    match x with
    | SA a => if atom_is a "nil" then Some VNil else None
    | SL (SA tag :: args) =>
      if atom_is tag "b" then
        match args with [SA n; SA b] => opt n' <- atom_bool n; opt b' <- atom_bool b; Some (VBool n' b') | _ => None end
      else if atom_is tag "i" then
        match args with
        | [SA kd; SA n; SA z] => opt k' <- lookup_name kd nkind_names; opt n' <- atom_bool n; opt z' <- parse_int z; Some (VInt k' n' z')
        | _ => None
        end
      else if atom_is tag "f" then
        match args with
        | [SA w; SA n; v] =>
          opt w' <- atom_bool w; opt n' <- atom_bool n;
          opt f <- match v with
                   | SA a => if atom_is a "nan" then Some FNaN else if atom_is a "+inf" then Some (FInf false)
                             else if atom_is a "-inf" then Some (FInf true) else None
                   | SL [SA c; SA e] => option_map FFin (dec_of_atoms c e)
                   | _ => None
                   end;
          Some (VFloat w' n' f)
        | _ => None
        end
      else if atom_is tag "s" then
        match args with [SA n; SA h] => opt n' <- atom_bool n; opt s <- atom_hex h; Some (VStr n' s) | _ => None end
      else if atom_is tag "d" then
        match args with [SA c; SA e] => option_map VDec (dec_of_atoms c e) | _ => None end
      else if atom_is tag "p" then
        match args with
        | [SA a] => if atom_is a "nil" then Some (VPtr None) else None
        | [SL [SA a; v]] => if atom_is a "to" then option_map (fun g => VPtr (Some g)) (gv_of_sexp k v) else None
        | _ => None
        end
      else if atom_is tag "sl" then
        match args with
        | SA t :: SA n :: xs => opt t' <- lookup_name t ety_names; opt n' <- atom_bool n;
                                opt xs' <- opt_map_all (gv_of_sexp k) xs; Some (VSlice t' n' xs')
        | _ => None
        end
      else if atom_is tag "ar" then
        match args with
        | SA t :: xs => opt t' <- lookup_name t ety_names; opt xs' <- opt_map_all (gv_of_sexp k) xs; Some (VArray t' xs')
        | _ => None
        end
      else if atom_is tag "m" then
        match args with
        | SA kt :: SA vt :: SA n :: kvs =>
          opt kt' <- lookup_name kt kty_names; opt vt' <- lookup_name vt ety_names; opt n' <- atom_bool n;
          opt kvs' <- opt_map_all (fun kv => match kv with
                                             | SL [kx; vx] => opt kg <- gv_of_sexp k kx; opt vg <- gv_of_sexp k vx; Some (kg, vg)
                                             | _ => None
                                             end) kvs;
          Some (VMap kt' vt' n' kvs')
        | _ => None
        end
      else if atom_is tag "st" then
        opt fs <- opt_map_all (fun f => match f with
                                        | SL [SA nm; SA ex; SA ifc; v] =>
                                          opt nm' <- atom_hex nm; opt ex' <- atom_bool ex; opt ifc' <- atom_bool ifc;
                                          opt g <- gv_of_sexp k v; Some (nm', ex', ifc', g)
                                        | _ => None
                                        end) args;
        Some (VStruct fs)
      else if atom_is tag "fn" then
        match args with [SA n] => option_map VFunc (atom_bool n) | _ => None end
      else if atom_is tag "ch" then
        match args with [SA n] => option_map VChan (atom_bool n) | _ => None end
      else None
    | _ => None
    end
  end.

Definition sp : str := bs " ".
Definition paren (items : list str) : str := bs "(" ++ concat_str sp items ++ bs ")".

Definition show_dec_atoms (d : dec) : list str := [show_Z (coef d); show_Z (dexp d)].

Fixpoint show_gv (g : gv) : str :=
  match g with
  | VNil => bs "nil"
  | VBool n b => paren [bs "b"; show_bool n; show_bool b]
  | VInt k n z => paren [bs "i"; name_of nkind_eqb k nkind_names; show_bool n; show_Z z]
  | VFloat w n f => paren [bs "f"; show_bool w; show_bool n;
                           match f with FNaN => bs "nan" | FInf false => bs "+inf" | FInf true => bs "-inf"
                                      | FFin d => paren (show_dec_atoms d) end]
  | VStr n s => paren [bs "s"; show_bool n; show_hex s]
  | VDec d => paren (bs "d" :: show_dec_atoms d)
  | VPtr None => paren [bs "p"; bs "nil"]
  | VPtr (Some t) => paren [bs "p"; paren [bs "to"; show_gv t]]
  | VSlice t n xs => paren (bs "sl" :: name_of ety_eqb t ety_names :: show_bool n :: map show_gv xs)
  | VArray t xs => paren (bs "ar" :: name_of ety_eqb t ety_names :: map show_gv xs)
  | VMap kt vt n kvs => paren (bs "m" :: name_of kty_eqb kt kty_names :: name_of ety_eqb vt ety_names :: show_bool n ::
                               map (fun '(k, v) => paren [show_gv k; show_gv v]) kvs)
  | VStruct fs => paren (bs "st" :: map (fun '(nm, ex, ifc, v) => paren [show_hex nm; show_bool ex; show_bool ifc; show_gv v]) fs)
  | VFunc n => paren [bs "fn"; show_bool n]
  | VChan n => paren [bs "ch"; show_bool n]
  end.

Definition show_outcome {A} (sh : A -> str) (o : outcome A) : str :=
  match o with
  | Ok a => bs "ok " ++ sh a
  | Err EKeyNotFound => bs "err knf"
  | Err (EOther _) => bs "err other"
  | Panic _ => bs "panic"
  | OutOfFuel => bs "fuel"
  | Declined w => bs "declined " ++ bs w
  end.

(** * Per-case parameters: Unicode classes and engine oracles *)
Fixpoint sexp_size (x : sexp) : nat :=
  match x with
  | SA _ => 1
  | SL l => S ((fix go (l : list sexp) := match l with [] => O | y :: l' => (sexp_size y + go l')%nat end) l)
  end.

(** the table is a list of pairs: rune, then p (printable), s (space) or o (other) *)
Definition uni_of_sexp (x : sexp) : uclass :=
  let tbl := match x with
             | SL l => filter_map (fun e => match e with
                                            | SL [SA r; SA c] => opt rz <- parse_int r; Some (rz, c)
                                            | _ => None
                                            end) l
             | _ => []
             end in
  let cls := fun (r : Z) => match find_first (fun '(x, _) => x =? r) tbl with Some (_, c) => c | None => bs "o" end in
  mkUclass (fun r => atom_is (cls r) "p") (fun r => atom_is (cls r) "s").

(** oracle entries: [re pattern subject bad/0/1], [rr pattern subject template bad/xHEX],
    [js gv bad/xHEX], [de fmt text bad/gv], [sf format [gv ...] xHEX] *)
Definition eng_of_sexp (x : sexp) : engines :=
  let entries := match x with SL l => l | _ => [] end in
  let hexeq := fun (a : sexp) (s : str) => match a with SA h => match atom_hex h with Some t => str_eqb t s | None => false end | _ => false end in
  mkEngines
    (fun p s => match find_first (fun e => match e with SL [SA t; a; b; _] => atom_is t "re" && hexeq a p && hexeq b s | _ => false end) entries with
                | Some (SL [_; _; _; SA r]) => if atom_is r "bad" then Some None else option_map Some (atom_bool r)
                | _ => None
                end)
    (fun p s tpl => match find_first (fun e => match e with SL [SA t; a; b; c; _] => atom_is t "rr" && hexeq a p && hexeq b s && hexeq c tpl | _ => false end) entries with
                    | Some (SL [_; _; _; _; SA r]) => if atom_is r "bad" then Some None else option_map Some (atom_hex r)
                    | _ => None
                    end)
    (fun g => match find_first (fun e => match e with SL [SA t; a; _] => atom_is t "js" && match gv_of_sexp (sexp_size a) a with Some g' => str_eqb (show_gv g') (show_gv g) | None => false end | _ => false end) entries with
              | Some (SL [_; _; SA r]) => if atom_is r "bad" then Some None else option_map Some (atom_hex r)
              | _ => None
              end)
    (fun fmt s => match find_first (fun e => match e with SL [SA t; SA f; b; _] => atom_is t "de" && atom_is f fmt && hexeq b s | _ => false end) entries with
                  | Some (SL [_; _; _; r]) =>
                    match r with
                    | SA a => if atom_is a "bad" then Some None else option_map Some (gv_of_sexp 1 r)
                    | _ => option_map Some (gv_of_sexp (sexp_size r) r)
                    end
                  | _ => None
                  end)
    (fun f args => match find_first (fun e => match e with SL [SA t; a; SL gs; _] => atom_is t "sf" && hexeq a f && str_eqb (concat_str sp (map (fun g => match gv_of_sexp (sexp_size g) g with Some g' => show_gv g' | None => bs "?" end) gs)) (concat_str sp (map show_gv args)) | _ => false end) entries with
                   | Some (SL [_; _; _; SA r]) => atom_hex r
                   | _ => None
                   end).

(** * Case lines: fields separated by TAB *)
Fixpoint split_tab (s : str) (cur : str) : list str :=
  match s with
  | [] => [rev cur]
  | c :: s' => if Ascii.eqb c (chr 9) then rev cur :: split_tab s' [] else split_tab s' (c :: cur)
  end.

Definition bad_case : str := bs "badcase".

Definition with_env (unis engs : str) (k : uclass -> engines -> str) : str :=
  match sexp_of_str unis, sexp_of_str engs with
  | Some u, Some e => k (uni_of_sexp u) (eng_of_sexp e)
  | _, _ => bad_case
  end.

(** eval <TAB> query-hex <TAB> data <TAB> uni <TAB> oracles
    → "ok <gv>" | "err knf" | "err other" | "panic" | "fuel" | "declined …" | "parse-err" *)
Definition run_eval (q data unis engs : str) : str :=
  with_env unis engs (fun uni eng =>
    match atom_hex q, opt_bind (sexp_of_str data) (fun x => gv_of_sexp (sexp_size x) x) with
    | Some qs, Some g =>
      match parse_string uni qs with
      | Ok t => show_outcome show_gv (do_top uni eng t g)
      | Declined w => bs "declined " ++ bs w
      | OutOfFuel => bs "fuel"
      | _ => bs "parse-err"
      end
    | _, _ => bad_case
    end).

Definition run_case (line : str) : str :=
  match split_tab line [] with
  | kind :: fields =>
    if atom_is kind "eval" then
      match fields with [q; data; unis; engs] => run_eval q data unis engs | _ => bad_case end
    else bad_case
  | [] => bad_case
  end.
