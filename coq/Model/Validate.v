(* Validate.v — executable model of CueValidate (cue.go) and of the Validate
   methods of opPath, opPathIdent, opFunction, opFilter and opLogicalOperation.
   Definitions only.

   Modelled: the verdict.  Which error is recorded on which node (as an error
   class instead of the message text), what HasErrors() and GetErrors() compute
   from that, the `err` CueValidate returns, and the reported return type.
   Not modelled: the `Available` suggestion lists, ids, cueExpr texts, the
   String / PrettyPrintedString fields, function explanations.

   An error message is a list of error classes: `a + "; " + b` is [a ++ b].
   A node's `Error *string` is an [option (list eclass)], [None] = nil. *)
From Mpath.Model Require Import Base Dec Types Ast Parser Cue Blocked.
From Mpath.Generated Require Import FuncTable BasePaths.

Inductive eclass :=
| EUndeclared          (* "couldn't access field '…'" (findValueAtPath) *)
| EIntoPrimitive       (* "cannot address into primitive value" *)
| EAcrossList          (* "cannot address into array value" *)
| ENotAvailable        (* "field … is not available" (blocked root field) *)
| EUnknownFunction     (* "unknown function" *)
| EInvalidOp           (* "invalid operation type '…'" (function name / group keyword not recognised by the parser) *)
| ETooManyParams       (* "no parameter at position …" *)
| EWrongReceiverType   (* "cannot use this function on type …; can use on …" *)
| EParamType           (* "incorrect parameter type: …" *)
| ENotList             (* "not a list (was …); only lists can be filtered" *)
| EFilterOnFunction    (* "tried to apply filter against *mpath.Function" *)
| EFilterNoPart        (* "tried to apply filter against wrong type" *)
| EFuncNotHere         (* "functions cannot be called here" *)
| ENotBoolean          (* "paths that are part of a logical operation must end in a boolean function that returns a single value" *)
| ENoParts             (* "no parts returned for path" *)
| EOtherErr.           (* "unable to find field…", "failed to list available fields…", … *)

Definition emsg := list eclass.
Definition merr := option emsg.

(** HasError.SetError *)
Definition set_error (e : merr) (msg : emsg) : merr :=
  match e with Some old => Some (old ++ msg) | None => Some msg end.

Definition is_some {A} (o : option A) : bool := match o with Some _ => true | None => false end.
(** `if x.Error != nil && *x.Error != "" { append }` *)
Definition merr_msgs (e : merr) : emsg := match e with Some m => m | None => [] end.

(** InputOrOutput: [None] is the zero value (Type "" and IOType "") *)
Definition vty := option ioty.

Definition vty_io_is (t : vty) (io : iotype) : bool :=
  match t with Some (_, i) => iotype_eqb i io | None => false end.
Definition vty_ty_is (t : vty) (p : ptype) : bool :=
  match t with Some (q, _) => ptype_eqb q p | None => false end.

(** PT_ParameterType.IsPrimitive *)
Definition is_primitive (p : ptype) : bool :=
  match p with PT_String | PT_Boolean | PT_Number => true | _ => false end.
Definition vty_single_primitive (t : vty) : bool :=
  match t with Some (p, IO_Single) => is_primitive p | _ => false end.

(** * Parts (CanBeAPart): what HasErrors / GetErrors / ReturnType read *)
Inductive pkind := KRoot | KIdent | KFunc.

Record part := mkPart {
  pt_kind : pkind;
  pt_error : merr;          (* the part's own Error *)
  pt_sub_has : bool;        (* Function: some parameter has an error or an erroneous Part *)
  pt_sub_errs : emsg;       (* Function: what the parameters add to GetErrors() *)
  pt_type : vty             (* ReturnType() *)
}.

Definition part_has (p : part) : bool := is_some (pt_error p) || pt_sub_has p.
Definition part_errs (p : part) : emsg := merr_msgs (pt_error p) ++ pt_sub_errs p.

Definition error_part (k : pkind) (c : eclass) : part := mkPart k (Some [c]) false [] None.

(** *Path *)
Record pathres := mkPathres {
  pr_error : merr;
  pr_parts : list part;
  pr_type : vty             (* path.Type: set from the last part after the loop only *)
}.

Definition path_has (r : pathres) : bool := is_some (pr_error r) || existsb part_has (pr_parts r).
Definition path_errs (r : pathres) : emsg := merr_msgs (pr_error r) ++ flat_map part_errs (pr_parts r).
Definition last_part_type (r : pathres) : option vty :=
  match rev (pr_parts r) with p :: _ => Some (pt_type p) | [] => None end.

(** *LogicalOperation: the operands' (HasErrors, GetErrors) *)
Record logres := mkLogres {
  lr_error : merr;
  lr_parts : list (bool * emsg)
}.

Definition log_has (r : logres) : bool := is_some (lr_error r) || existsb fst (lr_parts r).
Definition log_errs (r : logres) : emsg :=
  merr_msgs (lr_error r) ++ flat_map (fun p : bool * emsg => if fst p then snd p else []) (lr_parts r).

(** * opPathIdent.Validate: the kind switch *)
Definition ptype_of_kind (k : ckind) : ptype :=
  match k with
  | KBool => PT_Boolean
  | KString | KBytes => PT_String
  | KNumber | KInt | KFloat => PT_Number
  | KStruct => PT_Object
  | _ => PT_Any          (* KTop; KList and KBottom are handled before *)
  end.

Definition ident_type (v : cty) : merr * vty :=
  match incomplete_kind v with
  | KList =>
    match underlying_kind v with
    | KList => (None, Some (PT_Any, IO_Single))            (* a list of lists *)
    | KBottom => (Some [EOtherErr], None)                  (* `[]`: "unable to find field" *)
    | k => (None, Some (ptype_of_kind k, IO_Array))
    end
  | k => (None, Some (ptype_of_kind k, IO_Single))
  end.

Definition validate_ident (root : cty) (cue_path : list str) : merr * vty :=
  match find_value_at_path root cue_path with
  | None => (Some [EUndeclared], None)
  | Some v => ident_type v
  end.

(** * opFunction.Validate: the pieces that do not recurse *)

(** the two receiver tests, in order; the first overwrites part.Error, the second appends *)
Definition receiver_type_mismatch (on : ioty) (prev : vty) : bool :=
  negb (iotype_eqb (snd on) IO_Variadic) && negb (ptype_eqb (fst on) PT_Any) && negb (vty_ty_is prev (fst on)).
Definition receiver_io_mismatch (on : ioty) (prev : vty) : bool :=
  negb (ptype_eqb (fst on) PT_Any) && negb (vty_io_is prev (snd on)).

Definition receiver_error (e0 : merr) (on : ioty) (prev : vty) : merr :=
  let e1 := if receiver_type_mismatch on prev then Some [EWrongReceiverType] else e0 in
  if receiver_io_mismatch on prev then set_error e1 [EWrongReceiverType] else e1.

(** the refinement of a return type (PT_Any, Single) — a function that returns one
    element of its input: First, Last, Index — by the underlying kind of the
    receiver's schema value; every other return type is reported as it is *)
Definition refine_return (ret : ioty) (k : ckind) (prev : vty) : ioty :=
  match ret with
  | (PT_Any, IO_Single) =>
    let elem := match k with
                | KBool => Some PT_Boolean
                | KString => Some PT_String
                | KNumber | KInt | KFloat => Some PT_Number
                | KStruct => Some PT_Object
                | _ => None                      (* list: Any; bytes, `_`, bottom: untouched *)
                end in
    (* the schema value at the path is the function's input only while no other function has been
       applied to it (repair of finding F31): the element type is reported only when it is the
       type of the receiver as the previous part reported it *)
    match elem, prev with
    | Some t, Some (pt, _) => if ptype_eqb pt t then (t, IO_Single) else ret
    | _, _ => ret
    end
  | _ => ret
  end.

(** the check of one argument type against the parameter descriptor at [pos];
    [variadic] is the position at which a variadic parameter was first met *)
Definition check_param (params : list ioty) (i : nat) (variadic : option nat) (pret : vty)
  : merr * option nat :=
  let pos := match variadic with Some vp => vp | None => i end in
  match nth_error params pos with
  | None => (Some [ETooManyParams], variadic)
  | Some pd =>
    let variadic' := match variadic with
                     | None => if iotype_eqb (snd pd) IO_Variadic then Some i else None
                     | Some _ => variadic
                     end in
    match snd pd with
    | IO_Single => (if vty_io_is pret IO_Single then None else Some [EParamType], variadic')
    | IO_Array => (if vty_io_is pret IO_Array then None else Some [EParamType], variadic')
    | IO_Variadic =>
      (if negb (ptype_eqb (fst pd) PT_Any) && negb (vty_ty_is pret (fst pd)) then Some [EParamType] else None,
       variadic')
    end
  end.

(** what one FunctionParameter contributes to the Function's HasErrors / GetErrors *)
Record paramres := mkParamres {
  pa_error : merr;
  pa_part : option (bool * emsg)      (* param.Part: HasErrors(), GetErrors() *)
}.

Definition param_has (p : paramres) : bool :=
  is_some (pa_error p) || match pa_part p with Some (h, _) => h | None => false end.
Definition param_errs (p : paramres) : emsg :=
  merr_msgs (pa_error p) ++ match pa_part p with Some (true, m) => m | _ => [] end.

(** * opPath.Validate: loop state *)
Record pstate := mkPstate {
  st_error : merr;                     (* path.Error *)
  st_parts : list part;                (* path.Parts *)
  st_part : option part;               (* the variable `part`: nil, a *PathIdent or a *Function *)
  st_ret : vty;                        (* returnedType *)
  st_cue : list str;                   (* cuePath *)
  st_should_err : bool;                (* shouldErrorRemaining *)
  st_found_first : bool;               (* foundFirstIdent *)
  st_prev_unknown : bool               (* previousWasFuncWithoutKnownReturn *)
}.

Inductive flow := Continue (s : pstate) | Return (s : pstate).

Definition add_part (s : pstate) (p : part) : list part := st_parts s ++ [p].

(** replace the last part (the *Function `part` points to) *)
Definition set_last_part (ps : list part) (p : part) : list part :=
  match rev ps with
  | _ :: r => rev r ++ [p]
  | [] => []
  end.

Section Validate.
Variable tbl : list fdesc.
Variable root : cty.
Variable blocked : list str.

(** case *opPathIdent of the loop *)
Definition step_ident (s : pstate) (name : str) : flow :=
  if st_should_err s then Continue s       (* a fresh error part is assigned to `part` but never appended nor read *)
  else if st_prev_unknown s then Continue s
  else if vty_single_primitive (st_ret s) then
    Continue (mkPstate (st_error s) (add_part s (error_part KIdent EIntoPrimitive)) (st_part s) (st_ret s) (st_cue s)
                       true (st_found_first s) (st_prev_unknown s))
  else if vty_io_is (st_ret s) IO_Array then
    Continue (mkPstate (st_error s) (add_part s (error_part KIdent EAcrossList)) (st_part s) (st_ret s) (st_cue s)
                       true (st_found_first s) (st_prev_unknown s))
  else if negb (st_found_first s) && str_mem name blocked then
    Return (mkPstate (st_error s) (add_part s (error_part KIdent ENotAvailable)) (st_part s) (st_ret s) (st_cue s)
                     false true (st_prev_unknown s))
  else
    let cue' := st_cue s ++ [name] in
    let '(e, ty) := validate_ident root cue' in
    let p := mkPart KIdent e false [] ty in          (* the PathIdent's Type is set to returnedType *)
    let s' := mkPstate (st_error s) (add_part s p) (Some p) ty cue' false true (st_prev_unknown s) in
    if part_has p then Return s' else Continue s'.

(** opFilter.Validate: the filter's Error, given the Error of its logical
    operation validated at the same cuePath *)
Definition filter_error (cue_path : list str) (log_error : merr) : merr :=
  match find_value_at_path root cue_path with
  | None => Some [EUndeclared]
  | Some v =>
    match incomplete_kind v with
    | KList => log_error
    | _ => Some [ENotList]
    end
  end.

(** The Validate methods of opPath, opFunction and opLogicalOperation (opFilter's
    is [filter_error] applied to the group's result).  [cue_path] is the cuePath
    argument. *)
Fixpoint validate_path (p : path) (cue_path : list str) {struct p} : pathres :=
  match p with
  | Path _ start_root _ _ ops _ =>
    let start := match cue_path with
                 | [] => Some root
                 | _ :: _ => if start_root then Some root else find_value_at_path root cue_path
                 end in
    match start with
    | None => mkPathres (Some [EUndeclared]) [] None              (* errFunc on a nil path *)
    | Some v =>
      let root_part := mkPart KRoot None false [] (Some (if start_root then PT_Root else PT_ElementRoot, IO_Single)) in
      match available_fields v blocked with
      | None => mkPathres (Some [EOtherErr]) [root_part] None
      | Some _ =>
        let s0 := mkPstate None [root_part] None None (if start_root then [] else cue_path) false false false in
        let finish := fun (s : pstate) (returned : bool) =>
          mkPathres (st_error s) (st_parts s)
                    (if returned then None
                     else match rev (st_parts s) with q :: _ => pt_type q | [] => None end) in
        (fix loop (ops : list pathop) (s : pstate) {struct ops} : pathres :=
           match ops with
           | [] => finish s false
           | o :: rest =>
             let fl :=
               match o with
               | PIdent name _ _ => step_ident s name
               | PFilter l _ =>
                 if st_should_err s then Continue s else
                 match st_part s with
                 | None => Return (mkPstate (Some [EFilterNoPart]) (st_parts s) (st_part s) (st_ret s) (st_cue s)
                                            (st_should_err s) (st_found_first s) (st_prev_unknown s))
                 | Some pt =>
                   match pt_kind pt with
                   | KIdent =>
                     (* opFilter.Validate does not advance the value *)
                     match filter_error (st_cue s) (lr_error (validate_log l (st_cue s))) with
                     | Some e => Return (mkPstate (Some e) (st_parts s) (st_part s) (st_ret s) (st_cue s)
                                                  (st_should_err s) (st_found_first s) (st_prev_unknown s))
                     | None => Continue s
                     end
                   | _ =>
                     (* part.SetError("tried to apply filter against *mpath.Function") *)
                     let pt' := mkPart (pt_kind pt) (set_error (pt_error pt) [EFilterOnFunction])
                                       (pt_sub_has pt) (pt_sub_errs pt) (pt_type pt) in
                     Continue (mkPstate (st_error s) (set_last_part (st_parts s) pt') (Some pt') (st_ret s) (st_cue s)
                                        (st_should_err s) (st_found_first s) (st_prev_unknown s))
                   end
                 end
               | PFunc f =>
                 if st_should_err s then Continue s else
                 match st_part s with
                 | None => Continue (mkPstate (Some [EFuncNotHere]) (st_parts s) (st_part s) (st_ret s) (st_cue s)
                                              (st_should_err s) (st_found_first s) (st_prev_unknown s))
                 | Some pt =>
                   let '(fp, ty, known, goerr) := validate_func f (st_cue s) (pt_type pt) in
                   Continue (mkPstate (st_error s) (add_part s fp) (Some fp) ty (st_cue s)
                                      goerr (st_found_first s)
                                      (st_prev_unknown s || (negb known && vty_ty_is ty PT_Object)))
                 end
               end in
             match fl with
             | Continue s' => loop rest s'
             | Return s' => finish s' true
             end
           end) ops s0
      end
    end
  end

(** returns (part, returnedType, returnsKnownValues, err != nil) *)
with validate_func (f : func) (cue_path : list str) (prev : vty) {struct f} : part * vty * bool * bool :=
  match f with
  | Func invalid ft ps _ =>
    match find_value_at_path root cue_path with
    | None => (mkPart KFunc (Some [EUndeclared]) false [] None, None, false, false)
    | Some v =>
      let e0 := if invalid then Some [EInvalidOp] else None in
      match find_fdesc_key ft tbl with
      | None => (mkPart KFunc (Some [EUnknownFunction]) false [] None, None, false, false)
      | Some fd =>
        let e1 := receiver_error e0 (fd_on fd) prev in
        let prs :=
          (fix params (ps : list param) (i : nat) (variadic : option nat) {struct ps} : list paramres :=
             match ps with
             | [] => []
             | p :: rest =>
               (* [Some ty]: go on to the descriptor check with that type; [None]: `continue` *)
               let '(pr, go) :=
                 match p with
                 | FPNum _ => (mkParamres None None, Some (Some (PT_Number, IO_Single)))
                 | FPStr _ => (mkParamres None None, Some (Some (PT_String, IO_Single)))
                 | FPBool _ => (mkParamres None None, Some (Some (PT_Boolean, IO_Single)))
                 | FPPath q =>
                   let r := validate_path q cue_path in
                   let pp := Some (path_has r, path_errs r) in
                   match pr_error r with
                   | Some e => (mkParamres (Some e) pp, None)
                   | None =>
                     match pr_parts r with
                     | [] => (mkParamres (Some [ENoParts]) pp, None)
                     | _ :: _ => (mkParamres None pp, Some (pr_type r))
                     end
                   end
                 | FPLog l =>
                   let r := validate_log l cue_path in
                   let pp := Some (log_has r, log_errs r) in
                   match lr_error r with
                   | Some e => (mkParamres (Some e) pp, None)
                   | None =>
                     match lr_parts r with
                     | [] => (mkParamres (Some [ENoParts]) pp, None)
                     | _ :: _ => (mkParamres None pp, Some (Some (PT_Boolean, IO_Single)))
                     end
                   end
                 end in
               match go with
               | None => pr :: params rest (S i) variadic
               | Some pret =>
                 let '(e, variadic') := check_param (fd_params fd) i variadic pret in
                 mkParamres e (pa_part pr) :: params rest (S i) variadic'
               end
             end) ps O None in
        let k := underlying_kind v in
        let ty := refine_return (fd_ret fd) k prev in
        let known := fd_known fd in
        let in_known_branch := known && iotype_eqb (snd (fd_ret fd)) IO_Single
                               && vty_io_is prev IO_Array && vty_ty_is prev PT_Object && ckind_eqb k KStruct in
        let ty' := if in_known_branch then (PT_Object, snd ty) else ty in
        (* getAvailableFieldsForValue(getUnderlyingValue(cuePathValue)) *)
        let fields_fail := in_known_branch &&
                           negb (is_some (match underlying_value v with
                                          | Some u => available_fields u blocked
                                          | None => None
                                          end)) in
        let e2 := if fields_fail then set_error e1 [EOtherErr] else e1 in
        (mkPart KFunc e2 (existsb param_has prs) (flat_map param_errs prs) (Some ty'), Some ty', known, fields_fail)
      end
    end
  end

(** opLogicalOperation.Validate *)
with validate_log (l : logop) (cue_path : list str) {struct l} : logres :=
  match l with
  | LogOp invalid _ _ xs _ =>
    let e0 := if invalid then Some [EInvalidOp] else None in
    (fix operands (xs : list operand) (e : merr) (parts : list (bool * emsg)) {struct xs} : logres :=
       match xs with
       | [] => mkLogres e parts
       | OpP p :: rest =>
         let r := validate_path p cue_path in
         let e' := if path_has r then set_error e (path_errs r) else e in
         (* the boolean check comes after the errors were propagated, and overwrites pathOp.Error *)
         let r' := match last_part_type r with
                   | Some rt => if vty_ty_is rt PT_Boolean && vty_io_is rt IO_Single then r
                                else mkPathres (Some [ENotBoolean]) (pr_parts r) (pr_type r)
                   | None => r
                   end in
         operands rest e' (parts ++ [(path_has r', path_errs r')])
       | OpL sub :: rest =>
         let r := validate_log sub cue_path in
         let e' := if log_has r then set_error e (log_errs r) else e in
         operands rest e' (parts ++ [(log_has r, log_errs r)])
       end) xs e0 []
  end.

(** * What CueValidate reports *)
Record vres := mkVres {
  v_err : bool;              (* the returned `err` is non-nil *)
  v_has_errors : bool;       (* tc.HasErrors() *)
  v_type : vty;              (* tc.ReturnType() *)
  v_errs : emsg              (* tc.GetErrors(), as classes in message order *)
}.

Definition validate_top_with (t : top) : vres :=
  match t with
  | TopP p =>
    let r := validate_path p [] in
    mkVres (is_some (pr_error r)) (path_has r) (pr_type r) (path_errs r)
  | TopL l =>
    let r := validate_log l [] in
    mkVres (is_some (lr_error r)) (log_has r) (Some (PT_Boolean, IO_Single)) (log_errs r)
  end.

End Validate.

Definition validate_top_gen (tbl : list fdesc) (schema : cty) (blocked : list str) (t : top) : vres :=
  validate_top_with tbl schema blocked t.

(** over the generated descriptor table *)
Definition validate_top (schema : cty) (blocked : list str) (t : top) : vres :=
  validate_top_gen func_table schema blocked t.

(** getBlockedRootFields(rootValue, currentPath) *)
Definition root_fields (schema : cty) : list str :=
  match available_fields schema [] with Some l => l | None => [] end.

Definition blocked_root_fields (schema : cty) (cur : str) : outcome (list str) :=
  match available_fields schema [] with
  | None => fail "failed to list fields in cue value"
  | Some fields => get_blocked (blocked_fuel fields) (deps_of schema) fields cur
  end.

(** CueValidate after both texts were parsed; [cur = []] is currentPath == "".
    [Err _]: "failed to get blocked fields for rootValue" (tc is nil). *)
Definition cue_validate_gen (tbl : list fdesc) (schema : cty) (cur : str) (t : top) : outcome vres :=
  match cur with
  | [] => Ok (validate_top_gen tbl schema [] t)
  | _ :: _ => do bl <- blocked_root_fields schema cur; Ok (validate_top_gen tbl schema bl t)
  end.

Definition cue_validate (schema : cty) (cur : str) (t : top) : outcome vres :=
  cue_validate_gen func_table schema cur t.
