(* Eval.v — the Do methods (opPath.go, opPathIdent.go, opFilter.go,
   opLogicalOperation.go, opFunction.go) and func_Select, mutually recursive on
   fuel.  Fuel is spent on every descent into a child node and on every
   re-parse by Select; the parser is total, so only a self-reproducing Select
   can exhaust it (finding F21). *)
From Mpath.Model Require Import Base Dec Types GoVal Ast Lexer Parser Funcs.
From Mpath.Generated Require Import FuncTable.

Section Eval.
Variable uni : uclass.
Variable eng : engines.

(** classification of an evaluated path/group argument (opFunction.Do) *)
Definition spread_elem (x : gv) : option rparam :=
  match x with
  | VDec d => Some (RNum d)
  | VStr false s => Some (RStr s)
  | VBool false b => Some (RBool b)
  | _ => let (was, d) := convert_number_check x in if was then Some (RNum d) else None
  end.

Definition spread_result (res : gv) : outcome (list rparam) :=
  match res with
  | VDec d => Ok [RNum d]
  | VStr false s => Ok [RStr s]
  | VBool false b => Ok [RBool b]
  | VSlice _ _ xs | VArray _ xs =>
    match all_some (map spread_elem xs) with
    | Some ps => Ok ps
    | None => fail "unhandled param path type"
    end
  | _ => fail "unhandled param path type"
  end.

(** sort.Slice of map keys by their printed value (mapKeySortText): byte-wise order of the texts *)
Fixpoint str_ltb (a b : str) : bool :=
  match a, b with
  | [], [] => false
  | [], _ :: _ => true
  | _ :: _, [] => false
  | x :: a', y :: b' => if byte x <? byte y then true else if byte y <? byte x then false else str_ltb a' b'
  end.

Fixpoint insert_kv (kv : str * gv) (l : list (str * gv)) : list (str * gv) :=
  match l with
  | [] => [kv]
  | x :: l' => if str_ltb (fst kv) (fst x) then kv :: l else x :: insert_kv kv l'
  end.

(** the text a map key is ordered by in func_Select (mapKeySortText): the string itself for a key of
    kind string, fmt.Sprint of the key otherwise — modelled for unnamed integers and booleans and for
    the nil interface; None = no modelled printed form (floats, named numbers and booleans — which may
    carry a String method —, composite keys) *)
Definition key_sort_text (k : gv) : option str :=
  match k with
  | VStr _ s => Some s
  | VInt _ false z => Some (show_Z z)
  | VBool false b => Some (if b then bs "true" else bs "false")
  | VNil => Some []
  | _ => None
  end.

(** no two of the texts are equal *)
Fixpoint str_nodupb (l : list str) : bool :=
  match l with
  | [] => true
  | x :: l' => negb (str_mem x l') && str_nodupb l'
  end.

(** the values of a map in the order of the printed keys; None when a key has no modelled printed
    form, or when two keys print alike (Go then orders them by the name of their types, which the
    model does not carry) *)
Definition sorted_values (kvs : list (gv * gv)) : option (list gv) :=
  match all_some (map (fun '(k, v) => match key_sort_text k with Some s => Some (s, v) | None => None end) kvs) with
  | Some l => if str_nodupb (map fst l) then Some (map snd (fold_right insert_kv [] l)) else None
  | None => None
  end.

Definition flatten_result (res : gv) : list gv :=
  match res with
  | VSlice _ _ xs => xs
  | VArray _ xs => xs
  | _ => [res]
  end.

Inductive node := NPath (p : path) | NOp (o : pathop) | NFunc (f : func) | NLog (l : logop) | NTop (t : top).

(** opPath.Do's loop over the operations, given the evaluator for one operation *)
Fixpoint path_ops (ev : pathop -> gv -> outcome gv) (prev : option pathop) (prior_nil : bool)
                  (ops : list pathop) (data : gv) (last_err : option err) : outcome gv :=
  match ops with
  | [] => match last_err with Some e => Err e | None => Ok data end
  | op :: rest =>
    let blocked := match prev with
                   | Some p => prior_nil && negb (pathop_qmark p) && negb (pathop_is_func op)
                   | None => false
                   end in
    if blocked then fail "cannot access property of nil value" else
    match ev op data with
    | Ok v => path_ops ev (Some op) (prior_nil || is_nil v) rest v None
    | Err EKeyNotFound =>
      if pathop_qmark op then path_ops ev (Some op) true rest VNil (Some EKeyNotFound)
      else Err EKeyNotFound
    | Err (EOther t) => Err (EOther t)
    | Panic m => Panic m
    | OutOfFuel => OutOfFuel
    | Declined w => Declined w
    end
  end.

(** opLogicalOperation.Do *)
Fixpoint log_ops (ev : operand -> outcome gv) (t : lot) (xs : list operand) : outcome gv :=
  match xs with
  | [] => match t with
          | LAnd => Ok (vbool true)
          | LOr => Ok (vbool false)
          | LBad _ => fail "didn't parse result correctly"
          end
  | x :: rest =>
    do res <- ev x;
    match res with
    | VBool false b =>
      match t with
      | LAnd => if b then log_ops ev t rest else Ok (vbool false)
      | LOr => if b then Ok (vbool true) else log_ops ev t rest
      | LBad _ => log_ops ev t rest
      end
    | _ => Ok (vbool false)
    end
  end.

Fixpoint filter_elems (ev : gv -> outcome gv) (xs : list gv) : outcome (list gv) :=
  match xs with
  | [] => Ok []
  | x :: rest =>
    do res <- ev x;
    match res with
    | VBool false b => do ys <- filter_elems ev rest; Ok (if b then x :: ys else ys)
    | _ => Panic "interface conversion: interface {} is not bool"
    end
  end.

Fixpoint eval_params (ev : node -> outcome gv) (ps : list param) : outcome (list rparam) :=
  match ps with
  | [] => Ok []
  | p :: rest =>
    do here <- match p with
               | FPNum d => Ok [RNum d]
               | FPStr s => Ok [RStr s]
               | FPBool b => Ok [RBool b]
               | FPPath q => do res <- ev (NPath q); spread_result res
               | FPLog l => do res <- ev (NLog l); spread_result res
               end;
    do more <- eval_params ev rest;
    Ok (here ++ more)
  end.

Fixpoint select_elems (ev : gv -> outcome gv) (xs : list gv) : outcome (list gv) :=
  match xs with
  | [] => Ok []
  | x :: rest => do res <- ev x; do more <- select_elems ev rest; Ok (flatten_result res ++ more)
  end.

Fixpoint eval (fuel : nat) (n : node) (cur orig : gv) : outcome gv :=
  match fuel with
  | O => OutOfFuel
  | S k =>
    match n with
    | NTop (TopP p) => eval k (NPath p) cur orig
    | NTop (TopL l) => eval k (NLog l) cur orig
    | NPath (Path _ root is_filter _ ops _) =>
      if root && is_filter then fail "cannot access root data in filter" else
      let data := if root then orig else cur in
      let data := match ops with [] => convert_unless_string data | _ => data end in
      path_ops (fun o d => eval k (NOp o) d orig) None false ops data None
    | NOp (PIdent name _ _) => do_ident name cur
    | NOp (PFilter l _) =>
      match get_as_struct_or_slice cur with
      | None => fail "value was not object or array and cannot be filtered"
      | Some (val, true) =>
        do res <- eval k (NLog l) val orig;
        match res with VBool false true => Ok val | _ => Ok VNil end
      | Some (val, false) =>
        match val with
        | VSlice _ _ xs => do ys <- filter_elems (fun x => eval k (NLog l) x orig) xs; Ok (VSlice EAny false ys)
        | _ => Panic "interface conversion: not []interface {}"
        end
      end
    | NOp (PFunc f) => eval k (NFunc f) cur orig
    | NLog (LogOp _ _ t xs _) =>
      log_ops (fun x => match x with OpP p => eval k (NPath p) cur orig | OpL l => eval k (NLog l) cur orig end) t xs
    | NFunc (Func _ ft ps _) =>
      do rt <- eval_params (fun m => eval k m cur orig) ps;
      let val := convert_number cur in
      match find_fdesc_key ft func_table with
      | None => fail "unrecognised function"
      | Some d =>
        if String.eqb (fd_key d) "Select" then
          do q <- params_first_string rt;
          match parse_string uni q with
          | Ok t =>
            let v := deref1 (value_of val) in
            match rv_v v with
            | VSlice _ _ xs | VArray _ xs =>
              do rs <- select_elems (fun x => eval k (NTop t) x x) xs;
              Ok (VSlice EAny (match rs with [] => true | _ => false end) rs)
            | VMap _ _ _ kvs =>
              match sorted_values kvs with
              | Some vs => do rs <- select_elems (fun x => eval k (NTop t) x x) vs;
                           Ok (VSlice EAny (match rs with [] => true | _ => false end) rs)
              | None => Declined "Select over a map whose keys have no modelled printed form, or print alike"
              end
            | _ => fail "unsupported type; expected array or map"
            end
          | Err e => fail "error parsing query"
          | Panic m => Panic m
          | OutOfFuel => OutOfFuel
          | Declined w => Declined w
          end
        else run_func eng (fd_key d) rt val
      end
    end
  end.

End Eval.

(** The fuel given to an evaluation: enough for every query without a
    self-reproducing Select (C07_terminates); large and fixed otherwise. *)
Definition default_fuel : nat := 4096.

Definition do_top (uni : uclass) (eng : engines) (t : top) (data : gv) : outcome gv :=
  eval uni eng default_fuel (NTop t) data data.
