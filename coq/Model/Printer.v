(* Printer.v — the Sprint methods and the String methods of the parameters
   (op*.go; FP_* in opFunction.go). *)
From Mpath.Model Require Import Base Dec Types Ast Lexer Parser.

Definition tabs (n : nat) : str := repeat (chr 9) n.
Definition nl : str := [chr 10].

Definition param_string (p : param) : str :=
  match p with
  | FPNum d => dec_to_string d
  | FPStr s => bs """" ++ escape s ++ bs """"
  | FPBool b => if b then bs "true" else bs "false"
  | FPPath p => path_us p            (* FP_Path.String() is the UserString *)
  | FPLog l => logop_us l
  end.

Definition sprint_func (f : func) : str :=
  match f with
  | Func _ ft ps _ => ft ++ bs "(" ++ concat_str (bs ",") (map param_string ps) ++ bs ")"
  end.

Fixpoint sprint_path (fuel : nat) (depth : nat) (p : path) : str :=
  match fuel with
  | O => []
  | S k =>
    match p with
    | Path _ root _ _ ops _ =>
      tabs depth ++ (if root then bs "$" else bs "@") ++
      concat (map (fun o =>
                     match o with
                     | PIdent name q _ => bs "." ++ name ++ (if q then bs "?" else [])
                     | PFilter l _ => sprint_log k depth l
                     | PFunc f => bs "." ++ sprint_func f
                     end) ops)
    end
  end
with sprint_log (fuel : nat) (depth : nat) (l : logop) : str :=
  match fuel with
  | O => []
  | S k =>
    match l with
    | LogOp _ is_filter t xs _ =>
      (if is_filter then bs "[" else tabs depth ++ bs "{") ++
      nl ++ tabs (S depth) ++
      (match t with LAnd => bs "AND," | LOr => bs "OR," | LBad _ => [] end) ++
      (fix go (xs : list operand) : str :=
         match xs with
         | [] => []
         | x :: xs' =>
           nl ++ (match x with OpP p => sprint_path k (S depth) p | OpL l' => sprint_log k (S depth) l' end)
              ++ (match xs' with [] => [] | _ => bs "," end) ++ go xs'
         end) xs ++
      nl ++ tabs depth ++ (if is_filter then bs "]" else bs "}")
    end
  end.

(** a fuel that always suffices: the userString is at least as long as the tree is deep *)
Definition sprint_top (t : top) : str :=
  match t with
  | TopP p => sprint_path (S (length (path_us p))) 0 p
  | TopL l => sprint_log (S (length (logop_us l))) 0 l
  end.
