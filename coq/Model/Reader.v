(* Reader.v — how text/scanner turns an io.Reader into the character stream
   (text/scanner/scanner.go, Scanner.next), and ParseReadSeeker over it
   (mpath.go: scanner.Reset seeks to offset 0, then sx.Init).

   Lexer.v takes the query as one byte string.  Here the bytes arrive through
   successive Read calls, in chunks of any size, and a Read may fail.  What is
   modelled of next() is the part in which chunk boundaries could matter:

       for srcPos+UTFMax > srcEnd && !utf8.FullRune(srcBuf[srcPos:srcEnd]) {
           ... n, err := src.Read(srcBuf[i:bufLen]) ...
           if err != nil { if err != io.EOF { s.error(err.Error()) }
                           if srcEnd == 0 { return EOF }
                           break }
       }
       ch, width = utf8.DecodeRune(srcBuf[srcPos:srcEnd])

   i.e. a character is decoded from the unread buffered bytes as soon as these
   hold a full rune or at least UTFMax = 4 bytes (an ASCII byte is a full
   rune: the fast path of next() is a special case); otherwise one more Read is
   issued and its bytes are appended to the unread ones.

   NOT modelled: the physical 1024-byte buffer (a Read is offered the free
   room of the buffer, so a reader is never asked for more than that; the
   chunks of this model are the byte counts the Reads actually returned,
   whatever the room offered), token-text accumulation across refills, and
   positions.  A Read returning n > 0 together with io.EOF is the chunk
   followed by the end of the list.  No proofs here. *)
From Mpath.Model Require Import Base Ast Lexer Parser.

(** One Read call: n >= 0 bytes and a nil error, or a non-EOF error.  The end
    of the list is io.EOF; [RChunk []] is a (0, nil) read. *)
Inductive rd := RChunk (b : str) | RErr.
Definition reader := list rd.

Definition utf_max : nat := 4.

(** utf8.FullRune: does [p] begin with a full encoding of a rune?  An invalid
    encoding counts as a full rune (it decodes to RuneError, width 1). *)
Definition full_rune (p : str) : bool :=
  match p with
  | [] => false
  | b0 :: r =>
    let x0 := byte b0 in
    if x0 <? 128 then true                                   (* ASCII *)
    else if in_rng 194 223 b0 then                           (* size 2 *)
      match r with [] => false | _ => true end
    else if in_rng 224 239 b0 then                           (* size 3 *)
      let lo := if x0 =? 224 then 160 else 128 in
      let hi := if x0 =? 237 then 159 else 191 in
      match r with
      | [] => false
      | [b1] => negb (in_rng lo hi b1)                       (* n > 1 && p[1] outside accept *)
      | _ => true
      end
    else if in_rng 240 244 b0 then                           (* size 4 *)
      let lo := if x0 =? 240 then 144 else 128 in
      let hi := if x0 =? 244 then 143 else 191 in
      match r with
      | [] => false
      | [b1] => negb (in_rng lo hi b1)
      | [b1; b2] => negb (in_rng lo hi b1) || negb (is_cont b2)   (* n > 2 && p[2] not a continuation *)
      | _ => true
      end
    else true                                                (* invalid first byte: size 1 *)
  end.

(** the loop condition of next(), negated: decode now, no Read *)
Definition can_decode (buf : str) : bool :=
  (utf_max <=? length buf)%nat || full_rune buf.

(** One character: decode [buf], None = an error event (as in [chars_fuel]) *)
Definition decode_char (buf : str) : option ((Z * str) * str) :=
  let '(r, w) := decode_rune buf in
  if (r =? rune_error) && (w =? 1)%nat then None            (* invalid UTF-8 encoding *)
  else if r =? 0 then None                                  (* invalid character NUL *)
  else Some ((r, firstn w buf), skipn w buf).

(** One step of the character stream.  State: unread buffered bytes, Reads to come. *)
Inductive rstep :=
| REmit (c : Z * str) (buf : str) (rdr : reader)   (* a character; new state *)
| RMore (buf : str) (rdr : reader)                 (* a Read was issued; new state *)
| RDone                                            (* EOF *)
| RFail.                                           (* an error event *)

Definition reader_step (buf : str) (rdr : reader) : rstep :=
  if can_decode buf then
    match decode_char buf with Some (c, buf') => REmit c buf' rdr | None => RFail end
  else
    match rdr with
    | RChunk b :: rdr' => RMore (buf ++ b) rdr'
    | RErr :: _ => RFail                            (* s.error(err.Error()) *)
    | [] =>                                         (* io.EOF *)
      match buf with
      | [] => RDone                                 (* srcEnd == 0: return EOF *)
      | _ =>                                        (* break: decode the incomplete rune *)
        match decode_char buf with Some (c, buf') => REmit c buf' [] | None => RFail end
      end
    end.

(** Every step consumes a Read or at least one byte: the fuel below suffices. *)
Fixpoint rd_chars_fuel (fuel : nat) (buf : str) (rdr : reader) : option (list (Z * str)) :=
  match fuel with
  | O => None
  | S k =>
    match reader_step buf rdr with
    | REmit c buf' rdr' => option_map (cons c) (rd_chars_fuel k buf' rdr')
    | RMore buf' rdr' => rd_chars_fuel k buf' rdr'
    | RDone => Some []
    | RFail => None
    end
  end.

Fixpoint reader_bytes (rdr : reader) : str :=
  match rdr with
  | [] => []
  | RChunk b :: rdr' => b ++ reader_bytes rdr'
  | RErr :: rdr' => reader_bytes rdr'
  end.

Definition reader_fuel (buf : str) (rdr : reader) : nat :=
  S (length buf + length rdr + length (reader_bytes rdr)).

(** Scanner.Peek drops a leading BOM, as in [chars] *)
Definition drop_bom (o : option (list (Z * str))) : option (list (Z * str)) :=
  match o with
  | Some ((r, _) :: cs) => if r =? bom then Some cs else o
  | _ => o
  end.

Definition chars_of_reader (rdr : reader) : option (list (Z * str)) :=
  drop_bom (rd_chars_fuel (reader_fuel [] rdr) [] rdr).

(** From the character stream on, the pipeline of [lex] and [parse_string] *)
Definition lex_chars (uni : uclass) (ocs : option (list (Z * str))) : option (list token) :=
  match ocs with
  | None => None
  | Some cs => option_map (filter (visible uni)) (tokens_fuel uni (S (length cs)) cs)
  end.

Definition parse_lexed (otoks : option (list token)) : outcome top :=
  match otoks with
  | None => Err (EOther "scanner error")
  | Some toks => parse_tokens toks
  end.

Definition parse_reader (uni : uclass) (rdr : reader) : outcome top :=
  parse_lexed (lex_chars uni (chars_of_reader rdr)).

(** * ParseReadSeeker
    An io.ReadSeeker: its content, its current offset, whether Seek works, and
    how it will cut what it delivers into Reads ([rs_plan]: the sizes of the
    successive chunks, 0 allowed; what is left after the plan comes in one
    chunk) and after how many Reads, if ever, it fails. *)
Record rseeker := mkRS {
  rs_data : str;
  rs_off : nat;
  rs_seek_ok : bool;
  rs_plan : list nat;
  rs_fault : option nat
}.

Fixpoint deliver (plan : list nat) (data : str) : list str :=
  match plan with
  | [] => match data with [] => [] | _ => [data] end
  | n :: plan' => firstn n data :: deliver plan' (skipn n data)
  end.

(** the Reads a seeker performs from its current offset *)
Definition reads_of (rs : rseeker) : reader :=
  let chunks := map RChunk (deliver (rs_plan rs) (skipn (rs_off rs) (rs_data rs))) in
  match rs_fault rs with
  | None => chunks
  | Some n => firstn n chunks ++ [RErr]
  end.

(** reader.Seek(0, io.SeekStart) *)
Definition seek_start (rs : rseeker) : rseeker :=
  mkRS (rs_data rs) O (rs_seek_ok rs) (rs_plan rs) (rs_fault rs).

Definition parse_read_seeker (uni : uclass) (rs : rseeker) : outcome top :=
  if rs_seek_ok rs then parse_reader uni (reads_of (seek_start rs))
  else Err (EOther "seek error").
