(* Analysis.v — the two static analyses of operation.go: GetRootFieldsAccessed
   and AddressedPaths (with sliceContains, spreadSlice and
   slicesContainsSubsetSlice).  Executable model only; the theorems are in
   Proofs/C20.v. *)
From Mpath.Model Require Import Base Dec Types GoVal Ast Lexer Parser Funcs Eval.

(** * GetRootFieldsAccessed *)

(** sort.Strings: byte-wise order ([str_ltb] of Eval.v), as an insertion sort *)
Fixpoint insert_str (s : str) (l : list str) : list str :=
  match l with
  | [] => [s]
  | x :: l' => if str_ltb s x then s :: l else x :: insert_str s l'
  end.

Definition sort_strs (l : list str) : list str := fold_right insert_str [] l.

(** `accessed` is a Go map used as a set: a key inserted twice is kept once.
    On a sorted list equal strings are adjacent. *)
Fixpoint dedup_from (prev : str) (l : list str) : list str :=
  match l with
  | [] => []
  | y :: r => if str_eqb prev y then dedup_from prev r else y :: dedup_from y r
  end.

Definition dedup (l : list str) : list str :=
  match l with [] => [] | x :: r => x :: dedup_from x r end.

(** the first *opPathIdent of t.Operations (haveSeenIdent), wherever it stands *)
Fixpoint first_ident (ops : list pathop) : option str :=
  match ops with
  | [] => None
  | PIdent name _ _ :: _ => Some name
  | _ :: rest => first_ident rest
  end.

(** What one call inserts into `accessed`, in the order of insertion, as a list
    with possible repetitions.  The recursive calls of the Go code return their
    own set sorted; only membership matters for a set, so the raw lists of the
    children are concatenated here and sorted once at the top ([root_fields]).

    case *opPath: the loop over t.Operations adds what filters and functions
    contribute; `thisPath` receives the first identifier when !t.IsFilter, and
    strings.Join(thisPath, ".") is inserted after the loop when non-empty.
    case *opLogicalOperation: the union over the operands.
    A filter contributes GetRootFieldsAccessed of every operand of its logical
    operation; a function that of its path and group parameters. *)
Fixpoint rf_path (p : path) : list str :=
  match p with
  | Path _ _ is_filter _ ops _ =>
    let this_path := if is_filter then []
                     else match first_ident ops with Some name => [name] | None => [] end in
    flat_map rf_pathop ops
    ++ match this_path with [] => [] | _ :: _ => [concat_str (bs ".") this_path] end
  end
with rf_pathop (o : pathop) : list str :=
  match o with
  | PIdent _ _ _ => []
  | PFilter l _ => match l with LogOp _ _ _ xs _ => flat_map rf_operand xs end
  | PFunc f => rf_func f
  end
with rf_func (f : func) : list str :=
  match f with Func _ _ ps _ => flat_map rf_param ps end
with rf_param (a : param) : list str :=
  match a with
  | FPPath q => rf_path q
  | FPLog l => rf_logop l
  | FPNum _ | FPStr _ | FPBool _ => []
  end
with rf_logop (l : logop) : list str :=
  match l with LogOp _ _ _ xs _ => flat_map rf_operand xs end
with rf_operand (x : operand) : list str :=
  match x with OpP p => rf_path p | OpL l => rf_logop l end.

Definition rf_top (t : top) : list str :=
  match t with TopP p => rf_path p | TopL l => rf_logop l end.

(** GetRootFieldsAccessed takes any Operation; the type switch has cases for
    *opPath and *opLogicalOperation only, every other node yields nothing. *)
Definition root_fields_raw (n : node) : list str :=
  match n with
  | NPath p => rf_path p
  | NLog l => rf_logop l
  | NTop t => rf_top t
  | NOp _ | NFunc _ => []
  end.

Definition sort_dedup (l : list str) : list str := dedup (sort_strs l).

Definition root_fields_node (n : node) : list str := sort_dedup (root_fields_raw n).

Definition root_fields (t : top) : list str := root_fields_node (NTop t).

(** * AddressedPaths *)

(** reflect.DeepEqual on two []string (never nil here: every slice compared is
    built by append onto []string{} or is a non-empty prefix) *)
Fixpoint strs_eqb (a b : list str) : bool :=
  match a, b with
  | [], [] => true
  | x :: a', y :: b' => str_eqb x y && strs_eqb a' b'
  | _, _ => false
  end.

Definition slice_contains (sl : list (list str)) (val : list str) : bool :=
  existsb (fun v => strs_eqb v val) sl.

(** spreadSlice: the non-empty prefixes, shortest first *)
Fixpoint spread_slice (sl : list str) : list (list str) :=
  match sl with
  | [] => []
  | x :: r => [x] :: map (cons x) (spread_slice r)
  end.

Definition slices_contains_subset_slice (slices : list (list str)) (subset : list str) : bool :=
  existsb (fun slice => existsb (fun ss => strs_eqb ss subset) (spread_slice slice)) slices.

(** the closing loop of AddressedPaths: a value is appended unless it is
    already there, or is a prefix of a value already there, or is empty.  A
    value of which a kept value is a prefix is appended all the same. *)
Definition ap_keep (ret : list (list str)) (val : list str) : bool :=
  negb (slice_contains ret val) && negb (slices_contains_subset_slice ret val)
  && (0 <? length val)%nat.

Definition ap_dedup (paths : list (list str)) : list (list str) :=
  fold_left (fun ret val => if ap_keep ret val then ret ++ [val] else ret) paths [].

(** the loop over v.Operations: [idents] grows with every *opPathIdent; a
    filter appends idents ++ val for every val its operands return ([on_filter]);
    a function appends what its path and group parameters return ([on_func]);
    `idents` itself is appended after the loop. *)
Section ApOps.
Variable on_filter : logop -> list (list str).
Variable on_func : func -> list (list str).
Fixpoint ap_ops (idents : list str) (ops : list pathop) : list (list str) :=
  match ops with
  | [] => [idents]
  | PIdent name _ _ :: rest => ap_ops (idents ++ [name]) rest
  | PFilter l _ :: rest => map (app idents) (on_filter l) ++ ap_ops idents rest
  | PFunc f :: rest => on_func f ++ ap_ops idents rest
  end.
End ApOps.

Fixpoint ap_path (p : path) : list (list str) :=
  match p with
  | Path _ _ _ _ ops _ =>
    match ops with
    | [] => []                                    (* len(v.Operations) < 1: break *)
    | _ :: _ => ap_dedup (ap_ops ap_filter ap_func [] ops)
    end
  end
with ap_filter (l : logop) : list (list str) :=   (* AddressedPaths of each operand of the filter *)
  match l with LogOp _ _ _ xs _ => flat_map ap_operand xs end
with ap_func (f : func) : list (list str) :=
  match f with Func _ _ ps _ => flat_map ap_param ps end
with ap_param (a : param) : list (list str) :=
  match a with
  | FPPath q => ap_path q
  | FPLog l => ap_logop l
  | FPNum _ | FPStr _ | FPBool _ => []
  end
with ap_logop (l : logop) : list (list str) :=
  match l with LogOp _ _ _ xs _ => ap_dedup (flat_map ap_operand xs) end
with ap_operand (x : operand) : list (list str) :=
  match x with OpP p => ap_path p | OpL l => ap_logop l end.

Definition addressed_paths (t : top) : list (list str) :=
  match t with TopP p => ap_path p | TopL l => ap_logop l end.

(** AddressedPaths on an arbitrary Operation: only *opPath and
    *opLogicalOperation have a case. *)
Definition addressed_paths_node (n : node) : list (list str) :=
  match n with
  | NPath p => ap_path p
  | NLog l => ap_logop l
  | NTop t => addressed_paths t
  | NOp _ | NFunc _ => []
  end.
