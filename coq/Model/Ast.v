(* Ast.v — the operation tree built by the parser (op*.go structs). *)
From Mpath.Model Require Import Base Dec.

Inductive lot := LAnd | LOr | LBad (s : str).   (* LOT_And, LOT_Or, a misspelt keyword *)

(** opPath, opPathIdent/opFilter/opFunction, function parameters and
    opLogicalOperation.  Every node carries its userString. *)
Inductive path :=
| Path (invalid start_root is_filter must_end : bool) (ops : list pathop) (us : str)
with pathop :=
| PIdent (name : str) (qmark : bool) (us : str)
| PFilter (l : logop) (us : str)
| PFunc (f : func)
with func :=
| Func (invalid : bool) (ft : str) (ps : list param) (us : str)
with param :=
| FPNum (d : dec)
| FPStr (s : str)
| FPBool (b : bool)
| FPPath (p : path)
| FPLog (l : logop)
with logop :=
| LogOp (invalid is_filter : bool) (t : lot) (xs : list operand) (us : str)
with operand :=
| OpP (p : path)
| OpL (l : logop).

(** The top operation returned by ParseString. *)
Inductive top := TopP (p : path) | TopL (l : logop).

Definition path_us (p : path) : str := match p with Path _ _ _ _ _ us => us end.
Definition logop_us (l : logop) : str := match l with LogOp _ _ _ _ us => us end.
Definition func_us (f : func) : str := match f with Func _ _ _ us => us end.
Definition pathop_us (o : pathop) : str :=
  match o with PIdent _ _ us => us | PFilter _ us => us | PFunc f => func_us f end.
Definition operand_us (o : operand) : str :=
  match o with OpP p => path_us p | OpL l => logop_us l end.
Definition top_us (t : top) : str := match t with TopP p => path_us p | TopL l => logop_us l end.

(** op.PropagateNull(): only keys can carry the mark. *)
Definition pathop_qmark (o : pathop) : bool :=
  match o with PIdent _ q _ => q | _ => false end.
Definition pathop_is_func (o : pathop) : bool :=
  match o with PFunc _ => true | _ => false end.
