(* GoVal.v — Go values as mpath sees them through reflect and type switches
   (DESIGN §3.2).  A [gv] is a *dynamic* value (what an `any` holds); the static
   type of a container slot is kept only as far as the code can observe it:
   whether the slot is interface-typed and which of the few element types the
   type switches name. *)
From Mpath.Model Require Import Base Dec.

Inductive nkind := KInt | KInt8 | KInt16 | KInt32 | KInt64
                 | KUint | KUint8 | KUint16 | KUint32 | KUint64.

Definition nk_unsigned (k : nkind) : bool :=
  match k with KUint | KUint8 | KUint16 | KUint32 | KUint64 => true | _ => false end.

Definition nk_bits (k : nkind) : Z :=
  match k with
  | KInt8 | KUint8 => 8 | KInt16 | KUint16 => 16 | KInt32 | KUint32 => 32
  | _ => 64
  end.

Definition in_range (k : nkind) (z : Z) : bool :=
  if nk_unsigned k then (0 <=? z) && (z <? 2 ^ nk_bits k)
  else (- 2 ^ (nk_bits k - 1) <=? z) && (z <? 2 ^ (nk_bits k - 1)).

(** A float64 as NaN, ±Inf, or its shortest round-tripping decimal. *)
Inductive fl := FNaN | FInf (neg : bool) | FFin (d : dec).

(** Static element / value type of a slice, array or map, as far as mpath's
    type switches can tell ([]any, []decimal.Decimal, []string, []bool,
    []float64, []int are named in the code; everything else is ETOther). *)
Inductive ety := EAny | EDec | EStr | EBool | EFloat64 | EInt | ETOther.
(** Static key type of a map: string, a named string type, interface, other. *)
Inductive kty := KtStr | KtNamedStr | KtAny | KtOther.

Inductive gv :=
| VNil                                            (* untyped nil interface *)
| VBool (named : bool) (b : bool)
| VInt (k : nkind) (named : bool) (z : Z)
| VFloat (is32 named : bool) (f : fl)
| VStr (named : bool) (s : str)
| VDec (d : dec)                                  (* decimal.Decimal *)
| VPtr (target : option gv)                       (* None = nil pointer *)
| VSlice (t : ety) (isnil : bool) (xs : list gv)
| VArray (t : ety) (xs : list gv)
| VMap (kt : kty) (vt : ety) (isnil : bool) (kvs : list (gv * gv))  (* one iteration order *)
| VStruct (fields : list (str * bool * bool * gv))  (* name, exported, interface-typed slot, value *)
| VFunc (isnil : bool)
| VChan (isnil : bool).

Definition ety_eqb (a b : ety) : bool :=
  match a, b with
  | EAny, EAny | EDec, EDec | EStr, EStr | EBool, EBool | EFloat64, EFloat64 | EInt, EInt | ETOther, ETOther => true
  | _, _ => false
  end.

(** reflect.Kind, coarsened to what the code distinguishes *)
Inductive kind :=
| KdInvalid | KdBool | KdInt | KdUint | KdFloat | KdString | KdStruct | KdMap
| KdSlice | KdArray | KdPtr | KdInterface | KdFunc | KdChan.

Definition kind_eqb (a b : kind) : bool :=
  match a, b with
  | KdInvalid, KdInvalid | KdBool, KdBool | KdInt, KdInt | KdUint, KdUint | KdFloat, KdFloat
  | KdString, KdString | KdStruct, KdStruct | KdMap, KdMap | KdSlice, KdSlice | KdArray, KdArray
  | KdPtr, KdPtr | KdInterface, KdInterface | KdFunc, KdFunc | KdChan, KdChan => true
  | _, _ => false
  end.

Definition kind_of (g : gv) : kind :=
  match g with
  | VNil => KdInvalid
  | VBool _ _ => KdBool
  | VInt k _ _ => if nk_unsigned k then KdUint else KdInt
  | VFloat _ _ _ => KdFloat
  | VStr _ _ => KdString
  | VDec _ => KdStruct
  | VPtr _ => KdPtr
  | VSlice _ _ _ => KdSlice
  | VArray _ _ => KdArray
  | VMap _ _ _ _ => KdMap
  | VStruct _ => KdStruct
  | VFunc _ => KdFunc
  | VChan _ => KdChan
  end.

(** * reflect.Value: a dynamic value plus "this slot is interface-typed" *)
Record rv := mkRv { rv_if : bool; rv_v : gv }.

Definition value_of (g : gv) : rv := mkRv false g.           (* reflect.ValueOf *)
Definition rkind (r : rv) : kind := if rv_if r then KdInterface else kind_of (rv_v r).
Definition rinterface (r : rv) : gv := rv_v r.               (* Value.Interface() *)

(** Value.Elem on a Pointer or Interface value (callers test the kind first) *)
Definition relem (r : rv) : rv :=
  if rv_if r then mkRv false (rv_v r)
  else match rv_v r with
       | VPtr (Some g) => mkRv false g
       | _ => mkRv false VNil
       end.

(** `switch v.Kind() { case Pointer, Interface: v = v.Elem() }` *)
Definition deref1 (r : rv) : rv :=
  match rkind r with KdPtr | KdInterface => relem r | _ => r end.

Definition slot (t : ety) (g : gv) : rv := mkRv (ety_eqb t EAny) g.

Definition float_is_zero (f : fl) : bool :=
  match f with FFin d => dis_zero d | _ => false end.

Definition rlen (r : rv) : nat :=
  match rv_v r with
  | VSlice _ _ xs => length xs
  | VArray _ xs => length xs
  | VMap _ _ _ kvs => length kvs
  | VStr _ s => length s
  | _ => O
  end.

Definition ris_nil (r : rv) : bool :=
  if rv_if r then match rv_v r with VNil => true | _ => false end
  else match rv_v r with
       | VPtr None => true
       | VSlice _ isnil _ => isnil
       | VMap _ _ isnil _ => isnil
       | VFunc isnil => isnil
       | VChan isnil => isnil
       | VNil => true
       | _ => false
       end.

(** helpers.go isEmptyValue *)
Definition is_empty_value (r : rv) : bool :=
  match rkind r with
  | KdArray | KdMap | KdSlice | KdString => (rlen r =? 0)%nat
  | KdBool => match rv_v r with VBool _ b => negb b | _ => false end
  | KdInt | KdUint => match rv_v r with VInt _ _ z => z =? 0 | _ => false end
  | KdFloat => match rv_v r with VFloat _ _ f => float_is_zero f | _ => false end
  | KdInterface | KdPtr => ris_nil r
  | _ => false
  end.

(** funcs.go isNil *)
Definition is_nil (g : gv) : bool :=
  match kind_of g with
  | KdPtr | KdSlice | KdMap | KdChan | KdFunc => ris_nil (value_of g)
  | KdInvalid => true
  | _ => false
  end.

(** helpers.go convertToDecimalIfNumberAndCheck (after the by-Kind repair) *)
(** the reflective part of convertToDecimalIfNumberAndCheck *)
Definition convert_number_check_base (val : gv) : bool * dec :=
  let v := value_of val in
  let v := if is_empty_value v then v else deref1 v in
  match rv_v v, rv_if v with
  | VStr _ s, false => match dec_of_string s with Some d => (true, d) | None => (false, dzero) end
  | VInt _ _ z, false => (true, mkDec z 0)
  | VFloat _ _ (FFin d), false => (true, d)
  | VFloat _ _ _, false => (false, dzero)
  | _, _ => (false, dzero)
  end.

(** ... preceded by the type assertion for a non-nil pointer to decimal.Decimal *)
Definition convert_number_check (val : gv) : bool * dec :=
  match val with
  | VPtr (Some (VDec d)) => (true, d)
  | _ => convert_number_check_base val
  end.

Definition convert_number (val : gv) : gv :=
  let (was, d) := convert_number_check val in if was then VDec d else val.

(** `if _, ok := x.(string); !ok { x = convertToDecimalIfNumber(x) }` *)
Definition is_go_string (g : gv) : bool := match g with VStr false _ => true | _ => false end.
Definition convert_unless_string (g : gv) : gv := if is_go_string g then g else convert_number g.

(** Map keys as strings: the conversion loop shared by opPathIdent.Do,
    getFieldValueByNameFromStruct and doForMapPerKey.  None = key skipped. *)
Definition key_string (k : gv) : option str :=
  match k with
  | VStr false s => Some s
  | VStr true s => match s with [] => None | _ => Some s end
  | VInt _ _ z =>   (* string(rune(z)): modelled for ASCII only, see DESIGN §3.4 *)
      if (0 <? z) && (z <? 128) then Some [chr z] else Some [chr 239; chr 191; chr 189]
  | _ => None
  end.

Fixpoint map_lookup_fold (name : str) (kvs : list (gv * gv)) : option gv :=
  match kvs with
  | [] => None
  | (k, v) :: rest =>
    match key_string k with
    | Some s => if equal_fold s name then Some v else map_lookup_fold name rest
    | None => map_lookup_fold name rest
    end
  end.

Fixpoint struct_lookup_fold (name : str) (fs : list (str * bool * bool * gv)) : option gv :=
  match fs with
  | [] => None
  | (fname, exported, _, v) :: rest =>
    if exported && equal_fold fname name then Some v else struct_lookup_fold name rest
  end.

(** helpers.go getFieldValueByNameFromStruct *)
Definition get_field_by_name (name : str) (sv : rv) : option gv :=
  if is_empty_value sv then None else
  let sv := deref1 sv in
  if rv_if sv then None else
  match rv_v sv with
  | VMap _ _ _ kvs => option_map convert_number (map_lookup_fold name kvs)
  | VStruct fs => option_map convert_unless_string (struct_lookup_fold name fs)
  | _ => None
  end.

Definition elems_of (g : gv) : option (ety * list gv) :=
  match g with
  | VSlice t _ xs => Some (t, xs)
  | VArray t xs => Some (t, xs)
  | _ => None
  end.

Fixpoint filter_map {A B} (f : A -> option B) (l : list A) : list B :=
  match l with
  | [] => []
  | x :: l' => match f x with Some y => y :: filter_map f l' | None => filter_map f l' end
  end.

(** helpers.go getValuesByName *)
Definition get_values_by_name (name : str) (data : gv) : outcome gv :=
  let v := value_of data in
  if is_empty_value v then Err EKeyNotFound else
  let v := deref1 v in
  match rv_v v with
  | VStruct _ | VDec _ =>
    match get_field_by_name name v with
    | Some out => Ok out
    | None => Err EKeyNotFound
    end
  | VSlice t _ xs | VArray t xs =>
    match xs with
    | [] => Err EKeyNotFound
    | x0 :: _ =>
      let fev := deref1 (slot t x0) in
      match rv_v fev with
      | VDec _ => Err EKeyNotFound      (* a decimal.Decimal is a struct to reflect but a number to mpath *)
      | _ =>
      match rkind fev with
      | KdStruct | KdMap =>
        match filter_map (fun x => get_field_by_name name (slot t x)) xs with
        | [] => Err EKeyNotFound
        | slc => Ok (VSlice EAny false slc)
        end
      | _ => Err EKeyNotFound
      end
      end
    end
  | _ => Err EKeyNotFound
  end.

(** opPathIdent.Do *)
Definition do_ident (name : str) (cur : gv) : outcome gv :=
  let v := deref1 (value_of cur) in
  match rv_v v with
  | VMap _ _ _ kvs =>
    match map_lookup_fold name kvs with
    | Some x => Ok (convert_unless_string x)
    | None => Err EKeyNotFound
    end
  | _ => get_values_by_name name cur
  end.

(** helpers.go getAsStructOrSlice: (value, wasStruct) *)
Definition get_as_struct_or_slice (data : gv) : option (gv * bool) :=
  match data with
  | VMap KtStr EAny _ _ => Some (data, true)
  | _ =>
    let v := deref1 (value_of data) in
    match rv_v v with
    | VStruct _ | VDec _ | VMap _ _ _ _ => Some (rv_v v, true)
    | VSlice t _ xs | VArray t xs =>
      match xs with
      | [] => Some (VSlice EAny false [], false)
      | _ => Some (VSlice EAny false xs, false)
      end
    | _ => None
    end
  end.
