(* Model/Conc.v -- lock discipline and pool ownership of the entry points (C12).

   Definitions only.  Three parts:
     1. the action programs (regenerated from the Go source by a separate tool);
     2. the checker: a symbolic executor over all control paths
        ([exec], [check_locked], [check_table]);
     3. the interleaving semantics of N threads over shared mutexes, pool
        objects and package-level variables ([tstep], [step], [run]) and the
        bad states ([Racy], [Shared], [Crash]).
   Proofs are in Proofs/C12.v.  The file depends on the standard library only. *)

From Coq Require Import String List Bool Arith Lia.
Import ListNotations.
Open Scope string_scope.
Open Scope list_scope.

(* ------------------------------------------------------------------ *)
(* 1. Action programs                                                  *)
(* ------------------------------------------------------------------ *)

Inductive act :=
| ALock (m : string) | AUnlock (m : string)          (* mu.Lock() / mu.Unlock() *)
| ADeferUnlock (m : string)                          (* defer mu.Unlock(): runs at every exit of the function *)
| ARead (v : string) | AWrite (v : string)           (* access to a package-level variable (a map read / a map write) *)
| APoolGet (p : string) | APoolPut (p : string)      (* sync.Pool Get / Put *)
| ADeferPoolPut (p : string)                         (* defer pool.Put(x) *)
| AReturn                                            (* an early return (deferred actions then run) *)
| AIf (thn els : list act)                           (* a branch: either side may be taken *)
| ALoop (body : list act)                            (* a loop: the body runs any number of times *)
| ACall (f : string).                                (* call of another entry point whose program is in the table *)
Definition prog := list act.

Definition table := list (string * prog).

Fixpoint lookup (f : string) (T : table) : option prog :=
  match T with
  | [] => None
  | (g, p) :: T' => if String.eqb f g then Some p else lookup f T'
  end.

(* A deferred action: what [defer mu.Unlock()] / [defer pool.Put(x)] leave on
   the defer stack of the running function. *)
Inductive dact := DUnlock (m : string) | DPut (p : string).

Definition act_of_dact (d : dact) : act :=
  match d with DUnlock m => AUnlock m | DPut p => APoolPut p end.

(* ------------------------------------------------------------------ *)
(* 2. The checker                                                      *)
(* ------------------------------------------------------------------ *)

(* The abstract (per-thread) state of the symbolic executor: the mutexes the
   thread holds, the defer stack of the current function (head = runs first),
   and the pools from which the thread currently owns an object (a multiset,
   as a list). *)
Record astate := mkA {
  a_held   : list string;
  a_defers : list dact;
  a_owned  : list string
}.

Definition mem (x : string) (l : list string) : bool := existsb (String.eqb x) l.

Definition remove_all (x : string) (l : list string) : list string :=
  filter (fun y => negb (String.eqb x y)) l.

Fixpoint remove_one (x : string) (l : list string) : list string :=
  match l with
  | [] => []
  | y :: l' => if String.eqb x y then l' else y :: remove_one x l'
  end.

Fixpoint list_eqb {A : Type} (eqb : A -> A -> bool) (l1 l2 : list A) : bool :=
  match l1, l2 with
  | [], [] => true
  | x :: l1', y :: l2' => eqb x y && list_eqb eqb l1' l2'
  | _, _ => false
  end.

Definition dact_eqb (d1 d2 : dact) : bool :=
  match d1, d2 with
  | DUnlock a, DUnlock b => String.eqb a b
  | DPut a, DPut b => String.eqb a b
  | _, _ => false
  end.

Definition astate_eqb (s1 s2 : astate) : bool :=
  list_eqb String.eqb (a_held s1) (a_held s2)
  && list_eqb dact_eqb (a_defers s1) (a_defers s2)
  && list_eqb String.eqb (a_owned s1) (a_owned s2).

Definition amem (s : astate) (l : list astate) : bool := existsb (astate_eqb s) l.

Fixpoint dedupe (l : list astate) : list astate :=
  match l with
  | [] => []
  | s :: l' => if amem s l' then dedupe l' else s :: dedupe l'
  end.

(* Running the deferred actions, LIFO, at an exit of a function.  Fails on an
   unlock of a mutex that is not held or a Put without an owned object. *)
Fixpoint run_defers (d : list dact) (h o : list string)
  : option (list string * list string) :=
  match d with
  | [] => Some (h, o)
  | DUnlock m :: d' => if mem m h then run_defers d' (remove_all m h) o else None
  | DPut p :: d' => if mem p o then run_defers d' h (remove_one p o) else None
  end.

Fixpoint run_all (l : list astate) : option (list (list string * list string)) :=
  match l with
  | [] => Some []
  | s :: l' =>
      match run_defers (a_defers s) (a_held s) (a_owned s), run_all l' with
      | Some x, Some xs => Some (x :: xs)
      | _, _ => None
      end
  end.

(* The access log: one record (variable, mutexes held) per access met. *)
Definition log := list (string * list string).

(* Result of the symbolic execution of a piece of program from one abstract
   state: the set of states in which control falls through its end, the set of
   states in which an [AReturn] was executed (before the deferred actions
   run), and the access log.  [None] = rejected. *)
Definition res := option (list astate * list astate * log).

Fixpoint bind_states (f : astate -> res) (l : list astate) : res :=
  match l with
  | [] => Some ([], [], [])
  | s :: l' =>
      match f s, bind_states f l' with
      | Some (F1, R1, L1), Some (F2, R2, L2) => Some (F1 ++ F2, R1 ++ R2, L1 ++ L2)
      | _, _ => None
      end
  end.

(* [acc v held]: is an access to variable v permitted with these mutexes held *)
Definition acc_check := string -> list string -> bool.

(* [call f st]: the states after a call of entry point f from state st (the
   caller's defer stack restored), and the accesses made; None = rejected *)
Definition callf := string -> astate -> option (list astate * log).

(* The symbolic executor.  Every control path is explored: both sides of
   every AIf; a loop body is executed once from the state at loop entry and
   must fall through in exactly that state (locks, defer stack, owned pool
   objects all unchanged), otherwise the program is rejected.

   [exec_act a st] executes one action; the sequencing of a list of actions
   is the local function [go] (the same function is [exec] below; it has to
   be local because [act] is a nested inductive type). *)
Fixpoint exec_act (acc : acc_check) (call : callf) (a : act) (st : astate) {struct a} : res :=
  let go :=
    fix go (k : prog) (st : astate) {struct k} : res :=
      match k with
      | [] => Some ([st], [], [])
      | a :: k' =>
          match exec_act acc call a st with
          | None => None
          | Some (F1, R1, L1) =>
              match bind_states (go k') F1 with
              | None => None
              | Some (F2, R2, L2) => Some (dedupe F2, dedupe (R1 ++ R2), L1 ++ L2)
              end
          end
      end in
  match a with
  | ALock m =>
      (* (b) Go mutexes are not reentrant *)
      if mem m (a_held st) then None
      else Some ([mkA (m :: a_held st) (a_defers st) (a_owned st)], [], [])
  | AUnlock m =>
      (* (c) unlock only what is held *)
      if mem m (a_held st)
      then Some ([mkA (remove_all m (a_held st)) (a_defers st) (a_owned st)], [], [])
      else None
  | ADeferUnlock m =>
      Some ([mkA (a_held st) (DUnlock m :: a_defers st) (a_owned st)], [], [])
  | ARead v | AWrite v =>
      (* (a) accesses are guarded *)
      if acc v (a_held st) then Some ([st], [], [(v, a_held st)]) else None
  | APoolGet p =>
      Some ([mkA (a_held st) (a_defers st) (p :: a_owned st)], [], [])
  | APoolPut p =>
      (* (e) no Put without a prior Get *)
      if mem p (a_owned st)
      then Some ([mkA (a_held st) (a_defers st) (remove_one p (a_owned st))], [], [])
      else None
  | ADeferPoolPut p =>
      Some ([mkA (a_held st) (DPut p :: a_defers st) (a_owned st)], [], [])
  | AReturn => Some ([], [st], [])
  | AIf thn els =>
      match go thn st, go els st with
      | Some (F1, R1, L1), Some (F2, R2, L2) =>
          Some (dedupe (F1 ++ F2), dedupe (R1 ++ R2), L1 ++ L2)
      | _, _ => None
      end
  | ALoop body =>
      match go body st with
      | Some (F, R, L) => if forallb (astate_eqb st) F then Some ([st], R, L) else None
      | None => None
      end
  | ACall f =>
      match call f st with
      | Some (F, L) => Some (F, [], L)
      | None => None
      end
  end.

Definition exec (acc : acc_check) (call : callf) : prog -> astate -> res :=
  fix go (k : prog) (st : astate) {struct k} : res :=
    match k with
    | [] => Some ([st], [], [])
    | a :: k' =>
        match exec_act acc call a st with
        | None => None
        | Some (F1, R1, L1) =>
            match bind_states (go k') F1 with
            | None => None
            | Some (F2, R2, L2) => Some (dedupe F2, dedupe (R1 ++ R2), L1 ++ L2)
            end
        end
    end.

(* Calls: the callee's program is taken from the table and executed with an
   empty defer stack; at each of its exits (fall-through or AReturn) its
   deferred actions run; the caller continues with its own defer stack.
   [fuel] bounds the call depth; a recursive table is rejected. *)
Fixpoint call_n (fuel : nat) (T : table) (acc : acc_check) : callf :=
  match fuel with
  | 0 => fun _ _ => None
  | S n => fun f st =>
      match lookup f T with
      | None => None
      | Some q =>
          match exec acc (call_n n T acc) q (mkA (a_held st) [] (a_owned st)) with
          | None => None
          | Some (F, R, L) =>
              match run_all (F ++ R) with
              | None => None
              | Some xs =>
                  Some (dedupe (map (fun x => mkA (fst x) (a_defers st) (snd x)) xs), L)
              end
          end
      end
  end.

Definition exit_clean (x : list string * list string) : bool :=
  match x with
  | ([], []) => true
  | _ => false
  end.

(* A whole entry point, run by a fresh thread: (d) at every exit, after the
   deferred actions, no mutex is held and (e) no pool object is still owned.
   Returns the access log. *)
Definition exec_top (fuel : nat) (T : table) (acc : acc_check) (p : prog) : option log :=
  match exec acc (call_n fuel T acc) p (mkA [] [] []) with
  | None => None
  | Some (F, R, L) =>
      match run_all (F ++ R) with
      | None => None
      | Some xs => if forallb exit_clean xs then Some L else None
      end
  end.

(* First pass: every access happens with at least one mutex held. *)
Definition acc_any : acc_check :=
  fun _ h => match h with [] => false | _ => true end.

(* The guard of a variable: one mutex that is held at all its accesses. *)
Definition guard := string -> option string.

Definition acc_guard (G : guard) : acc_check :=
  fun v h => match G v with Some m => mem m h | None => false end.

(* For each v: the intersection of the held-sets at its accesses, in the
   order of the first access; its first element, if any, is the guard. *)
Definition guard_of (L : log) : guard :=
  fun v =>
    match filter (fun e => String.eqb v (fst e)) L with
    | [] => None
    | e0 :: rest =>
        hd_error (filter (fun m => forallb (fun e => mem m (snd e)) rest) (snd e0))
    end.

Fixpoint logs_of (fuel : nat) (T : table) (ps : table) : option log :=
  match ps with
  | [] => Some []
  | fp :: ps' =>
      match exec_top fuel T acc_any (snd fp), logs_of fuel T ps' with
      | Some L1, Some L2 => Some (L1 ++ L2)
      | _, _ => None
      end
  end.

Definition check_prog_with (fuel : nat) (T : table) (G : guard) (p : prog) : bool :=
  match exec_top fuel T (acc_guard G) p with Some _ => true | None => false end.

Definition check_table_with (fuel : nat) (T : table) (G : guard) : bool :=
  forallb (fun fp => check_prog_with fuel T G (snd fp)) T.

(* All entry points of the table, with one common guard per variable across
   the whole table. *)
Definition check_table (fuel : nat) (T : table) : bool :=
  match logs_of fuel T T with
  | None => false
  | Some L => check_table_with fuel T (guard_of L)
  end.

(* One program (calls resolved in T), with one common guard per variable
   across the program and everything it calls. *)
Definition check_locked (fuel : nat) (T : table) (p : prog) : bool :=
  match exec_top fuel T acc_any p with
  | None => false
  | Some L => check_prog_with fuel T (guard_of L) p
  end.

(* ------------------------------------------------------------------ *)
(* 3. Interleaving semantics                                           *)
(* ------------------------------------------------------------------ *)

(* A call frame: the remaining control of the function and its defer stack. *)
Definition frame := (prog * list dact)%type.

(* A pool object: the pool it belongs to and a globally unique identity. *)
Definition obj := (string * nat)%type.

Record thread := mkT {
  t_frames : list frame;               (* call stack, innermost first; [] = finished *)
  t_acc    : option (bool * string);   (* access in progress: (is_write, variable) *)
  t_owned  : list obj                  (* pool objects held between Get and Put *)
}.

Record shared := mkS {
  s_mtx  : string -> option nat;       (* None = free, Some i = held by thread i *)
  s_free : list obj;                   (* objects lying in the pools *)
  s_next : nat                         (* next fresh object identity *)
}.

Record gstate := mkG {
  g_thr : list thread;
  g_sh  : shared
}.

Definition set_mtx (mtx : string -> option nat) (m : string) (o : option nat)
  : string -> option nat :=
  fun m' => if String.eqb m' m then o else mtx m'.

(* the first owned object of pool p, and the rest *)
Fixpoint take_obj (p : string) (ow : list obj) : option (obj * list obj) :=
  match ow with
  | [] => None
  | x :: ow' =>
      if String.eqb p (fst x) then Some (x, ow')
      else match take_obj p ow' with
           | Some (y, r) => Some (y, x :: r)
           | None => None
           end
  end.

Fixpoint upd {A : Type} (l : list A) (i : nat) (x : A) : list A :=
  match l, i with
  | [], _ => []
  | _ :: l', 0 => x :: l'
  | y :: l', S i' => y :: upd l' i' x
  end.

(* One step of thread i.  Every step except the end of an access requires
   that no access is in progress.  Nondeterminism (branches, loops, the pool
   handing out a pooled or a new object) is a choice between rules. *)
Inductive tstep (T : table) (i : nat) : thread -> shared -> thread -> shared -> Prop :=
| TLock m k d rest ow sh :
    s_mtx sh m = None ->                               (* enabled only when free *)
    tstep T i (mkT ((ALock m :: k, d) :: rest) None ow) sh
              (mkT ((k, d) :: rest) None ow)
              (mkS (set_mtx (s_mtx sh) m (Some i)) (s_free sh) (s_next sh))
| TUnlock m k d rest ow sh :
    s_mtx sh m = Some i ->                             (* enabled only when held by i *)
    tstep T i (mkT ((AUnlock m :: k, d) :: rest) None ow) sh
              (mkT ((k, d) :: rest) None ow)
              (mkS (set_mtx (s_mtx sh) m None) (s_free sh) (s_next sh))
| TDeferUnlock m k d rest ow sh :
    tstep T i (mkT ((ADeferUnlock m :: k, d) :: rest) None ow) sh
              (mkT ((k, DUnlock m :: d) :: rest) None ow) sh
| TReadBegin v k d rest ow sh :
    tstep T i (mkT ((ARead v :: k, d) :: rest) None ow) sh
              (mkT ((k, d) :: rest) (Some (false, v)) ow) sh
| TWriteBegin v k d rest ow sh :
    tstep T i (mkT ((AWrite v :: k, d) :: rest) None ow) sh
              (mkT ((k, d) :: rest) (Some (true, v)) ow) sh
| TAccEnd fs a ow sh :
    tstep T i (mkT fs (Some a) ow) sh (mkT fs None ow) sh
| TGetPooled p n k d rest ow sh l1 l2 :
    s_free sh = l1 ++ (p, n) :: l2 ->                  (* Get removes an object ... *)
    tstep T i (mkT ((APoolGet p :: k, d) :: rest) None ow) sh
              (mkT ((k, d) :: rest) None ((p, n) :: ow))
              (mkS (s_mtx sh) (l1 ++ l2) (s_next sh))
| TGetNew p k d rest ow sh :                           (* ... or creates one *)
    tstep T i (mkT ((APoolGet p :: k, d) :: rest) None ow) sh
              (mkT ((k, d) :: rest) None ((p, s_next sh) :: ow))
              (mkS (s_mtx sh) (s_free sh) (S (s_next sh)))
| TPut p k d rest ow sh x ow' :
    take_obj p ow = Some (x, ow') ->
    tstep T i (mkT ((APoolPut p :: k, d) :: rest) None ow) sh
              (mkT ((k, d) :: rest) None ow')
              (mkS (s_mtx sh) (x :: s_free sh) (s_next sh))
| TDeferPut p k d rest ow sh :
    tstep T i (mkT ((ADeferPoolPut p :: k, d) :: rest) None ow) sh
              (mkT ((k, DPut p :: d) :: rest) None ow) sh
| TReturn k d rest ow sh :                             (* drop the rest of the body *)
    tstep T i (mkT ((AReturn :: k, d) :: rest) None ow) sh
              (mkT (([], d) :: rest) None ow) sh
| TIfThen thn els k d rest ow sh :
    tstep T i (mkT ((AIf thn els :: k, d) :: rest) None ow) sh
              (mkT ((thn ++ k, d) :: rest) None ow) sh
| TIfElse thn els k d rest ow sh :
    tstep T i (mkT ((AIf thn els :: k, d) :: rest) None ow) sh
              (mkT ((els ++ k, d) :: rest) None ow) sh
| TLoopExit body k d rest ow sh :
    tstep T i (mkT ((ALoop body :: k, d) :: rest) None ow) sh
              (mkT ((k, d) :: rest) None ow) sh
| TLoopIter body k d rest ow sh :
    tstep T i (mkT ((ALoop body :: k, d) :: rest) None ow) sh
              (mkT ((body ++ ALoop body :: k, d) :: rest) None ow) sh
| TCall f q k d rest ow sh :
    lookup f T = Some q ->
    tstep T i (mkT ((ACall f :: k, d) :: rest) None ow) sh
              (mkT ((q, []) :: (k, d) :: rest) None ow) sh
| TDeferRun dx d rest ow sh :                          (* at the end of the body: LIFO *)
    tstep T i (mkT (([], dx :: d) :: rest) None ow) sh
              (mkT (([act_of_dact dx], d) :: rest) None ow) sh
| TPop rest ow sh :                                    (* the function is done *)
    tstep T i (mkT (([], []) :: rest) None ow) sh
              (mkT rest None ow) sh.

Inductive step (T : table) : gstate -> nat -> gstate -> Prop :=
| step_intro g i t t' sh' :
    nth_error (g_thr g) i = Some t ->
    tstep T i t (g_sh g) t' sh' ->
    step T g i (mkG (upd (g_thr g) i t') sh').

(* A schedule is the list of the thread ids that move, in order. *)
Inductive run (T : table) : gstate -> list nat -> gstate -> Prop :=
| run_nil g : run T g [] g
| run_cons g i g1 sched g2 :
    step T g i g1 -> run T g1 sched g2 -> run T g (i :: sched) g2.

Definition thread_of_prog (p : prog) : thread := mkT [(p, [])] None [].

Definition init_progs (ps : list prog) : gstate :=
  mkG (map thread_of_prog ps) (mkS (fun _ => None) [] 0).

(* threads named after entry points; a name absent from the table yields a
   thread that is finished from the start *)
Definition thread_of_name (T : table) (f : string) : thread :=
  match lookup f T with
  | Some p => thread_of_prog p
  | None => mkT [] None []
  end.

Definition init (T : table) (names : list string) : gstate :=
  mkG (map (thread_of_name T) names) (mkS (fun _ => None) [] 0).

(* Two different threads are both inside an access to the same variable and
   one of the accesses is a write. *)
Definition Racy (g : gstate) : Prop :=
  exists i j ti tj w1 w2 v,
    i <> j /\
    nth_error (g_thr g) i = Some ti /\ nth_error (g_thr g) j = Some tj /\
    t_acc ti = Some (w1, v) /\ t_acc tj = Some (w2, v) /\
    (w1 = true \/ w2 = true).

(* The same pool object is held by two threads at once. *)
Definition Shared (g : gstate) : Prop :=
  exists i j ti tj x,
    i <> j /\
    nth_error (g_thr g) i = Some ti /\ nth_error (g_thr g) j = Some tj /\
    In x (t_owned ti) /\ In x (t_owned tj).

(* A thread is about to do something that crashes (or is undefined): unlock a
   mutex it does not hold, Put without owning an object of that pool, call
   an entry point that is not in the table.  (Waiting for a Lock is not a
   crash.) *)
Definition crash_thread (T : table) (i : nat) (t : thread) (sh : shared) : Prop :=
  t_acc t = None /\
  match t_frames t with
  | (AUnlock m :: _, _) :: _ => s_mtx sh m <> Some i
  | (APoolPut p :: _, _) :: _ => take_obj p (t_owned t) = None
  | (ACall f :: _, _) :: _ => lookup f T = None
  | _ => False
  end.

Definition Crash (T : table) (g : gstate) : Prop :=
  exists i t, nth_error (g_thr g) i = Some t /\ crash_thread T i t (g_sh g).

Definition finished (t : thread) : Prop := t_frames t = [].

(* thread i can move *)
Definition can_move (T : table) (g : gstate) (i : nat) : Prop :=
  exists g', step T g i g'.

(* Syntactic condition "the only mutex ever locked is m0" *)
Fixpoint act_locks_only (m0 : string) (a : act) : bool :=
  match a with
  | ALock m => String.eqb m m0
  | AIf thn els => forallb (act_locks_only m0) thn && forallb (act_locks_only m0) els
  | ALoop body => forallb (act_locks_only m0) body
  | _ => true
  end.

Definition prog_locks_only (m0 : string) (p : prog) : bool :=
  forallb (act_locks_only m0) p.

Definition table_locks_only (m0 : string) (T : table) : bool :=
  forallb (fun fp => prog_locks_only m0 (snd fp)) T.
