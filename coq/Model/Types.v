(* Types.v — parameter types and function descriptors (funcs.go). *)
From Mpath.Model Require Import Base.

Inductive ptype := PT_String | PT_Bytes | PT_Boolean | PT_Number | PT_Any | PT_Object | PT_Root | PT_ElementRoot.
Inductive iotype := IO_Single | IO_Array | IO_Variadic.

Definition ptype_eqb (a b : ptype) : bool :=
  match a, b with
  | PT_String, PT_String | PT_Bytes, PT_Bytes | PT_Boolean, PT_Boolean | PT_Number, PT_Number
  | PT_Any, PT_Any | PT_Object, PT_Object | PT_Root, PT_Root | PT_ElementRoot, PT_ElementRoot => true
  | _, _ => false
  end.
Definition iotype_eqb (a b : iotype) : bool :=
  match a, b with
  | IO_Single, IO_Single | IO_Array, IO_Array | IO_Variadic, IO_Variadic => true
  | _, _ => false
  end.

Definition ioty := (ptype * iotype)%type.

Record fdesc := mkFdesc {
  fd_key : string;            (* key in funcMap *)
  fd_name : string;           (* descriptor Name (the parser looks functions up by this) *)
  fd_on : ioty;               (* ValidOn *)
  fd_ret : ioty;              (* Returns *)
  fd_params : list ioty;      (* Params *)
  fd_known : bool             (* ReturnsKnownValues *)
}.
