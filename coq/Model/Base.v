(* Base.v — strings as byte lists, outcomes, small list utilities.
   No proofs here: the model must still run when a proof breaks. *)
From Coq Require Export String Ascii List ZArith Bool Lia.
From Coq Require Import DecimalString.
Export ListNotations.
Open Scope string_scope.
Open Scope list_scope.
Open Scope Z_scope.

(** * Go strings are byte sequences *)
Definition str := list ascii.
Definition bs (s : string) : str := list_ascii_of_string s.

Fixpoint str_eqb (a b : str) : bool :=
  match a, b with
  | [], [] => true
  | x :: a', y :: b' => Ascii.eqb x y && str_eqb a' b'
  | _, _ => false
  end.

Definition byte (c : ascii) : Z := Z.of_N (N_of_ascii c).
Definition chr (z : Z) : ascii := ascii_of_N (Z.to_N z).

Definition is_upper (c : ascii) : bool := (65 <=? byte c) && (byte c <=? 90).
Definition is_digit (c : ascii) : bool := (48 <=? byte c) && (byte c <=? 57).
Definition lower_ascii (c : ascii) : ascii := if is_upper c then chr (byte c + 32) else c.
Definition str_lower (s : str) : str := map lower_ascii s.

(** strings.EqualFold restricted to ASCII folding (DESIGN §3.4: keys never
    contain U+212A or U+017F, the two non-ASCII runes that fold onto letters). *)
Definition equal_fold (a b : str) : bool := str_eqb (str_lower a) (str_lower b).

Fixpoint has_prefix (s p : str) : bool :=
  match p, s with
  | [], _ => true
  | c :: p', d :: s' => Ascii.eqb c d && has_prefix s' p'
  | _ :: _, [] => false
  end.

Definition has_suffix (s p : str) : bool := has_prefix (rev s) (rev p).

Fixpoint contains (s n : str) : bool :=
  has_prefix s n || match s with [] => false | _ :: s' => contains s' n end.

(** strings.ReplaceAll for a non-empty search string: leftmost, non-overlapping. *)
Fixpoint replace_all_fuel (fuel : nat) (s f r : str) : str :=
  match fuel with
  | O => s
  | S k =>
    match s with
    | [] => []
    | c :: s' =>
      if has_prefix s f then r ++ replace_all_fuel k (skipn (length f) s) f r
      else c :: replace_all_fuel k s' f r
    end
  end.
Definition replace_all (s f r : str) : str := replace_all_fuel (S (length s)) s f r.

Definition last_n {A} (n : nat) (l : list A) : list A := skipn (length l - n) l.

(** * Decimal rendering of integers (for the wire format and Decimal.String) *)
Definition show_Z (z : Z) : str := bs (NilZero.string_of_int (Z.to_int z)).
Definition show_nat (n : nat) : str := show_Z (Z.of_nat n).

Fixpoint digits_val (acc : Z) (s : str) : option Z :=
  match s with
  | [] => Some acc
  | c :: s' => if is_digit c then digits_val (acc * 10 + (byte c - 48)) s' else None
  end.

(** strconv.ParseInt(s, 10, _) without the range check: optional sign, >= 1 digit. *)
Definition parse_int (s : str) : option Z :=
  match s with
  | [] => None
  | c :: s' =>
    if Ascii.eqb c "-"%char then match s' with [] => None | _ => option_map Z.opp (digits_val 0 s') end
    else if Ascii.eqb c "+"%char then match s' with [] => None | _ => digits_val 0 s' end
    else digits_val 0 s
  end.

(** * Outcomes.  Panic is produced only by primitives that panic in Go. *)
Inductive err :=
| EKeyNotFound                 (* errors.Is(err, ErrKeyNotFound) *)
| EOther (tag : string).       (* any other non-nil error; the tag is informational *)

Inductive outcome (A : Type) :=
| Ok (a : A)
| Err (e : err)
| Panic (msg : string)
| OutOfFuel
| Declined (why : string).   (* outside the modelled fragment (oracle miss, exotic numeral): the case is set aside *)
Arguments Ok {A} a.
Arguments Err {A} e.
Arguments Panic {A} msg.
Arguments OutOfFuel {A}.
Arguments Declined {A} why.

Definition bind {A B} (o : outcome A) (f : A -> outcome B) : outcome B :=
  match o with
  | Ok a => f a
  | Err e => Err e
  | Panic m => Panic m
  | OutOfFuel => OutOfFuel
  | Declined w => Declined w
  end.
Notation "'do' x <- o ; k" := (bind o (fun x => k)) (at level 200, x pattern, o at level 100, k at level 200).

Definition fail {A} (tag : string) : outcome A := Err (EOther tag).

Fixpoint find_first {A} (p : A -> bool) (l : list A) : option A :=
  match l with [] => None | x :: l' => if p x then Some x else find_first p l' end.

Fixpoint mapM {A B} (f : A -> outcome B) (l : list A) : outcome (list B) :=
  match l with
  | [] => Ok []
  | x :: l' => do y <- f x; do ys <- mapM f l'; Ok (y :: ys)
  end.

Fixpoint str_mem (s : str) (l : list str) : bool :=
  match l with [] => false | x :: l' => str_eqb s x || str_mem s l' end.

Fixpoint concat_str (sep : str) (l : list str) : str :=
  match l with
  | [] => []
  | [x] => x
  | x :: l' => x ++ sep ++ concat_str sep l'
  end.
