(* Blocked.v — executable model of getBlockedRootFields (cue.go).
   No proofs here: the model must still run when a proof breaks.

   The CUE schema is abstracted by two things:
     - [fields]: what getAvailableFieldsForValue(rootValue, nil) returns, i.e. every
       root field in schema order, `_dependencies` excluded;
     - [deps d]: findValueAtPath(rootValue, {d}) followed by
       getConcreteValuesForListOfStringValueAtPath(_, {"_dependencies"}):
       [Ok l] with the list in source order, [Err _] when the root field does not
       exist or has no usable `_dependencies` list.
   Go maps (validFields, visited) are modelled as lists used as sets. *)
From Mpath.Model Require Import Base.
From Mpath.Generated Require Import BasePaths.

Definition deps_fn := str -> outcome (list str).

(** The lookup is a pure function of the schema: it either yields a list or an
    error.  Any other answer of the oracle is reported as an error, so that the
    only source of [OutOfFuel] in this file is the level loop itself. *)
Definition dep_list (deps : deps_fn) (d : str) : outcome (list str) :=
  match deps d with
  | Ok l => Ok l
  | Err e => Err e
  | _ => fail "dependencies lookup"
  end.

(** validFields[dep] = struct{}{} *)
Definition set_add (s : str) (v : list str) : list str :=
  if str_mem s v then v else s :: v.

(** for _, dep := range l { validFields[dep] = struct{}{} } *)
Definition set_add_all (l v : list str) : list str :=
  fold_left (fun acc d => set_add d acc) l v.

(** One pass of the inner loop `for _, d := range dependencies`.
    State: visited, validFields, nextDependencies. *)
Fixpoint level (deps : deps_fn) (ds visited valid next : list str)
  : outcome (list str * list str * list str) :=
  match ds with
  | [] => Ok (visited, valid, next)
  | d :: ds' =>
    if str_mem d visited then level deps ds' visited valid next   (* continue *)
    else
      match dep_list deps d with
      | Ok l => level deps ds' (d :: visited) (set_add_all l valid) (next ++ l)
      | Err e => Err e
      | Panic m => Panic m
      | OutOfFuel => OutOfFuel
      | Declined w => Declined w
      end
  end.

(** The outer loop `for len(dependencies) > 0`.  The emptiness test comes
    first, as in Go; one unit of fuel is spent per non-empty level. *)
Fixpoint walk (fuel : nat) (deps : deps_fn) (ds visited valid : list str)
  : outcome (list str) :=
  match ds with
  | [] => Ok valid
  | _ :: _ =>
    match fuel with
    | O => OutOfFuel
    | S k =>
      match level deps ds visited valid [] with
      | Ok (visited', valid', next) => walk k deps next visited' valid'
      | Err e => Err e
      | Panic m => Panic m
      | OutOfFuel => OutOfFuel
      | Declined w => Declined w
      end
    end
  end.

(** getBlockedRootFields with the base paths and the name of the input step
    as parameters. *)
Definition get_blocked_gen (base : list str) (input : str)
    (fuel : nat) (deps : deps_fn) (fields : list str) (cur : str)
  : outcome (list str) :=
  (* findValueAtPath(rootValue, {cur}) and the `_dependencies` of cur *)
  do l0 <- dep_list deps cur;
  (* validFields := {cur} ∪ base paths; then the direct dependencies *)
  let valid0 := set_add_all l0 (cur :: base) in
  do valid <- walk fuel deps l0 [] valid0;
  Ok ((if str_eqb cur input then [] else [cur])
        ++ filter (fun f => negb (str_mem f valid)) fields).

Definition get_blocked (fuel : nat) (deps : deps_fn) (fields : list str) (cur : str)
  : outcome (list str) :=
  get_blocked_gen base_valid_fields BP_Input fuel deps fields cur.

(** A fuel that always suffices when only root fields have dependency lists:
    every non-empty level but the last one visits at least one new root field. *)
Definition blocked_fuel (fields : list str) : nat := (2 + length fields)%nat.
