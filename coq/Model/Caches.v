(* Caches.v — CueValidate's two package-level caches (cue.go: mpathOpCache,
   cueValueCache) as a state machine.  The parser, the CUE compiler and the
   validation walk are parameters: pure functions of their arguments (the
   parser is Model/Parser.v; cuelang is trusted to be a function of the
   schema text).  No proofs here. *)
From Mpath.Model Require Import Base.

Section Caches.
Variables OP CV R : Type.
Variable parse : str -> outcome OP.
Variable compile : str -> outcome CV.
Variable validate : OP -> CV -> str -> R.          (* blocked fields + Validate walk + rendering *)

Inductive cv_result := CVMissing | CVParseError (e : err) | CVCompileError (e : err) | CVDone (r : R) | CVAbort.

Record caches := mkCaches { c_ops : list (str * OP); c_vals : list (str * CV) }.
Definition empty_caches : caches := mkCaches [] [].

Fixpoint cache_get {A} (k : str) (l : list (str * A)) : option A :=
  match l with [] => None | (k', v) :: l' => if str_eqb k' k then Some v else cache_get k l' end.

Definition is_empty_str (s : str) : bool := match s with [] => true | _ => false end.

(** CueValidate(query, cueFile, currentPath): the cache lookups and fills in program order *)
Definition cv_step (c : caches) (call : str * str * str) : caches * cv_result :=
  let '(q, schema, cur) := call in
  if is_empty_str q || is_empty_str schema then (c, CVMissing) else
  let '(c1, rop) :=
    match cache_get q (c_ops c) with
    | Some op => (c, Ok op)
    | None => match parse q with
              | Ok op => (mkCaches ((q, op) :: c_ops c) (c_vals c), Ok op)
              | other => (c, other)
              end
    end in
  match rop with
  | Ok op =>
    let '(c2, rcv) :=
      match cache_get schema (c_vals c1) with
      | Some v => (c1, Ok v)
      | None => match compile schema with
                | Ok v => (mkCaches (c_ops c1) ((schema, v) :: c_vals c1), Ok v)
                | other => (c1, other)
                end
      end in
    match rcv with
    | Ok v => (c2, CVDone (validate op v cur))
    | Err e => (c2, CVCompileError e)
    | _ => (c2, CVAbort)
    end
  | Err e => (c1, CVParseError e)
  | _ => (c1, CVAbort)
  end.

Definition cv_run (history : list (str * str * str)) (c : caches) : caches :=
  fold_left (fun c call => fst (cv_step c call)) history c.

(** the call made first in a fresh process *)
Definition cv_fresh (call : str * str * str) : cv_result := snd (cv_step empty_caches call).

End Caches.
