(* Spec/Logic.v — what a logical group denotes. *)
From Coq Require Import List Bool.
Import ListNotations.

(** conjunction / disjunction of the operand values; true for an empty AND,
    false for an empty OR *)
Definition group_value (is_and : bool) (bs : list bool) : bool :=
  if is_and then forallb (fun b => b) bs else existsb (fun b => b) bs.
