(* Walk.v — what CueValidate should answer for a path of plain keys (C13).

   The schema is walked key by key.  In a struct a key must name a declared
   field — regular, optional `?`, required `!`, quoted or hidden; definitions
   are not fields.  An open struct (`...`) and `_` accept any further key as
   Any.  A key cannot step into a primitive nor across a list.  The answer for
   an accepted path is the kind of the final field. *)
From Mpath.Model Require Import Base Types Cue.

Inductive reason := undeclared | into_primitive | across_list.
Inductive verdict := Accept (ty : ptype * iotype) | Reject (r : reason).

(** the field a key names *)
Fixpoint declared (k : str) (fs : list (flabel * cty)) : option cty :=
  match fs with
  | [] => None
  | (l, t) :: rest =>
    if str_eqb (fl_name l) k && negb (fform_eqb (fl_form l) FDef) then Some t else declared k rest
  end.

(** the kind reported for a field of type [t] *)
Fixpoint kind_of (t : cty) : ptype * iotype :=
  match t with
  | CStr | CBytes => (PT_String, IO_Single)
  | CBool => (PT_Boolean, IO_Single)
  | CInt | CFloat | CNumber => (PT_Number, IO_Single)
  | CTop => (PT_Any, IO_Single)
  | CStruct _ _ => (PT_Object, IO_Single)
  | CList _ e => (fst (kind_of e), IO_Array)
  | CDeps _ => (PT_String, IO_Array)
  end.

Definition any_forever : verdict := Accept (PT_Any, IO_Single).

Fixpoint walk (t : cty) (ks : list str) : verdict :=
  match ks with
  | [] => Accept (kind_of t)
  | k :: rest =>
    match t with
    | CStruct open fs =>
      match declared k fs with
      | Some t' => walk t' rest
      | None => if open then any_forever else Reject undeclared
      end
    | CTop => any_forever
    | CList _ _ | CDeps _ => Reject across_list
    | CStr | CBytes | CBool | CInt | CFloat | CNumber => Reject into_primitive
    end
  end.

(** * The fragment the property quantifies over (decidable) *)

Fixpoint distinct (l : list str) : bool :=
  match l with [] => true | x :: r => negb (str_mem x r) && distinct r end.

(** a hidden label is an identifier that starts with `_` (and so has no `-`) *)
Definition label_ok (l : flabel) : bool :=
  match fl_form l with
  | FHidden => has_prefix (fl_name l) (bs "_") && valid_ident (fl_name l) && negb (contains (fl_name l) (bs "-"))
  | _ => true
  end.

Definition is_list (t : cty) : bool :=
  match t with CList _ _ | CDeps _ => true | _ => false end.

(** labels distinct in every struct, hidden labels well-formed, no list of
    lists, no empty list literal *)
Fixpoint wf (t : cty) : bool :=
  match t with
  | CStruct _ fs =>
    distinct (map (fun lt => fl_name (fst lt)) fs) && forallb (fun lt => label_ok (fst lt)) fs
    && (fix all (fs : list (flabel * cty)) : bool :=
          match fs with [] => true | (_, t') :: r => wf t' && all r end) fs
  | CList _ e => negb (is_list e) && wf e
  | CDeps l => match l with [] => false | _ :: _ => true end
  | _ => true
  end.

(** a CUE file is a struct *)
Definition wf_schema (t : cty) : bool :=
  match t with CStruct _ _ => wf t | _ => false end.

(** no key differs from a label declared where it is applied only by letter
    case (left unspecified by the property: evaluation folds case, the schema
    does not) *)
Definition case_variant (k : str) (fs : list (flabel * cty)) : bool :=
  existsb (fun lt => equal_fold (fl_name (fst lt)) k && negb (str_eqb (fl_name (fst lt)) k)) fs.

Fixpoint no_case_variant (t : cty) (ks : list str) : bool :=
  match ks, t with
  | k :: rest, CStruct _ fs =>
    negb (case_variant k fs) && match declared k fs with Some t' => no_case_variant t' rest | None => true end
  | _, _ => true
  end.
