(* Reach.v — which root fields a workflow step may read. *)
From Mpath.Model Require Import Base Blocked.

(** [b] is listed in the `_dependencies` of [a]. *)
Definition dep (deps : deps_fn) (a b : str) : Prop :=
  exists l, deps a = Ok l /\ In b l.

(** Transitive closure of [dep deps] (one or more edges). *)
Inductive reach (deps : deps_fn) : str -> str -> Prop :=
| reach_step a b : dep deps a b -> reach deps a b
| reach_trans a b c : dep deps a b -> reach deps b c -> reach deps a c.

(** Step [cur] may read root field [f]: the base paths, the steps it depends on
    (transitively), and itself only when it is the input step. *)
Definition allowed (deps : deps_fn) (base : list str) (input : str) (cur f : str) : Prop :=
  In f base \/ (f = cur /\ cur = input) \/ (f <> cur /\ reach deps cur f).
