(* Spec/Json.v — JSON-like documents and what a key path denotes on them. *)
From Mpath.Model Require Import Base Dec.

Inductive jv :=
| JNull
| JBool (b : bool)
| JNum (d : dec)                 (* canonical: a [dnorm] image, so equal values are equal terms *)
| JStr (s : str)
| JArr (xs : list jv)
| JObj (kvs : list (str * jv)).

Inductive lres := Found (v : jv) | KeyNotFound | OnNull.

(** the first field whose name equals [k] up to letter case *)
Fixpoint field (k : str) (kvs : list (str * jv)) : option jv :=
  match kvs with
  | [] => None
  | (k', v) :: rest => if equal_fold k' k then Some v else field k rest
  end.

Definition field_of (k : str) (v : jv) : option jv :=
  match v with JObj kvs => field k kvs | _ => None end.

(** the values [f] yields on the elements that have one, in order *)
Fixpoint collect (f : jv -> option jv) (xs : list jv) : list jv :=
  match xs with
  | [] => []
  | x :: rest => match f x with Some y => y :: collect f rest | None => collect f rest end
  end.

(** one key applied to one value *)
Definition lookup1 (k : str) (v : jv) : lres :=
  match v with
  | JObj kvs => match field k kvs with Some x => Found x | None => KeyNotFound end
  | JArr ((JObj _ :: _) as xs) =>
      match collect (field_of k) xs with [] => KeyNotFound | ys => Found (JArr ys) end
  | JNull => OnNull
  | _ => KeyNotFound
  end.

(** a key path, left to right; a null met while keys remain is [OnNull],
    a null stored under the last key is [Found JNull] *)
Fixpoint lookup (v : jv) (ks : list str) : lres :=
  match ks with
  | [] => Found v
  | k :: rest => match lookup1 k v with Found v' => lookup v' rest | r => r end
  end.

(** sibling keys pairwise distinct up to letter case, in every object *)
Fixpoint keys_distinct (ks : list str) : Prop :=
  match ks with
  | [] => True
  | k :: rest => (forall k', In k' rest -> equal_fold k k' = false) /\ keys_distinct rest
  end.

Fixpoint fold_distinct (v : jv) : Prop :=
  match v with
  | JArr xs => (fix all (l : list jv) : Prop :=
                  match l with [] => True | x :: r => fold_distinct x /\ all r end) xs
  | JObj kvs => keys_distinct (map fst kvs) /\
                (fix all (l : list (str * jv)) : Prop :=
                   match l with [] => True | (_, x) :: r => fold_distinct x /\ all r end) kvs
  | _ => True
  end.
