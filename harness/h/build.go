package h

import (
	"fmt"
	"math"
	"math/big"
	"reflect"
	"strconv"
	"strings"
	"unsafe"

	"github.com/shopspring/decimal"
)

// Named types over the basic kinds.
type (
	NBool    bool
	NString  string
	NInt     int
	NInt8    int8
	NInt16   int16
	NInt32   int32
	NInt64   int64
	NUint    uint
	NUint8   uint8
	NUint16  uint16
	NUint32  uint32
	NUint64  uint64
	NFloat32 float32
	NFloat64 float64
)

// Some of the named numeric types have methods, as time.Duration, time.Month or an enum with a
// String method have: a number is a number whatever methods its type carries.
func (n NInt) String() string                 { return "NInt(" + strconv.FormatInt(int64(n), 10) + ")" }
func (n NInt64) String() string               { return "NInt64(" + strconv.FormatInt(int64(n), 10) + ")" }
func (n NUint8) String() string               { return "NUint8(" + strconv.FormatUint(uint64(n), 10) + ")" }
func (n NFloat64) String() string             { return "NFloat64" }
func (n NInt16) MarshalText() ([]byte, error) { return []byte("n16"), nil }

// Predeclared struct types with unexported fields (reflect.StructOf cannot make them).
type UnexpA struct {
	A any
	b any
}
type UnexpOnly struct {
	a any
}

// an exported field and an unexported twin that differs from it only in letter case
type UnexpTwin struct {
	name any
	Name any
	ID   any
	id   any
}

var (
	tAny     = reflect.TypeOf((*any)(nil)).Elem()
	tDecimal = reflect.TypeOf(decimal.Decimal{})
)

var basicTypes = map[string][2]reflect.Type{
	"int": {reflect.TypeOf(int(0)), reflect.TypeOf(NInt(0))}, "int8": {reflect.TypeOf(int8(0)), reflect.TypeOf(NInt8(0))},
	"int16": {reflect.TypeOf(int16(0)), reflect.TypeOf(NInt16(0))}, "int32": {reflect.TypeOf(int32(0)), reflect.TypeOf(NInt32(0))},
	"int64": {reflect.TypeOf(int64(0)), reflect.TypeOf(NInt64(0))}, "uint": {reflect.TypeOf(uint(0)), reflect.TypeOf(NUint(0))},
	"uint8": {reflect.TypeOf(uint8(0)), reflect.TypeOf(NUint8(0))}, "uint16": {reflect.TypeOf(uint16(0)), reflect.TypeOf(NUint16(0))},
	"uint32": {reflect.TypeOf(uint32(0)), reflect.TypeOf(NUint32(0))}, "uint64": {reflect.TypeOf(uint64(0)), reflect.TypeOf(NUint64(0))},
}

func pick(p [2]reflect.Type, named bool) reflect.Type {
	if named {
		return p[1]
	}
	return p[0]
}

// FloatD describes a float64 by its shortest round-tripping decimal, computed
// with strconv (independently of shopspring's copy of the algorithm).
func FloatD(f float64) *D {
	d := &D{Tag: "f"}
	switch {
	case math.IsNaN(f):
		d.F = "nan"
	case math.IsInf(f, 1):
		d.F = "+inf"
	case math.IsInf(f, -1):
		d.F = "-inf"
	default:
		d.Coef, d.Exp = shortest(f)
	}
	return d
}

func shortest(f float64) (*big.Int, int64) {
	if f == 0 {
		return big.NewInt(0), 0
	}
	s := strconv.FormatFloat(f, 'e', -1, 64) // d.ddddde±xx
	mant, exps, _ := strings.Cut(s, "e")
	e, _ := strconv.ParseInt(exps, 10, 64)
	neg := strings.HasPrefix(mant, "-")
	mant = strings.TrimPrefix(mant, "-")
	ip, fp, _ := strings.Cut(mant, ".")
	digits := ip + fp
	e -= int64(len(fp))
	for len(digits) > 1 && strings.HasSuffix(digits, "0") {
		digits = digits[:len(digits)-1]
		e++
	}
	c, _ := new(big.Int).SetString(digits, 10)
	if neg {
		c.Neg(c)
	}
	return c, e
}

func floatOf(d *D) float64 {
	switch d.F {
	case "nan":
		return math.NaN()
	case "+inf":
		return math.Inf(1)
	case "-inf":
		return math.Inf(-1)
	}
	f, err := strconv.ParseFloat(fmt.Sprintf("%se%d", d.Coef.String(), d.Exp), 64)
	if err != nil {
		panic(err)
	}
	return f
}

// typeOf gives the Go type the description is built as.
func typeOf(d *D) reflect.Type {
	switch d.Tag {
	case "nil":
		return tAny
	case "b":
		if d.Named {
			return reflect.TypeOf(NBool(false))
		}
		return reflect.TypeOf(false)
	case "i":
		return pick(basicTypes[d.Kind], d.Named)
	case "f":
		switch {
		case d.Is32 && d.Named:
			return reflect.TypeOf(NFloat32(0))
		case d.Is32:
			return reflect.TypeOf(float32(0))
		case d.Named:
			return reflect.TypeOf(NFloat64(0))
		}
		return reflect.TypeOf(float64(0))
	case "s":
		if d.Named {
			return reflect.TypeOf(NString(""))
		}
		return reflect.TypeOf("")
	case "d":
		return tDecimal
	case "p":
		if d.Ptr == nil {
			return reflect.TypeOf((*int)(nil))
		}
		return reflect.PointerTo(typeOf(d.Ptr))
	case "sl":
		return reflect.SliceOf(elemType(d.Ety, d.Xs))
	case "ar":
		return reflect.ArrayOf(len(d.Xs), elemType(d.Ety, d.Xs))
	case "m":
		return reflect.MapOf(keyType(d.Kty, d.Ks), elemType(d.Ety, d.Vs))
	case "st":
		return structType(d)
	case "fn":
		return reflect.TypeOf(func() {})
	case "ch":
		return reflect.TypeOf(make(chan int))
	}
	panic("typeOf: " + d.Tag)
}

func elemType(ety string, xs []*D) reflect.Type {
	switch ety {
	case "any":
		return tAny
	case "dec":
		return tDecimal
	case "str":
		return reflect.TypeOf("")
	case "bool":
		return reflect.TypeOf(false)
	case "f64":
		return reflect.TypeOf(float64(0))
	case "int":
		return reflect.TypeOf(int(0))
	}
	// other: the type of the first element; an empty container of "other" is []int64
	if len(xs) == 0 {
		return reflect.TypeOf(int64(0))
	}
	return typeOf(xs[0])
}

func keyType(kty string, ks []*D) reflect.Type {
	switch kty {
	case "str":
		return reflect.TypeOf("")
	case "nstr":
		return reflect.TypeOf(NString(""))
	case "any":
		return tAny
	}
	if len(ks) == 0 {
		return reflect.TypeOf(int(0))
	}
	return typeOf(ks[0])
}

func structType(d *D) reflect.Type {
	// structs with unexported fields map onto the predeclared types
	unexp := false
	for _, f := range d.Fs {
		if !f.Exported {
			unexp = true
		}
	}
	if unexp {
		switch {
		case len(d.Fs) == 2 && d.Fs[0].Name == "A" && d.Fs[0].Exported && d.Fs[1].Name == "b" && d.Fs[0].Iface && d.Fs[1].Iface:
			return reflect.TypeOf(UnexpA{})
		case len(d.Fs) == 1 && d.Fs[0].Name == "a" && d.Fs[0].Iface:
			return reflect.TypeOf(UnexpOnly{})
		case len(d.Fs) == 4 && d.Fs[0].Name == "name" && d.Fs[1].Name == "Name" && d.Fs[2].Name == "ID" && d.Fs[3].Name == "id":
			return reflect.TypeOf(UnexpTwin{})
		}
		panic("structType: unsupported unexported layout")
	}
	fs := make([]reflect.StructField, len(d.Fs))
	for i, f := range d.Fs {
		t := tAny
		if !f.Iface {
			t = typeOf(f.V)
		}
		fs[i] = reflect.StructField{Name: f.Name, Type: t}
	}
	return reflect.StructOf(fs)
}

// Build makes the real Go value (as an `any`).
func Build(d *D) any {
	if d.Tag == "nil" {
		return nil
	}
	return buildV(d).Interface()
}

func buildV(d *D) reflect.Value {
	t := typeOf(d)
	v := reflect.New(t).Elem()
	switch d.Tag {
	case "nil":
		// zero interface
	case "b":
		v.SetBool(d.B)
	case "i":
		if strings.HasPrefix(d.Kind, "u") {
			v.SetUint(d.Z.Uint64())
		} else {
			v.SetInt(d.Z.Int64())
		}
	case "f":
		v.SetFloat(floatOf(d))
	case "s":
		v.SetString(d.S)
	case "d":
		v.Set(reflect.ValueOf(decimal.NewFromBigInt(new(big.Int).Set(d.Coef), int32(d.Exp))))
	case "p":
		if d.Ptr != nil {
			p := reflect.New(t.Elem())
			p.Elem().Set(buildV(d.Ptr))
			v.Set(p)
		}
	case "sl":
		if !d.IsNil {
			s := reflect.MakeSlice(t, len(d.Xs), len(d.Xs))
			for i, x := range d.Xs {
				setSlot(s.Index(i), x)
			}
			v.Set(s)
		}
	case "ar":
		for i, x := range d.Xs {
			setSlot(v.Index(i), x)
		}
	case "m":
		if !d.IsNil {
			m := reflect.MakeMapWithSize(t, len(d.Ks))
			for i := range d.Ks {
				k := reflect.New(t.Key()).Elem()
				setSlot(k, d.Ks[i])
				e := reflect.New(t.Elem()).Elem()
				setSlot(e, d.Vs[i])
				m.SetMapIndex(k, e)
			}
			v.Set(m)
		}
	case "st":
		switch t {
		case reflect.TypeOf(UnexpA{}):
			v.Set(reflect.ValueOf(UnexpA{A: Build(d.Fs[0].V), b: Build(d.Fs[1].V)}))
		case reflect.TypeOf(UnexpOnly{}):
			v.Set(reflect.ValueOf(UnexpOnly{a: Build(d.Fs[0].V)}))
		case reflect.TypeOf(UnexpTwin{}):
			v.Set(reflect.ValueOf(UnexpTwin{name: Build(d.Fs[0].V), Name: Build(d.Fs[1].V), ID: Build(d.Fs[2].V), id: Build(d.Fs[3].V)}))
		default:
			for i, f := range d.Fs {
				setSlot(v.Field(i), f.V)
			}
		}
	case "fn":
		if !d.IsNil {
			v.Set(reflect.ValueOf(func() {}))
		}
	case "ch":
		if !d.IsNil {
			v.Set(reflect.ValueOf(make(chan int)))
		}
	}
	return v
}

func setSlot(slot reflect.Value, x *D) {
	if x.Tag == "nil" {
		return // zero value of the slot (nil interface)
	}
	slot.Set(buildV(x))
}

// ---- describing a Go value by reflection

// accessible lifts the read-only flag of a value reached through an
// unexported field so that the describer can read it.
func accessible(v reflect.Value) reflect.Value {
	if v.CanInterface() {
		return v
	}
	if v.CanAddr() {
		return reflect.NewAt(v.Type(), unsafe.Pointer(v.UnsafeAddr())).Elem()
	}
	panic("unexported field of an unaddressable struct")
}

func isNamed(t reflect.Type) bool { return t.PkgPath() != "" }

func etyOf(t reflect.Type) string {
	switch {
	case t == tAny:
		return "any"
	case t == tDecimal:
		return "dec"
	case t == reflect.TypeOf(""):
		return "str"
	case t == reflect.TypeOf(false):
		return "bool"
	case t == reflect.TypeOf(float64(0)):
		return "f64"
	case t == reflect.TypeOf(int(0)):
		return "int"
	}
	return "other"
}

func ktyOf(t reflect.Type) string {
	switch {
	case t == reflect.TypeOf(""):
		return "str"
	case t.Kind() == reflect.String:
		return "nstr"
	case t == tAny:
		return "any"
	}
	return "other"
}

// Describe reads a Go value back into a description.  It fails on values
// outside the modelled universe (cyclic data is not detected: depth-limited).
func Describe(x any) (d *D, err error) {
	defer func() {
		if r := recover(); r != nil {
			err = fmt.Errorf("describe: %v", r)
		}
	}()
	if x == nil {
		return Nil(), nil
	}
	return describeV(reflect.ValueOf(x), 0), nil
}

func describeSlot(v reflect.Value, depth int) *D {
	if v.Kind() == reflect.Interface {
		if v.IsNil() {
			return Nil()
		}
		return describeV(v.Elem(), depth)
	}
	return describeV(v, depth)
}

func describeV(v reflect.Value, depth int) *D {
	if depth > 200 {
		panic("too deep")
	}
	t := v.Type()
	if t == tDecimal {
		dd := accessible(v).Interface().(decimal.Decimal)
		return &D{Tag: "d", Coef: dd.Coefficient(), Exp: int64(dd.Exponent())}
	}
	switch v.Kind() {
	case reflect.Bool:
		return &D{Tag: "b", Named: isNamed(t), B: v.Bool()}
	case reflect.Int, reflect.Int8, reflect.Int16, reflect.Int32, reflect.Int64:
		return &D{Tag: "i", Kind: v.Kind().String(), Named: isNamed(t), Z: big.NewInt(v.Int())}
	case reflect.Uint, reflect.Uint8, reflect.Uint16, reflect.Uint32, reflect.Uint64:
		return &D{Tag: "i", Kind: v.Kind().String(), Named: isNamed(t), Z: new(big.Int).SetUint64(v.Uint())}
	case reflect.Float32, reflect.Float64:
		d := FloatD(v.Float())
		d.Is32 = v.Kind() == reflect.Float32
		d.Named = isNamed(t)
		return d
	case reflect.String:
		return &D{Tag: "s", Named: isNamed(t), S: v.String()}
	case reflect.Pointer:
		if v.IsNil() {
			return NilPtr()
		}
		return PtrTo(describeV(v.Elem(), depth+1))
	case reflect.Slice:
		d := &D{Tag: "sl", Ety: etyOf(t.Elem()), IsNil: v.IsNil(), Xs: []*D{}}
		for i := 0; i < v.Len(); i++ {
			d.Xs = append(d.Xs, describeSlot(v.Index(i), depth+1))
		}
		return d
	case reflect.Array:
		d := &D{Tag: "ar", Ety: etyOf(t.Elem()), Xs: []*D{}}
		for i := 0; i < v.Len(); i++ {
			d.Xs = append(d.Xs, describeSlot(v.Index(i), depth+1))
		}
		return d
	case reflect.Map:
		d := &D{Tag: "m", Kty: ktyOf(t.Key()), Ety: etyOf(t.Elem()), IsNil: v.IsNil()}
		keys := v.MapKeys()
		type kv struct {
			k, v *D
			s    string
		}
		kvs := make([]kv, 0, len(keys))
		for _, k := range keys {
			kd := describeSlot(k, depth+1)
			kvs = append(kvs, kv{kd, describeSlot(v.MapIndex(k), depth+1), kd.String()})
		}
		// canonical order: by rendered key
		for i := 1; i < len(kvs); i++ {
			for j := i; j > 0 && kvs[j].s < kvs[j-1].s; j-- {
				kvs[j], kvs[j-1] = kvs[j-1], kvs[j]
			}
		}
		for _, e := range kvs {
			d.Ks = append(d.Ks, e.k)
			d.Vs = append(d.Vs, e.v)
		}
		return d
	case reflect.Struct:
		d := &D{Tag: "st"}
		if !v.CanAddr() && v.CanInterface() {
			nv := reflect.New(t).Elem()
			nv.Set(v)
			v = nv
		}
		for i := 0; i < v.NumField(); i++ {
			sf := t.Field(i)
			fv := accessible(v.Field(i))
			d.Fs = append(d.Fs, Field{Name: sf.Name, Exported: sf.IsExported(), Iface: sf.Type.Kind() == reflect.Interface, V: describeSlot(fv, depth+1)})
		}
		return d
	case reflect.Func:
		return &D{Tag: "fn", IsNil: v.IsNil()}
	case reflect.Chan:
		return &D{Tag: "ch", IsNil: v.IsNil()}
	case reflect.Interface:
		return describeSlot(v, depth)
	}
	panic(fmt.Sprintf("unsupported kind %s", v.Kind()))
}
