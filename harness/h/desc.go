// Package h is the harness library: descriptions of Go carrier values in the
// exchange format shared with the Coq model (coq/Model/Wire.v), builders that
// turn a description into the real Go value, a describer that reads a Go value
// back by reflection, projections, the implementation runner and the client of
// the extracted model.
package h

import (
	"encoding/hex"
	"fmt"
	"math/big"
	"strings"
)

// D describes one Go value (the Coq type gv).
type D struct {
	Tag   string // nil b i f s d p sl ar m st fn ch
	Named bool   // b i f s
	B     bool   // b
	Kind  string // i: int..uint64
	Z     *big.Int
	Is32  bool   // f
	F     string // f: "nan" "+inf" "-inf" or "" (then Coef,Exp)
	Coef  *big.Int
	Exp   int64
	S     string // s
	Ptr   *D     // p: nil = nil pointer
	Ety   string // sl ar m(value type): any dec str bool f64 int other
	Kty   string // m: str nstr any other
	IsNil bool   // sl m fn ch
	Xs    []*D   // sl ar
	Ks    []*D   // m keys
	Vs    []*D   // m values
	Fs    []Field
}

type Field struct {
	Name     string
	Exported bool
	Iface    bool
	V        *D
}

func b01(b bool) string {
	if b {
		return "1"
	}
	return "0"
}

func hx(s string) string { return "x" + hex.EncodeToString([]byte(s)) }

// String renders the description in the wire format.
func (d *D) String() string {
	var sb strings.Builder
	d.write(&sb)
	return sb.String()
}

func (d *D) write(sb *strings.Builder) {
	switch d.Tag {
	case "nil":
		sb.WriteString("nil")
	case "b":
		fmt.Fprintf(sb, "(b %s %s)", b01(d.Named), b01(d.B))
	case "i":
		fmt.Fprintf(sb, "(i %s %s %s)", d.Kind, b01(d.Named), d.Z.String())
	case "f":
		if d.F != "" {
			fmt.Fprintf(sb, "(f %s %s %s)", b01(d.Is32), b01(d.Named), d.F)
		} else {
			fmt.Fprintf(sb, "(f %s %s (%s %d))", b01(d.Is32), b01(d.Named), d.Coef.String(), d.Exp)
		}
	case "s":
		fmt.Fprintf(sb, "(s %s %s)", b01(d.Named), hx(d.S))
	case "d":
		fmt.Fprintf(sb, "(d %s %d)", d.Coef.String(), d.Exp)
	case "p":
		if d.Ptr == nil {
			sb.WriteString("(p nil)")
		} else {
			sb.WriteString("(p (to ")
			d.Ptr.write(sb)
			sb.WriteString("))")
		}
	case "sl":
		fmt.Fprintf(sb, "(sl %s %s", d.Ety, b01(d.IsNil))
		for _, x := range d.Xs {
			sb.WriteByte(' ')
			x.write(sb)
		}
		sb.WriteByte(')')
	case "ar":
		fmt.Fprintf(sb, "(ar %s", d.Ety)
		for _, x := range d.Xs {
			sb.WriteByte(' ')
			x.write(sb)
		}
		sb.WriteByte(')')
	case "m":
		fmt.Fprintf(sb, "(m %s %s %s", d.Kty, d.Ety, b01(d.IsNil))
		for i := range d.Ks {
			sb.WriteString(" (")
			d.Ks[i].write(sb)
			sb.WriteByte(' ')
			d.Vs[i].write(sb)
			sb.WriteByte(')')
		}
		sb.WriteByte(')')
	case "st":
		sb.WriteString("(st")
		for _, f := range d.Fs {
			fmt.Fprintf(sb, " (%s %s %s ", hx(f.Name), b01(f.Exported), b01(f.Iface))
			f.V.write(sb)
			sb.WriteByte(')')
		}
		sb.WriteByte(')')
	case "fn":
		fmt.Fprintf(sb, "(fn %s)", b01(d.IsNil))
	case "ch":
		fmt.Fprintf(sb, "(ch %s)", b01(d.IsNil))
	default:
		panic("desc: bad tag " + d.Tag)
	}
}

// ---- s-expression reader (for the model's output)

type sx struct {
	atom string
	list []*sx
	isL  bool
}

func parseSexp(s string) (*sx, error) {
	stack := [][]*sx{{}}
	i := 0
	for i < len(s) {
		c := s[i]
		switch {
		case c == '(':
			stack = append(stack, []*sx{})
			i++
		case c == ')':
			if len(stack) < 2 {
				return nil, fmt.Errorf("unbalanced )")
			}
			top := stack[len(stack)-1]
			stack = stack[:len(stack)-1]
			stack[len(stack)-1] = append(stack[len(stack)-1], &sx{list: top, isL: true})
			i++
		case c == ' ':
			i++
		default:
			j := i
			for j < len(s) && s[j] != '(' && s[j] != ')' && s[j] != ' ' {
				j++
			}
			stack[len(stack)-1] = append(stack[len(stack)-1], &sx{atom: s[i:j]})
			i = j
		}
	}
	if len(stack) != 1 || len(stack[0]) != 1 {
		return nil, fmt.Errorf("not exactly one s-expression: %q", s)
	}
	return stack[0][0], nil
}

func unhx(a string) (string, error) {
	if !strings.HasPrefix(a, "x") {
		return "", fmt.Errorf("not a hex atom: %q", a)
	}
	b, err := hex.DecodeString(a[1:])
	return string(b), err
}

func bigOf(a string) (*big.Int, error) {
	z, ok := new(big.Int).SetString(a, 10)
	if !ok {
		return nil, fmt.Errorf("bad integer %q", a)
	}
	return z, nil
}

// ParseD reads a description in the wire format.
func ParseD(s string) (*D, error) {
	x, err := parseSexp(s)
	if err != nil {
		return nil, err
	}
	return dOf(x)
}

func dOf(x *sx) (d *D, err error) {
	defer func() {
		if r := recover(); r != nil {
			err = fmt.Errorf("malformed description: %v", r)
		}
	}()
	if !x.isL {
		if x.atom == "nil" {
			return &D{Tag: "nil"}, nil
		}
		return nil, fmt.Errorf("bad atom %q", x.atom)
	}
	l := x.list
	tag := l[0].atom
	a := func(i int) string { return l[i].atom }
	switch tag {
	case "b":
		return &D{Tag: "b", Named: a(1) == "1", B: a(2) == "1"}, nil
	case "i":
		z, err := bigOf(a(3))
		if err != nil {
			return nil, err
		}
		return &D{Tag: "i", Kind: a(1), Named: a(2) == "1", Z: z}, nil
	case "f":
		d := &D{Tag: "f", Is32: a(1) == "1", Named: a(2) == "1"}
		if l[3].isL {
			c, err := bigOf(l[3].list[0].atom)
			if err != nil {
				return nil, err
			}
			e, err := bigOf(l[3].list[1].atom)
			if err != nil {
				return nil, err
			}
			d.Coef, d.Exp = c, e.Int64()
		} else {
			d.F = a(3)
		}
		return d, nil
	case "s":
		s, err := unhx(a(2))
		if err != nil {
			return nil, err
		}
		return &D{Tag: "s", Named: a(1) == "1", S: s}, nil
	case "d":
		c, err := bigOf(a(1))
		if err != nil {
			return nil, err
		}
		e, err := bigOf(a(2))
		if err != nil {
			return nil, err
		}
		return &D{Tag: "d", Coef: c, Exp: e.Int64()}, nil
	case "p":
		if !l[1].isL {
			return &D{Tag: "p"}, nil
		}
		t, err := dOf(l[1].list[1])
		if err != nil {
			return nil, err
		}
		return &D{Tag: "p", Ptr: t}, nil
	case "sl", "ar":
		d := &D{Tag: tag, Ety: a(1), Xs: []*D{}}
		start := 2
		if tag == "sl" {
			d.IsNil = a(2) == "1"
			start = 3
		}
		for _, e := range l[start:] {
			y, err := dOf(e)
			if err != nil {
				return nil, err
			}
			d.Xs = append(d.Xs, y)
		}
		return d, nil
	case "m":
		d := &D{Tag: "m", Kty: a(1), Ety: a(2), IsNil: a(3) == "1"}
		for _, e := range l[4:] {
			k, err := dOf(e.list[0])
			if err != nil {
				return nil, err
			}
			v, err := dOf(e.list[1])
			if err != nil {
				return nil, err
			}
			d.Ks = append(d.Ks, k)
			d.Vs = append(d.Vs, v)
		}
		return d, nil
	case "st":
		d := &D{Tag: "st"}
		for _, e := range l[1:] {
			nm, err := unhx(e.list[0].atom)
			if err != nil {
				return nil, err
			}
			v, err := dOf(e.list[3])
			if err != nil {
				return nil, err
			}
			d.Fs = append(d.Fs, Field{Name: nm, Exported: e.list[1].atom == "1", Iface: e.list[2].atom == "1", V: v})
		}
		return d, nil
	case "fn":
		return &D{Tag: "fn", IsNil: a(1) == "1"}, nil
	case "ch":
		return &D{Tag: "ch", IsNil: a(1) == "1"}, nil
	}
	return nil, fmt.Errorf("bad tag %q", tag)
}

// ---- convenience constructors

func Nil() *D                           { return &D{Tag: "nil"} }
func Bool(b bool) *D                    { return &D{Tag: "b", B: b} }
func Str(s string) *D                   { return &D{Tag: "s", S: s} }
func NStr(s string) *D                  { return &D{Tag: "s", S: s, Named: true} }
func Int(kind string, z int64) *D       { return &D{Tag: "i", Kind: kind, Z: big.NewInt(z)} }
func IntBig(kind string, z *big.Int) *D { return &D{Tag: "i", Kind: kind, Z: z} }
func Dec(c int64, e int64) *D           { return &D{Tag: "d", Coef: big.NewInt(c), Exp: e} }
func PtrTo(t *D) *D                     { return &D{Tag: "p", Ptr: t} }
func NilPtr() *D                        { return &D{Tag: "p"} }
func SliceAny(xs ...*D) *D {
	if xs == nil {
		xs = []*D{}
	}
	return &D{Tag: "sl", Ety: "any", Xs: xs}
}
func Slice(ety string, xs ...*D) *D {
	if xs == nil {
		xs = []*D{}
	}
	return &D{Tag: "sl", Ety: ety, Xs: xs}
}

// Obj builds a map[string]any description from alternating key, value pairs.
func Obj(kv ...any) *D {
	d := &D{Tag: "m", Kty: "str", Ety: "any"}
	for i := 0; i+1 < len(kv); i += 2 {
		d.Ks = append(d.Ks, Str(kv[i].(string)))
		d.Vs = append(d.Vs, kv[i+1].(*D))
	}
	return d
}

// TypedSlice describes a slice whose static element type is the Go type of
// its first element (so []int, []float64, []string, []bool, []decimal.Decimal
// get their own tags and everything else is "other").
func TypedSlice(xs ...*D) *D {
	ety := "other"
	if len(xs) > 0 {
		x := xs[0]
		switch {
		case x.Tag == "i" && x.Kind == "int" && !x.Named:
			ety = "int"
		case x.Tag == "f" && !x.Is32 && !x.Named:
			ety = "f64"
		case x.Tag == "d":
			ety = "dec"
		case x.Tag == "s" && !x.Named:
			ety = "str"
		case x.Tag == "b" && !x.Named:
			ety = "bool"
		}
	}
	return &D{Tag: "sl", Ety: ety, Xs: xs}
}
