package h

import (
	"bufio"
	"encoding/hex"
	"fmt"
	"io"
	"os"
	"os/exec"
	"runtime/debug"
	"strings"
	"sync"
	"syscall"
	"time"
)

// The implementation side of every evaluation runs in child processes of the
// harness itself (`check -worker`): a stack overflow or a `concurrent map
// writes` is fatal to a Go process, not a panic, and a hang cannot be
// interrupted from inside.  The parent streams one case per line, the worker
// answers one line per case; when a worker dies or stays silent the case in
// flight is recorded as "fatal" / "hang" and a fresh worker continues after it.

// ImplCase is one evaluation to run on the implementation.
type ImplCase struct {
	Query string
	Data  *D
}

// Job is one unit of work for a worker: a kind and a TAB-free payload of
// TAB-separated fields; the reply is one line.
type Job struct {
	Kind    string
	Payload string
}

// Handlers maps job kinds to their implementation inside the worker.
var Handlers = map[string]func(payload string) string{}

var capFile *os.File

// CapturedBytes is the number of bytes the worker process has written to its
// standard output and standard error so far (the protocol uses a duplicate of
// the original stdout, so anything counted here was written by the code under test).
func CapturedBytes() int64 {
	if capFile == nil {
		return 0
	}
	st, err := capFile.Stat()
	if err != nil {
		return 0
	}
	return st.Size()
}

// WorkerMain is the body of `check -worker`.
func WorkerMain() {
	debug.SetMaxStack(256 << 20)
	in := bufio.NewReaderSize(os.Stdin, 1<<20)
	proto := os.Stdout
	if nfd, err := syscall.Dup(1); err == nil {
		if f, err := os.CreateTemp("", "verif-capture-*"); err == nil {
			os.Remove(f.Name())
			if syscall.Dup2(int(f.Fd()), 1) == nil && syscall.Dup2(int(f.Fd()), 2) == nil {
				proto = os.NewFile(uintptr(nfd), "proto")
				capFile = f
			}
		}
	}
	out := bufio.NewWriter(proto)
	for {
		line, err := in.ReadString('\n')
		if len(line) > 0 {
			line = strings.TrimRight(line, "\n")
			kind, payload, _ := strings.Cut(line, "\t")
			if hnd, ok := Handlers[kind]; ok {
				fmt.Fprintf(out, "%s\n", strings.ReplaceAll(hnd(payload), "\n", " "))
				out.Flush()
			} else {
				parts := strings.SplitN(payload, "\t", 2)
				res := Outcome{Class: "badcase"}
				if kind == "eval" && len(parts) == 2 {
					qb, e1 := hex.DecodeString(parts[0])
					d, e2 := ParseD(parts[1])
					if e1 == nil && e2 == nil {
						res = RunImpl(string(qb), Build(d))
					}
				}
				fmt.Fprintf(out, "%s\t%s\n", res.String(), hex.EncodeToString([]byte(res.Note)))
				out.Flush()
			}
		}
		if err != nil {
			return
		}
	}
}

func parseWorkerLine(l string) Outcome {
	parts := strings.SplitN(l, "\t", 2)
	o := Outcome{}
	if strings.HasPrefix(parts[0], "ok ") {
		d, err := ParseD(parts[0][3:])
		if err != nil {
			return Outcome{Class: "badcase", Note: err.Error()}
		}
		o = Outcome{Class: "ok", Val: d}
	} else {
		o = Outcome{Class: parts[0]}
	}
	if len(parts) == 2 {
		if b, err := hex.DecodeString(parts[1]); err == nil {
			o.Note = string(b)
		}
	}
	return o
}

// CaseTimeout bounds one evaluation on the implementation.
var CaseTimeout = 20 * time.Second

// runShard runs cases[lo:hi) in one worker at a time, restarting after deaths.
func runShard(self string, cases []Job, res []string, lo, hi int) {
	i := lo
	for i < hi {
		cmd := exec.Command(self, "-worker")
		stdin, _ := cmd.StdinPipe()
		stdout, _ := cmd.StdoutPipe()
		cmd.Stderr = io.Discard
		if err := cmd.Start(); err != nil {
			for ; i < hi; i++ {
				res[i] = "fatal\t" + hex.EncodeToString([]byte("cannot start worker: "+err.Error()))
			}
			return
		}
		lines := make(chan string, 64)
		go func() {
			sc := bufio.NewScanner(stdout)
			sc.Buffer(make([]byte, 1<<20), 1<<28)
			for sc.Scan() {
				lines <- sc.Text()
			}
			close(lines)
		}()
		// feed lazily: at most a window of cases ahead of the answers, so that
		// the case in flight at a death is known exactly
		dead := false
		for i < hi && !dead {
			c := cases[i]
			_, werr := fmt.Fprintf(stdin, "%s\t%s\n", c.Kind, c.Payload)
			if werr != nil {
				res[i] = "fatal\t" + hex.EncodeToString([]byte("worker died (write)"))
				i++
				dead = true
				break
			}
			select {
			case l, ok := <-lines:
				if !ok {
					res[i] = "fatal\t" + hex.EncodeToString([]byte("worker died (stack overflow, fatal runtime error or exit)"))
					i++
					dead = true
				} else {
					res[i] = l
					i++
				}
			case <-time.After(CaseTimeout):
				res[i] = "hang\t" + hex.EncodeToString([]byte(fmt.Sprintf("no answer within %s", CaseTimeout)))
				i++
				dead = true
			}
		}
		stdin.Close()
		if dead {
			cmd.Process.Kill()
		}
		cmd.Wait()
	}
}

// RunJobs runs the jobs in nproc crash-isolating workers; one raw reply line per job
// ("fatal\t.." / "hang\t.." when the worker died or stayed silent on that job).
func RunJobs(cases []Job, nproc int) []string {
	res := make([]string, len(cases))
	self, err := os.Executable()
	if err != nil {
		panic(err)
	}
	if nproc < 1 {
		nproc = 1
	}
	if len(cases) < 64 {
		nproc = 1
	}
	var wg sync.WaitGroup
	per := (len(cases) + nproc - 1) / nproc
	for w := 0; w < nproc; w++ {
		lo, hi := w*per, (w+1)*per
		if hi > len(cases) {
			hi = len(cases)
		}
		if lo >= hi {
			break
		}
		wg.Add(1)
		go func(lo, hi int) {
			defer wg.Done()
			runShard(self, cases, res, lo, hi)
		}(lo, hi)
	}
	wg.Wait()
	return res
}

// RunImplBatch evaluates all cases on the implementation, in nproc workers.
func RunImplBatch(cases []ImplCase, nproc int) []Outcome {
	jobs := make([]Job, len(cases))
	for i, c := range cases {
		jobs[i] = Job{Kind: "eval", Payload: hex.EncodeToString([]byte(c.Query)) + "\t" + c.Data.String()}
	}
	raw := RunJobs(jobs, nproc)
	res := make([]Outcome, len(cases))
	for i, l := range raw {
		res[i] = parseWorkerLine(l)
	}
	return res
}

// RunJobsFresh runs every job in a worker process of its own (a fresh
// process: cold caches, new pools), nproc at a time.
func RunJobsFresh(cases []Job, nproc int) []string {
	res := make([]string, len(cases))
	self, err := os.Executable()
	if err != nil {
		panic(err)
	}
	sem := make(chan struct{}, nproc)
	var wg sync.WaitGroup
	for i := range cases {
		wg.Add(1)
		sem <- struct{}{}
		go func(i int) {
			defer wg.Done()
			defer func() { <-sem }()
			runShard(self, cases, res, i, i+1)
		}(i)
	}
	wg.Wait()
	return res
}
