package h

import (
	"bufio"
	"bytes"
	"errors"
	"fmt"
	"math/big"
	"os"
	"os/exec"
	"sort"
	"strings"
	"sync"
	"unicode"
	"unicode/utf8"

	"github.com/machship/mpath"
)

// Outcome of one evaluation, on either side.
type Outcome struct {
	Class string // ok | knf | other | panic | parse-err | fuel | declined | errdata | badcase
	Val   *D     // when Class == ok
	Note  string // panic message, declined reason, error text (informational)
}

func (o Outcome) String() string {
	if o.Class == "ok" {
		return "ok " + o.Val.String()
	}
	return o.Class
}

// RunImpl parses and evaluates with the implementation built from /repo.
func RunImpl(q string, data any) (out Outcome) {
	defer func() {
		if r := recover(); r != nil {
			out = Outcome{Class: "panic", Note: fmt.Sprint(r)}
		}
	}()
	op, err := mpath.ParseString(q)
	if err != nil || op == nil {
		return Outcome{Class: "parse-err", Note: fmt.Sprint(err)}
	}
	return DoImpl(op, data)
}

// DoImpl evaluates an already parsed operation.
func DoImpl(op mpath.Operation, data any) (out Outcome) {
	defer func() {
		if r := recover(); r != nil {
			out = Outcome{Class: "panic", Note: fmt.Sprint(r)}
		}
	}()
	res, err := op.Do(data, data)
	if err != nil {
		if errors.Is(err, mpath.ErrKeyNotFound) {
			return Outcome{Class: "knf", Note: err.Error()}
		}
		return Outcome{Class: "other", Note: err.Error()}
	}
	if _, isErr := res.(error); isErr {
		return Outcome{Class: "errdata", Note: fmt.Sprint(res)}
	}
	d, derr := Describe(res)
	if derr != nil {
		return Outcome{Class: "undescribable", Note: derr.Error()}
	}
	return Outcome{Class: "ok", Val: d}
}

// ParseModelOutcome reads a line printed by the model's run_eval.
func ParseModelOutcome(line string) Outcome {
	switch {
	case strings.HasPrefix(line, "ok "):
		d, err := ParseD(line[3:])
		if err != nil {
			return Outcome{Class: "badcase", Note: err.Error()}
		}
		return Outcome{Class: "ok", Val: d}
	case line == "err knf":
		return Outcome{Class: "knf"}
	case line == "err other":
		return Outcome{Class: "other"}
	case strings.HasPrefix(line, "declined"):
		return Outcome{Class: "declined", Note: line}
	}
	return Outcome{Class: line}
}

// ---- projections

func normNum(c *big.Int, e int64) string {
	if c.Sign() == 0 {
		return "n:0e0"
	}
	c = new(big.Int).Set(c)
	ten := big.NewInt(10)
	var q, r big.Int
	for {
		q.QuoRem(c, ten, &r)
		if r.Sign() != 0 {
			break
		}
		c.Set(&q)
		e++
	}
	return fmt.Sprintf("n:%se%d", c.String(), e)
}

func keyString(k *D) string {
	switch k.Tag {
	case "s":
		return k.S
	}
	return "\x00k:" + k.String()
}

// Abs forgets the carrier: the logical (JSON-like) content with object keys
// case-folded and numbers by value (the Coq function abs, DESIGN §3.2).
func Abs(d *D) string {
	var sb strings.Builder
	absW(d, &sb)
	return sb.String()
}

func absW(d *D, sb *strings.Builder) {
	switch d.Tag {
	case "nil":
		sb.WriteString("null")
	case "b":
		fmt.Fprint(sb, d.B)
	case "i":
		sb.WriteString(normNum(d.Z, 0))
	case "f":
		if d.F != "" {
			sb.WriteString(d.F)
		} else {
			sb.WriteString(normNum(d.Coef, d.Exp))
		}
	case "d":
		sb.WriteString(normNum(d.Coef, d.Exp))
	case "s":
		sb.WriteString(hx(d.S))
	case "p":
		if d.Ptr == nil {
			sb.WriteString("null")
		} else {
			absW(d.Ptr, sb)
		}
	case "sl", "ar":
		sb.WriteByte('[')
		for i, x := range d.Xs {
			if i > 0 {
				sb.WriteByte(',')
			}
			absW(x, sb)
		}
		sb.WriteByte(']')
	case "m":
		if d.IsNil {
			sb.WriteString("null")
			return
		}
		type kv struct {
			k string
			v *D
		}
		kvs := []kv{}
		for i := range d.Ks {
			kvs = append(kvs, kv{strings.ToLower(keyString(d.Ks[i])), d.Vs[i]})
		}
		sort.SliceStable(kvs, func(i, j int) bool { return kvs[i].k < kvs[j].k })
		sb.WriteByte('{')
		for i, e := range kvs {
			if i > 0 {
				sb.WriteByte(',')
			}
			sb.WriteString(hx(e.k))
			sb.WriteByte(':')
			absW(e.v, sb)
		}
		sb.WriteByte('}')
	case "st":
		type kv struct {
			k string
			v *D
		}
		kvs := []kv{}
		for _, f := range d.Fs {
			if f.Exported {
				kvs = append(kvs, kv{strings.ToLower(f.Name), f.V})
			}
		}
		sort.SliceStable(kvs, func(i, j int) bool { return kvs[i].k < kvs[j].k })
		sb.WriteByte('{')
		for i, e := range kvs {
			if i > 0 {
				sb.WriteByte(',')
			}
			sb.WriteString(hx(e.k))
			sb.WriteByte(':')
			absW(e.v, sb)
		}
		sb.WriteByte('}')
	case "fn":
		sb.WriteString("fn")
	case "ch":
		sb.WriteString("ch")
	}
}

// AbsOutcome is the level-P observable of an evaluation for the functional
// properties: the abstracted value, or the error class.
func AbsOutcome(o Outcome) string {
	if o.Class == "ok" {
		return "ok " + Abs(o.Val)
	}
	return o.Class
}

// ---- per-case parameters

// UniTable lists the Unicode class of every rune >= 128 in s, computed with
// Go's unicode package (independent of mpath).
func UniTable(texts ...string) string {
	seen := map[rune]bool{}
	var sb strings.Builder
	sb.WriteByte('(')
	for _, s := range texts {
		for len(s) > 0 {
			r, w := utf8.DecodeRuneInString(s)
			s = s[w:]
			if r < 128 || seen[r] || (r == utf8.RuneError && w == 1) {
				continue
			}
			seen[r] = true
			c := "o"
			if unicode.IsSpace(r) {
				c = "s"
			} else if unicode.IsPrint(r) {
				c = "p"
			}
			fmt.Fprintf(&sb, "(%d %s)", r, c)
		}
	}
	sb.WriteByte(')')
	return sb.String()
}

// ---- the model process

// RunModel feeds the case lines to the extracted model (several driver
// processes in parallel) and returns one output line per case.
func RunModel(driver string, lines []string) ([]string, error) {
	for _, l := range lines {
		if strings.ContainsAny(l, "\n\r") {
			return nil, fmt.Errorf("case line contains a newline")
		}
	}
	nproc := 12
	if len(lines) < 256 {
		nproc = 1
	}
	per := (len(lines) + nproc - 1) / nproc
	res := make([]string, len(lines))
	errs := make([]error, nproc)
	var wg sync.WaitGroup
	for w := 0; w < nproc; w++ {
		lo, hi := w*per, (w+1)*per
		if hi > len(lines) {
			hi = len(lines)
		}
		if lo >= hi {
			break
		}
		wg.Add(1)
		go func(w, lo, hi int) {
			defer wg.Done()
			var in bytes.Buffer
			for _, l := range lines[lo:hi] {
				in.WriteString(l)
				in.WriteByte('\n')
			}
			cmd := exec.Command(driver)
			cmd.Stdin = &in
			cmd.Stderr = os.Stderr
			outp, err := cmd.Output()
			if err != nil {
				errs[w] = fmt.Errorf("model driver: %w", err)
				return
			}
			sc := bufio.NewScanner(bytes.NewReader(outp))
			sc.Buffer(make([]byte, 1<<20), 1<<28)
			n := lo
			for sc.Scan() {
				if n < hi {
					res[n] = sc.Text()
				}
				n++
			}
			if n != hi {
				errs[w] = fmt.Errorf("model driver returned %d lines for %d cases", n-lo, hi-lo)
			}
		}(w, lo, hi)
	}
	wg.Wait()
	for _, e := range errs {
		if e != nil {
			return nil, e
		}
	}
	return res, nil
}

// EvalLine renders an evaluation case.
func EvalLine(q string, data *D, eng string) string {
	if eng == "" {
		eng = "()"
	}
	return "eval\t" + hx(q) + "\t" + data.String() + "\t" + UniTable(q, data.String()) + "\t" + eng
}
