module verifharness

go 1.21

require (
	github.com/machship/mpath v0.0.0
	github.com/shopspring/decimal v1.3.1
	gopkg.in/yaml.v3 v3.0.1
)

require (
	cuelang.org/go v0.8.1 // indirect
	github.com/basgys/goxml2json v1.1.0 // indirect
	github.com/cockroachdb/apd/v3 v3.2.1 // indirect
	github.com/google/go-cmp v0.6.0 // indirect
	github.com/google/uuid v1.2.0 // indirect
	github.com/pelletier/go-toml/v2 v2.0.5 // indirect
	github.com/pkg/errors v0.9.1 // indirect
	golang.org/x/net v0.22.0 // indirect
	golang.org/x/text v0.14.0 // indirect
	gopkg.in/yaml.v2 v2.4.0 // indirect
)

replace github.com/machship/mpath => /repo
