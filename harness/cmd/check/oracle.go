package main

import (
	"fmt"
	"math/big"
	"strings"

	"verifharness/h"
)

// ratOf gives the exact rational value of a numeric description (nil if not a number).
func ratOf(d *D) *big.Rat {
	if d == nil {
		return nil
	}
	switch d.Tag {
	case "i":
		return new(big.Rat).SetInt(d.Z)
	case "f":
		if d.F != "" {
			return nil
		}
		return ratCE(d.Coef, d.Exp)
	case "d":
		return ratCE(d.Coef, d.Exp)
	case "p":
		return ratOf(d.Ptr)
	case "s":
		r, ok := new(big.Rat).SetString(d.S)
		if !ok {
			return nil
		}
		return r
	}
	return nil
}

func ratCE(c *big.Int, e int64) *big.Rat {
	r := new(big.Rat).SetInt(c)
	p := new(big.Int).Exp(big.NewInt(10), big.NewInt(abs64(e)), nil)
	if e >= 0 {
		return r.Mul(r, new(big.Rat).SetInt(p))
	}
	return r.Quo(r, new(big.Rat).SetInt(p))
}

func abs64(x int64) int64 {
	if x < 0 {
		return -x
	}
	return x
}

func ratStr(s string) *big.Rat {
	r, ok := new(big.Rat).SetString(s)
	if !ok {
		panic("ratStr: " + s)
	}
	return r
}

// truncRat truncates toward zero.
func truncRat(r *big.Rat) *big.Int {
	q := new(big.Int).Quo(r.Num(), r.Denom()) // Quo truncates toward zero
	return q
}

// decimalResult checks that the outcome is a decimal.Decimal satisfying pred.
func decimalResult(pred func(v *big.Rat) string) func(h.Outcome) string {
	return func(o h.Outcome) string {
		if o.Class != "ok" {
			return "a decimal result is required; got " + o.Class + " " + o.Note
		}
		if o.Val.Tag != "d" {
			return "the result must be a decimal.Decimal; got tag " + o.Val.Tag
		}
		return pred(ratCE(o.Val.Coef, o.Val.Exp))
	}
}

func exactly(want *big.Rat) func(h.Outcome) string {
	return decimalResult(func(v *big.Rat) string {
		if v.Cmp(want) != 0 {
			return fmt.Sprintf("exact value %s required, got %s", want.RatString(), v.RatString())
		}
		return ""
	})
}

var halfUnit16 = new(big.Rat).SetFrac(big.NewInt(1), new(big.Int).Mul(big.NewInt(2), new(big.Int).Exp(big.NewInt(10), big.NewInt(16), nil)))

func withinHalfUnit(want *big.Rat) func(h.Outcome) string {
	return decimalResult(func(v *big.Rat) string {
		d := new(big.Rat).Sub(v, want)
		d.Abs(d)
		if d.Cmp(halfUnit16) > 0 {
			return fmt.Sprintf("must be within 0.5e-16 of %s, got %s", want.FloatString(20), v.FloatString(20))
		}
		return ""
	})
}

// ---- Spec.lookup on descriptions (property C01), independent of mpath and of the Coq model

type lres struct {
	kind string // found | knf | onnull
	val  string // Abs of the value when found
}

// jsonish view of a description: kind and children
func isObj(d *D) bool  { return d.Tag == "m" && !d.IsNil || d.Tag == "st" }
func isArr(d *D) bool  { return (d.Tag == "sl" && !d.IsNil) || d.Tag == "ar" }
func isNull(d *D) bool { return d.Tag == "nil" || (d.Tag == "p" && d.Ptr == nil) }

func objField(d *D, k string) *D {
	switch d.Tag {
	case "m":
		for i, kd := range d.Ks {
			if kd.Tag == "s" && strings.EqualFold(kd.S, k) {
				return d.Vs[i]
			}
		}
	case "st":
		for _, f := range d.Fs {
			if f.Exported && strings.EqualFold(f.Name, k) {
				return f.V
			}
		}
	}
	return nil
}

// specLookup1 returns (value-abs, kind); arrays of collected values are rendered directly in Abs syntax.
func specLookup(d *D, keys []string) lres {
	cur := []*D{d} // a single value, or (after projection) handled through absList
	var curAbs string
	projected := false
	_ = curAbs
	v := d
	var list []*D
	for i, k := range keys {
		_ = i
		if projected {
			// the current value is an array (of collected values)
			if len(list) == 0 || !isObj(list[0]) {
				return lres{kind: "knf"}
			}
			var next []*D
			for _, e := range list {
				if isObj(e) {
					if f := objField(e, k); f != nil {
						next = append(next, f)
					}
				}
			}
			if len(next) == 0 {
				return lres{kind: "knf"}
			}
			list = next
			continue
		}
		switch {
		case isNull(v):
			return lres{kind: "onnull"}
		case isObj(v):
			f := objField(v, k)
			if f == nil {
				return lres{kind: "knf"}
			}
			v = f
		case isArr(v):
			if len(v.Xs) == 0 || !isObj(v.Xs[0]) {
				return lres{kind: "knf"}
			}
			var next []*D
			for _, e := range v.Xs {
				if isObj(e) {
					if f := objField(e, k); f != nil {
						next = append(next, f)
					}
				}
			}
			if len(next) == 0 {
				return lres{kind: "knf"}
			}
			projected, list = true, next
		default:
			return lres{kind: "knf"}
		}
	}
	_ = cur
	if projected {
		parts := []string{}
		for _, e := range list {
			parts = append(parts, h.Abs(e))
		}
		return lres{kind: "found", val: "[" + strings.Join(parts, ",") + "]"}
	}
	return lres{kind: "found", val: h.Abs(v)}
}
