// check runs the correspondence part of one property's check (DESIGN §2.4
// steps 2-6): it generates the cases, runs the implementation built from
// /repo's working tree and the extracted Coq model on them, compares the
// property's observables, searches a failing input when something broke,
// matches violations against known_findings.txt and writes the evidence file.
// bin/check has already rebuilt the Coq development and tells us, through
// --proofs, which theorems of Properties/Cxx.v were accepted by the kernel.
package main

import (
	"crypto/sha256"
	"encoding/hex"
	"encoding/json"
	"flag"
	"fmt"
	"math/rand"
	"os"
	"os/exec"
	"path/filepath"
	"sort"
	"strings"
	"time"

	"verifharness/h"
)

type ProofInfo struct {
	Obligations []string `json:"obligations"` // theorem names in Properties/Cxx.v
	Discharged  []string `json:"discharged"`  // those the kernel accepted on this run
	Broken      []string `json:"broken"`      // the rest (or "<build>" when the development does not compile)
	Axioms      []string `json:"axioms"`      // distinct Print Assumptions answers
	CheckerCmd  string   `json:"checker_cmd"`
	BuildLog    string   `json:"build_log"`
	ModelBuilt  bool     `json:"model_built"`
}

type Violation struct {
	Kind   string         `json:"kind"` // mismatch | relation | proof
	What   string         `json:"what"` // one line
	Case   map[string]any `json:"case"` // the replay
	Known  string         `json:"known,omitempty"`
	Replay string         `json:"replay,omitempty"`
}

type EvalCase struct {
	Query     string
	Data      *h.D
	Eng       string
	ErrClass  bool   // does the error class (knf vs other) belong to the observable?
	Tag       string // distribution bucket
	Nontriv   bool
	Impl      h.Outcome
	Model     h.Outcome
	ModelLine string
	// Proj, when set, is the level-P projection of this case (DESIGN §2.3): only
	// Proj(impl) and Proj(model) are compared; a difference in the full value is
	// then counted as level-D drift.
	Proj func(h.Outcome) string
	// Check, when set, evaluates the property's relation on the implementation's
	// own output (an oracle independent of the model); "" = holds.
	Check func(h.Outcome) string
}

type Ctx struct {
	Prop     string
	Tier     string
	Seed     int64
	Rng      *rand.Rand
	Driver   string
	Root     string // /verif
	Proofs   ProofInfo
	Cases    []*EvalCase
	Viol     []Violation
	Dist     map[string]int
	Samples  []any
	Evals    int
	Distinct map[string]bool
	Declined int
	Fuel     int
	Extra    map[string]any
	Rule     string
	Exhaust  bool
	Drift    []string
	DriftN   int
	Assume   []string
	ReplayIn map[string]any
	Cross    [][2]string // (case line, model output) pairs re-evaluated inside Coq by vm_compute
	CrossN   int
}

func (c *Ctx) Thorough() bool { return c.Tier == "thorough" }

// N picks a volume by tier.
func (c *Ctx) N(quick, thorough int) int {
	if c.Thorough() {
		return thorough
	}
	return quick
}

func (c *Ctx) AddEval(q string, data *h.D, tag string, errClass, nontrivial bool) *EvalCase {
	ec := &EvalCase{Query: q, Data: data, ErrClass: errClass, Tag: tag, Nontriv: nontrivial}
	c.Cases = append(c.Cases, ec)
	return ec
}

func (c *Ctx) Violation(kind, what string, cs map[string]any) {
	c.Viol = append(c.Viol, Violation{Kind: kind, What: what, Case: cs})
}

func (c *Ctx) Sample(s any) {
	if len(c.Samples) < 12 {
		c.Samples = append(c.Samples, s)
	}
}

func (c *Ctx) Count(tag string) { c.Dist[tag]++ }

// AddCross keeps a reservoir sample of (case line, extracted model's answer) pairs.
func (c *Ctx) AddCross(line, out string) {
	limit := c.N(150, 1500)
	c.CrossN++
	if len(line) > 4000 || strings.ContainsAny(line, "\"\n\r") || strings.ContainsAny(out, "\"\n\r") {
		return
	}
	if len(c.Cross) < limit {
		c.Cross = append(c.Cross, [2]string{line, out})
	} else if j := c.Rng.Intn(c.CrossN); j < limit {
		c.Cross[j] = [2]string{line, out}
	}
}

// CrossAll offers every (line, answer) pair of a model run to the cross-check sample.
func (c *Ctx) CrossAll(lines, outs []string) {
	for i := range outs {
		if i < len(lines) && outs[i] != "driver-stack-overflow" {
			c.AddCross(lines[i], outs[i])
		}
	}
}

// CrossCheck re-evaluates the sampled cases inside Coq (vm_compute on Model/WireAll.v run_case_all) and
// compares with what the extracted OCaml driver answered: extraction and the driver are checked by the
// kernel's own evaluator.  Returns the number of cases checked and an error text.
func (c *Ctx) CrossCheck() (int, string) {
	if len(c.Cross) == 0 {
		return 0, ""
	}
	var sb strings.Builder
	sb.WriteString("From Mpath.Model Require Import Base WireAll.\nOpen Scope string_scope.\n")
	sb.WriteString("Definition cases : list (string * string) := [\n")
	for i, p := range c.Cross {
		sep := ";"
		if i == len(c.Cross)-1 {
			sep = ""
		}
		fmt.Fprintf(&sb, " (\"%s\", \"%s\")%s\n", p[0], p[1], sep)
	}
	sb.WriteString("].\n")
	sb.WriteString("Definition mismatches := filter (fun p => negb (str_eqb (run_case_all (bs (fst p))) (bs (snd p)))) cases.\n")
	sb.WriteString("Lemma cross_check : mismatches = [].\nProof. vm_compute. reflexivity. Qed.\n")
	dir := filepath.Join(c.Root, "build", "cross")
	os.MkdirAll(dir, 0o755)
	file := filepath.Join(dir, "Cross"+c.Prop+".v")
	os.WriteFile(file, []byte(sb.String()), 0o644)
	coq := filepath.Join(c.Root, "coq")
	cmd := exec.Command("timeout", "600", "coqc", "-Q", filepath.Join(coq, "Model"), "Mpath.Model", "-Q", filepath.Join(coq, "Generated"), "Mpath.Generated", file)
	cmd.Dir = dir
	out, err := cmd.CombinedOutput()
	if err != nil {
		return len(c.Cross), "the extracted model and Coq's vm_compute disagree on the sampled cases (" + file + "): " + short(string(out))
	}
	return len(c.Cross), ""
}

func (c *Ctx) Note(k string, v any) { c.Extra[k] = v }

// observable of an evaluation at level P
func obs(o h.Outcome, errClass bool) string {
	s := h.AbsOutcome(o)
	if !errClass && (s == "knf" || s == "other") {
		return "err"
	}
	return s
}

// RunEvalCases executes all queued evaluation cases on both sides and records
// every level-P mismatch as a violation candidate.
func (c *Ctx) RunEvalCases() {
	if len(c.Cases) == 0 {
		return
	}
	lines := make([]string, len(c.Cases))
	batch := make([]h.ImplCase, len(c.Cases))
	for i, ec := range c.Cases {
		// the carrier builder must reproduce the description it was given
		val := h.Build(ec.Data)
		back, err := h.Describe(val)
		if err != nil || !sameDesc(back, ec.Data) {
			fmt.Fprintf(os.Stderr, "harness self-check: description not reproduced for %s: %v\n  want %s\n  got  %v\n", ec.Query, err, ec.Data, back)
			os.Exit(3)
		}
		batch[i] = h.ImplCase{Query: ec.Query, Data: ec.Data}
		lines[i] = h.EvalLine(ec.Query, ec.Data, ec.Eng)
	}
	for i, o := range h.RunImplBatch(batch, 12) {
		c.Cases[i].Impl = o
	}
	var outs []string
	if c.Proofs.ModelBuilt {
		var err error
		outs, err = h.RunModel(c.Driver, lines)
		if err != nil {
			fmt.Fprintln(os.Stderr, err)
			os.Exit(3)
		}
	}
	for i, ec := range c.Cases {
		c.Evals++
		c.Count(ec.Tag)
		c.Count("impl:" + ec.Impl.Class)
		key := ec.Query + "\x00" + ec.Data.String()
		if ec.Nontriv {
			c.Distinct[key] = true
		}
		if ec.Check != nil {
			if why := ec.Check(ec.Impl); why != "" {
				c.Violation("relation", fmt.Sprintf("query %q: %s (implementation: %s)", ec.Query, why, short(ec.Impl.String())),
					map[string]any{"kind": "eval", "query": ec.Query, "data": ec.Data.String(), "engines": ec.Eng, "err_class": ec.ErrClass,
						"implementation": ec.Impl.String(), "impl_note": ec.Impl.Note, "oracle": why, "tag": ec.Tag})
			}
		}
		if outs == nil {
			continue
		}
		ec.ModelLine = outs[i]
		c.AddCross(lines[i], outs[i])
		ec.Model = h.ParseModelOutcome(outs[i])
		c.Count("model:" + ec.Model.Class)
		switch ec.Model.Class {
		case "declined":
			c.Declined++
			continue
		case "fuel":
			c.Fuel++
			continue
		case "badcase":
			fmt.Fprintf(os.Stderr, "model rejected the case line: %s\n", lines[i])
			os.Exit(3)
		}
		io, mo := obs(ec.Impl, ec.ErrClass), obs(ec.Model, ec.ErrClass)
		if ec.Proj != nil {
			if io != mo {
				c.DriftN++
				if len(c.Drift) < 3 {
					c.Drift = append(c.Drift, fmt.Sprintf("query %q on %s: implementation %s, model %s", ec.Query, short(ec.Data.String()), short(io), short(mo)))
				}
			}
			io, mo = ec.Proj(ec.Impl), ec.Proj(ec.Model)
		}
		if io != mo {
			c.Violation("mismatch", fmt.Sprintf("query %q: implementation %s, model/spec %s", ec.Query, short(io), short(mo)),
				map[string]any{"kind": "eval", "query": ec.Query, "data": ec.Data.String(), "engines": ec.Eng, "err_class": ec.ErrClass,
					"implementation": ec.Impl.String(), "impl_note": ec.Impl.Note, "model": ec.ModelLine, "tag": ec.Tag})
		}
		if i%(len(c.Cases)/8+1) == 0 {
			c.Sample(map[string]any{"query": ec.Query, "data": ec.Data.String(), "implementation": short(ec.Impl.String()), "model": short(ec.ModelLine)})
		}
	}
	c.Cases = nil
}

func short(s string) string {
	if len(s) > 300 {
		return s[:300] + "…"
	}
	return s
}

// sameDesc compares descriptions up to the order of map entries.
func sameDesc(a, b *h.D) bool { return canon(a) == canon(b) }

func canon(d *h.D) string {
	if d == nil {
		return "<nil>"
	}
	if d.Tag == "m" {
		items := []string{}
		for i := range d.Ks {
			items = append(items, "("+canon(d.Ks[i])+" "+canon(d.Vs[i])+")")
		}
		sort.Strings(items)
		return fmt.Sprintf("(m %s %s %v %s)", d.Kty, d.Ety, d.IsNil, strings.Join(items, " "))
	}
	switch d.Tag {
	case "sl", "ar":
		items := []string{}
		for _, x := range d.Xs {
			items = append(items, canon(x))
		}
		return fmt.Sprintf("(%s %s %v %s)", d.Tag, d.Ety, d.IsNil, strings.Join(items, " "))
	case "st":
		items := []string{}
		for _, f := range d.Fs {
			items = append(items, fmt.Sprintf("(%s %v %v %s)", f.Name, f.Exported, f.Iface, canon(f.V)))
		}
		return "(st " + strings.Join(items, " ") + ")"
	case "p":
		if d.Ptr == nil {
			return "(p nil)"
		}
		return "(p " + canon(d.Ptr) + ")"
	}
	return d.String()
}

var props = map[string]func(*Ctx){}

type knownFinding struct {
	Prop  string
	Class string
	Text  string
}

func loadKnown(root string) []knownFinding {
	b, err := os.ReadFile(filepath.Join(root, "known_findings.txt"))
	if err != nil {
		return nil
	}
	var out []knownFinding
	for _, l := range strings.Split(string(b), "\n") {
		l = strings.TrimSpace(l)
		if !strings.HasPrefix(l, "known:") {
			continue
		}
		kf := knownFinding{Text: strings.TrimSpace(strings.TrimPrefix(l, "known:"))}
		for _, f := range strings.Fields(kf.Text) {
			if strings.HasPrefix(f, "property=") {
				kf.Prop = strings.TrimPrefix(f, "property=")
			}
			if strings.HasPrefix(f, "class=") {
				kf.Class = strings.TrimPrefix(f, "class=")
			}
		}
		out = append(out, kf)
	}
	return out
}

// classOf names the known-finding class a violation falls in ("" = none).
// The predicates are deliberately narrow: see known_findings.txt.
var classifiers = map[string]func(v Violation) string{}

func main() {
	prop := flag.String("prop", "", "property id")
	tier := flag.String("tier", "quick", "quick|thorough")
	seed := flag.Int64("seed", 1, "PRNG seed")
	root := flag.String("root", "/verif", "verif root")
	proofs := flag.String("proofs", "", "proof status json written by bin/check")
	replay := flag.String("replay", "", "replay file")
	worker := flag.Bool("worker", false, "internal: run as an implementation worker")
	flag.Parse()
	if *worker {
		h.WorkerMain()
		return
	}
	start := time.Now()

	c := &Ctx{Prop: *prop, Tier: *tier, Seed: *seed, Rng: rand.New(rand.NewSource(*seed)), Root: *root,
		Driver: filepath.Join(*root, "build/ocaml/driver"), Dist: map[string]int{}, Distinct: map[string]bool{}, Extra: map[string]any{}}
	if *proofs != "" {
		b, err := os.ReadFile(*proofs)
		if err != nil {
			fmt.Fprintln(os.Stderr, err)
			os.Exit(3)
		}
		if err := json.Unmarshal(b, &c.Proofs); err != nil {
			fmt.Fprintln(os.Stderr, err)
			os.Exit(3)
		}
	} else {
		c.Proofs.ModelBuilt = true
	}
	if *replay != "" {
		b, err := os.ReadFile(*replay)
		if err != nil {
			fmt.Fprintln(os.Stderr, err)
			os.Exit(3)
		}
		var v Violation
		if err := json.Unmarshal(b, &v); err != nil {
			fmt.Fprintln(os.Stderr, err)
			os.Exit(3)
		}
		c.ReplayIn = v.Case
	}
	run, ok := props[*prop]
	if !ok {
		fmt.Fprintf(os.Stderr, "unknown property %s\n", *prop)
		os.Exit(3)
	}
	if c.ReplayIn != nil {
		replayCase(c)
	} else {
		run(c)
		c.RunEvalCases()
	}

	if c.ReplayIn == nil && c.Proofs.ModelBuilt {
		n, msg := c.CrossCheck()
		c.Extra["vm_compute_cross_checked"] = n
		if msg != "" {
			c.Violation("proof", msg, map[string]any{"kind": "proof", "theorem": "<extraction cross-check>"})
		}
	}
	// proof obligations that no longer check are violations too
	for _, b := range c.Proofs.Broken {
		c.Violation("proof", "theorem or build step no longer checks: "+b, map[string]any{"kind": "proof", "theorem": b, "build_log": c.Proofs.BuildLog})
	}

	// dedupe, shrink (keep the shortest few per kind), match known findings
	known := loadKnown(*root)
	reported := 0
	knownPrinted := map[string]bool{}
	sort.SliceStable(c.Viol, func(i, j int) bool { return len(fmt.Sprint(c.Viol[i].Case)) < len(fmt.Sprint(c.Viol[j].Case)) })
	// recorded findings first; `concrete` counts the violations with a failing input that are NOT
	// recorded (a broken proof is reported on its own unless such an input is reported instead)
	concrete := 0
	for i := range c.Viol {
		v := &c.Viol[i]
		if cl, ok := classifiers[*prop]; ok {
			if class := cl(*v); class != "" {
				for _, kf := range known {
					if kf.Prop == *prop && kf.Class == class {
						v.Known = kf.Text
					}
				}
			}
		}
		if v.Known == "" && v.Kind != "proof" && v.Kind != "correspondence" {
			concrete++
		}
	}
	os.MkdirAll(filepath.Join(*root, "replays"), 0o755)
	unknownCount := 0
	for i := range c.Viol {
		v := &c.Viol[i]
		if v.Known != "" {
			if !knownPrinted[v.Known] {
				knownPrinted[v.Known] = true
				fmt.Printf("KNOWN-FINDING: %s\n", v.Known)
			}
			continue
		}
		unknownCount++
		if (v.Kind == "proof" || v.Kind == "correspondence") && concrete > 0 {
			continue // a concrete failing input is reported instead
		}
		if reported >= 5 {
			continue
		}
		reported++
		b, _ := json.MarshalIndent(map[string]any{"property": *prop, "kind": v.Kind, "what": v.What, "case": v.Case}, "", " ")
		sum := sha256.Sum256(b)
		path := filepath.Join(*root, "replays", fmt.Sprintf("%s-%s.json", *prop, hex.EncodeToString(sum[:6])))
		os.WriteFile(path, b, 0o644)
		v.Replay = path
		if v.Kind == "proof" || v.Kind == "correspondence" {
			fmt.Printf("VIOLATION property=%s replay=%s no-failing-input-found\n", *prop, path)
		} else {
			fmt.Printf("VIOLATION property=%s replay=%s\n", *prop, path)
		}
		fmt.Printf("  %s\n", v.What)
	}

	if c.ReplayIn == nil {
		writeEvidence(c, time.Since(start).Seconds(), unknownCount)
	}
	if unknownCount > 0 {
		os.Exit(1)
	}
}

func writeEvidence(c *Ctx, wall float64, violations int) {
	cov := map[string]any{
		"obligations":         len(c.Proofs.Obligations),
		"discharged":          len(c.Proofs.Discharged),
		"theorems":            c.Proofs.Obligations,
		"checker_cmd":         c.Proofs.CheckerCmd,
		"axioms_reported":     c.Proofs.Axioms,
		"trusted_base":        trustedBase,
		"evaluations":         c.Evals,
		"distinct_nontrivial": len(c.Distinct),
		"rule":                c.Rule,
		"samples":             c.Samples,
		"distribution":        c.Dist,
		"model_declined":      c.Declined,
		"model_out_of_fuel":   c.Fuel,
		"exhaustive":          c.Exhaust,
		"model_drift":         map[string]any{"count": c.DriftN, "samples": c.Drift},
	}
	for k, v := range c.Extra {
		cov[k] = v
	}
	if c.Samples == nil {
		cov["samples"] = []any{}
	}
	ev := map[string]any{
		"property_id": c.Prop,
		"tier":        c.Tier,
		"seed":        c.Seed,
		"level":       "proof",
		"coverage":    cov,
		"assumptions": append([]string{}, c.Assume...),
		"wall_s":      wall,
		"violations":  violations,
	}
	b, _ := json.MarshalIndent(ev, "", " ")
	os.MkdirAll(filepath.Join(c.Root, "evidence"), 0o755)
	if err := os.WriteFile(filepath.Join(c.Root, "evidence", c.Prop+".json"), b, 0o644); err != nil {
		fmt.Fprintln(os.Stderr, err)
		os.Exit(3)
	}
}

var trustedBase = []string{
	"Coq 8.16.1 kernel and its vm_compute evaluator (no native_compute)",
	"extraction to OCaml 4.13.1 with ExtrOcamlBasic + ExtrOcamlString only (no Extract Constant; Z/N/nat stay inductive), cross-checked on a sample by vm_compute inside Coq",
	"ocaml/driver.ml (line I/O only), harness/ (generators, carrier builder with reflective self-check, projections, differ), harness/cmd/gentables (go/ast extractor of the declarative tables)",
	"modelled, not verified: reflect as used by mpath, text/scanner, shopspring/decimal (re-implemented in Dec.v), float64 shortest-decimal conversion, Unicode tables (parameter), regexp / JSON / YAML / TOML / XML / fmt.Sprintf (oracle parameters), cuelang on the stated fragment, sync.Pool and sync.Mutex as their textbook specifications",
}

func replayCase(c *Ctx) {
	switch c.ReplayIn["kind"] {
	case "eval":
		d, err := h.ParseD(c.ReplayIn["data"].(string))
		if err != nil {
			fmt.Fprintln(os.Stderr, err)
			os.Exit(3)
		}
		eng, _ := c.ReplayIn["engines"].(string)
		ec := c.AddEval(c.ReplayIn["query"].(string), d, "replay", c.ReplayIn["err_class"] == true, true)
		ec.Eng = eng
		c.RunEvalCases()
		fmt.Printf("replay: implementation %s | model %s\n", ec.Impl.String(), ec.ModelLine)
	default:
		if f, ok := replayers[c.Prop]; ok {
			f(c)
			return
		}
		if job, ok := replayJob(c.ReplayIn); ok {
			out := h.RunJobsFresh([]h.Job{job}, 1)[0]
			if b, err := hex.DecodeString(out); err == nil && len(b) > 0 {
				out = string(b)
			}
			fmt.Printf("replay (%s job, in a fresh process, against the current tree):\n%s\n", job.Kind, out)
			return
		}
		if cmdline, ok := c.ReplayIn["replay_cmd"].(string); ok {
			fmt.Println("replay: run  " + cmdline)
			return
		}
		fmt.Println("replay: this replay names a theorem, a correspondence or a build step; re-run the check to see whether it holds now")
	}
}

var replayers = map[string]func(*Ctx){}

// replayJob rebuilds the worker job of a recorded case.
func replayJob(cs map[string]any) (h.Job, bool) {
	str := func(k string) string { s, _ := cs[k].(string); return s }
	unhex := func(a string) string {
		b, _ := hex.DecodeString(strings.TrimPrefix(a, "x"))
		return string(b)
	}
	switch cs["kind"] {
	case "parse":
		seed, _ := cs["seed"].(float64)
		fa, _ := cs["fault_at"].(float64)
		return parseJobOf(unhex(str("input_hex")), int64(seed), int(fa)), true
	case "parsehist":
		return h.Job{Kind: "parsehist", Payload: str("payload")}, true
	case "validate":
		return valJob(str("query"), str("schema"), str("current")), true
	case "valhist":
		return h.Job{Kind: "valhist", Payload: str("payload")}, true
	case "analysis":
		if ch := str("chain"); ch != "" {
			return h.Job{Kind: "analysis", Payload: ch}, true
		}
		return h.Job{Kind: "analysis", Payload: hex.EncodeToString([]byte(str("query")))}, true
	case "purity":
		return h.Job{Kind: "purity", Payload: hex.EncodeToString([]byte(str("query"))) + "\t" + str("data") + "\t20"}, true
	case "reuse":
		var ss []string
		if l, ok := cs["states"].([]any); ok {
			for _, x := range l {
				ss = append(ss, fmt.Sprint(x))
			}
		}
		return h.Job{Kind: "reuse", Payload: hex.EncodeToString([]byte(str("query"))) + "\t" + strings.Join(ss, ";")}, true
	}
	return h.Job{}, false
}
