package main

import (
	"fmt"
	"math/big"
	"sort"
	"strings"

	"github.com/machship/mpath"

	"verifharness/h"
)

// C07 — evaluation is total: an error or a result, never a panic.
//
// Exhaustive part: every function of ListFunctions() x every receiver kind x
// every argument tuple of length 0..2 (thorough: 0..3) over a pool of boundary
// arguments, with the receiver stored under a key and (for tuples of length
// <= 1) passed as the root itself.  Random part: composite queries over random
// carriers.  Level P: normal (a result or a non-nil error) vs panic / fatal /
// hang / error-value-as-data; the full value is level D.
func init() {
	props["C07"] = c07
	classifiers["C07"] = func(v Violation) string {
		if v.Case["tag"] == "select-self-reference" {
			return "self-reproducing-select"
		}
		return ""
	}
}

func classC07(o h.Outcome) string {
	switch o.Class {
	case "ok", "knf", "other", "parse-err":
		return "normal"
	}
	return o.Class
}

// markC07: level P is the class; the relation "a result or a non-nil error, never a panic, a crash,
// a hang or an error handed back as data" is also checked on the implementation alone (the model
// may decline a case, e.g. a numeral outside its fragment).
func markC07(ec *EvalCase) {
	ec.Proj = classC07
	ec.Check = func(o h.Outcome) string {
		if c := classC07(o); c != "normal" {
			return "evaluation must return a result or a non-nil error; got " + c + " " + short(o.Note)
		}
		return ""
	}
}

type namedD struct {
	name string
	d    *D
}
type D = h.D

func receiversC07() []namedD {
	big63 := new(big.Int).Lsh(big.NewInt(1), 63)
	return []namedD{
		{"null", h.Nil()},
		{"bool", h.Bool(true)},
		{"number", h.FloatD(2.5)},
		{"int", h.Int("int", 3)},
		{"uint64-big", h.IntBig("uint64", big63)},
		{"decimal", h.Dec(15, -1)},
		{"string", h.Str("abc")},
		{"empty-string", h.Str("")},
		{"numeral-string", h.Str("12")},
		{"empty-array", h.SliceAny()},
		{"array", h.SliceAny(h.FloatD(1), h.FloatD(2), h.FloatD(3))},
		{"array-of-strings", h.Slice("str", h.Str("a"), h.Str("b"))},
		{"array-of-objects", h.SliceAny(h.Obj("k", h.FloatD(1)), h.Obj("k", h.Str("x")))},
		{"nil-slice", &D{Tag: "sl", Ety: "any", IsNil: true, Xs: []*D{}}},
		{"object", h.Obj("a", h.FloatD(1), "b", h.Str("x"))},
		{"empty-object", h.Obj()},
		{"nil-map", &D{Tag: "m", Kty: "str", Ety: "any", IsNil: true}},
		// objects whose keys are not strings: what a YAML decoder builds (map[any]any, keys of several kinds side by side), maps keyed by numbers or booleans
		{"object-mixed-keys", &D{Tag: "m", Kty: "any", Ety: "any",
			Ks: []*D{h.Int("int", 1), h.Str("a"), h.Int("uint", 2), h.Bool(true), h.FloatD(2.5), h.Str("k"), h.Int("int64", -7)},
			Vs: []*D{h.Obj("k", h.FloatD(1)), h.Obj("k", h.Str("x")), h.Obj("k", h.FloatD(2)), h.FloatD(3), h.Str("v"), h.FloatD(4), h.Obj("k", h.Bool(true))}}},
		{"object-int-and-string-keys", &D{Tag: "m", Kty: "any", Ety: "any", Ks: []*D{h.Int("int", 1), h.Str("a"), h.Int("int", 2), h.Str("b")},
			Vs: []*D{h.Obj("k", h.FloatD(1)), h.Obj("k", h.FloatD(2)), h.Obj("k", h.FloatD(3)), h.Obj("k", h.FloatD(4))}}},
		{"object-nil-key", &D{Tag: "m", Kty: "any", Ety: "any", Ks: []*D{h.Nil(), h.Str("a")}, Vs: []*D{h.FloatD(1), h.Obj("k", h.FloatD(2))}}},
		{"object-int-keys", &D{Tag: "m", Kty: "other", Ety: "any", Ks: []*D{h.Int("int", 1), h.Int("int", 65)}, Vs: []*D{h.Obj("k", h.FloatD(1)), h.Obj("k", h.FloatD(2))}}},
		{"object-bool-keys", &D{Tag: "m", Kty: "other", Ety: "any", Ks: []*D{h.Bool(false), h.Bool(true)}, Vs: []*D{h.Obj("k", h.FloatD(1)), h.Obj("k", h.FloatD(2))}}},
		{"object-float-keys", &D{Tag: "m", Kty: "other", Ety: "any", Ks: []*D{h.FloatD(1.5), h.FloatD(2)}, Vs: []*D{h.Obj("k", h.FloatD(1)), h.Obj("k", h.FloatD(2))}}},
		{"struct", &D{Tag: "st", Fs: []h.Field{{Name: "A", Exported: true, Iface: false, V: h.Int("int", 1)}, {Name: "B", Exported: true, Iface: true, V: h.Str("x")}}}},
		{"struct-unexported", &D{Tag: "st", Fs: []h.Field{{Name: "A", Exported: true, Iface: true, V: h.Int("int", 1)}, {Name: "b", Exported: false, Iface: true, V: h.Str("x")}}}},
		// a struct that holds, by value, a struct of ANOTHER type with an unexported field; a Go array of such structs; the zero values of both
		{"struct-nesting-unexported", &D{Tag: "st", Fs: []h.Field{{Name: "Inner", Exported: true, Iface: false, V: unexpAD(h.Int("int", 1), h.Str("x"))}, {Name: "N", Exported: true, Iface: true, V: h.FloatD(2)}}}},
		{"struct-nesting-unexported-zero", &D{Tag: "st", Fs: []h.Field{{Name: "Inner", Exported: true, Iface: false, V: unexpAD(h.Nil(), h.Nil())}, {Name: "N", Exported: true, Iface: true, V: h.Nil()}}}},
		{"array-of-struct-unexported", &D{Tag: "ar", Ety: "other", Xs: []*D{unexpAD(h.Int("int", 1), h.Str("x")), unexpAD(h.Nil(), h.Nil())}}},
		{"slice-of-struct-unexported", &D{Tag: "sl", Ety: "other", Xs: []*D{unexpAD(h.Int("int", 1), h.Str("x")), unexpAD(h.Nil(), h.Nil())}}},
		{"nil-pointer", h.NilPtr()},
		{"pointer-to-int", h.PtrTo(h.Int("int", 7))},
		{"pointer-to-bool", h.PtrTo(h.Bool(true))},
		{"func", &D{Tag: "fn"}},
		{"nil-func", &D{Tag: "fn", IsNil: true}},
		{"chan", &D{Tag: "ch"}},
	}
}

func unexpAD(a, b *D) *D {
	return &D{Tag: "st", Fs: []h.Field{{Name: "A", Exported: true, Iface: true, V: a}, {Name: "b", Exported: false, Iface: true, V: b}}}
}

var argPoolC07 = []string{"0", "-1", "1.5", "1e30", `""`, `"a"`, `"0"`, `"(["`, "true", "$.arr", "$.zs", `"$.k"`, "{$.t}", "2"}

func funcNames() []string {
	fs := mpath.ListFunctions()
	names := []string{}
	for _, d := range fs {
		names = append(names, string(d.Name))
	}
	sort.Strings(names)
	return names
}

func c07(c *Ctx) {
	maxArgs := 2
	if c.Thorough() {
		maxArgs = 3
	}
	c.Rule = fmt.Sprintf("exhaustive: every function of ListFunctions() x %d receiver kinds (maps keyed by mixed kinds / nil / ints / bools / floats, structs nesting by value a struct with an unexported field, arrays and slices of such structs included) x every argument tuple of length 0..%d over the pool %v, receiver under a key (`$.r.F(args)`) and, for tuples of length <=1, as the root (`$.F(args)`); random: composite queries (chains, filters, groups, Select) over random carriers. Non-trivial = the call reaches the function (parses); distinct by (query, data).", len(receiversC07()), maxArgs, argPoolC07)
	names := funcNames()
	recvs := receiversC07()
	var tuples [][]string
	var gen func(n int, cur []string)
	gen = func(n int, cur []string) {
		tuples = append(tuples, append([]string{}, cur...))
		if n == maxArgs {
			return
		}
		for _, a := range argPoolC07 {
			gen(n+1, append(cur, a))
		}
	}
	gen(0, nil)
	if c.Thorough() {
		// all tuples up to length 2, a seeded third of the length-3 ones
		keep := tuples[:0]
		for _, t := range tuples {
			if len(t) <= 2 || c.Rng.Intn(3) == 0 {
				keep = append(keep, t)
			}
		}
		tuples = keep
	}
	for _, fn := range names {
		for _, r := range recvs {
			doc := h.Obj("r", r.d, "arr", h.SliceAny(h.FloatD(1), h.FloatD(2)), "k", h.Str("a"), "t", h.Bool(true))
			for _, t := range tuples {
				q := "$.r." + fn + "(" + strings.Join(t, ",") + ")"
				ec := c.AddEval(q, doc, "keyed:"+r.name, false, true)
				markC07(ec)
				if len(t) <= 1 && !(len(t) == 1 && strings.HasPrefix(t[0], "$") || len(t) == 1 && strings.HasPrefix(t[0], "{")) {
					q2 := "$." + fn + "(" + strings.Join(t, ",") + ")"
					ec2 := c.AddEval(q2, r.d, "root:"+r.name, false, true)
					markC07(ec2)
				}
			}
		}
	}
	// boundary counts and indexes around the int64 / uint64 limits, on string and array receivers
	huge := []string{"9223372036854775807", "9223372036854775808", "1e19", "18446744073709551615", "18446744073709551616", "-9223372036854775809", "1e18", "4294967296", "$.big"}
	for _, fn := range []string{"Left", "Right", "TrimLeft", "TrimRight", "Index"} {
		for _, hv := range huge {
			doc := h.Obj("r", h.Str("hello"), "arr", h.SliceAny(h.FloatD(1), h.FloatD(2)), "big", h.IntBig("uint64", new(big.Int).Lsh(big.NewInt(1), 63)))
			recv := "$.r."
			if fn == "Index" {
				recv = "$.arr."
			}
			ec := c.AddEval(recv+fn+"("+hv+")", doc, "boundary-counts", false, true)
			markC07(ec)
		}
	}
	// every receiver kind x key lookups (keys that fold onto exported and unexported fields, onto the
	// internals of decimal.Decimal, absent keys), bare, under `?`, across arrays and inside filters / Select
	keysC07 := []string{"a", "A", "b", "B", "k", "value", "Value", "exp", "zz"}
	for _, r := range recvs {
		for _, k := range keysC07 {
			doc := h.Obj("r", r.d, "xs", h.SliceAny(r.d, r.d))
			for _, q := range []string{"$.r." + k, "$.r." + k + "?.IsNull()", "$.xs." + k, "$.xs[@." + k + ".IsNull()]", "$.xs.Select(\"$." + k + "\")", "$." + k} {
				var ec *EvalCase
				if strings.HasPrefix(q, "$."+k) && !strings.HasPrefix(q, "$.r") && !strings.HasPrefix(q, "$.xs") {
					ec = c.AddEval(q, r.d, "keys-root:"+r.name, false, true)
				} else {
					ec = c.AddEval(q, doc, "keys:"+r.name, false, true)
				}
				markC07(ec)
			}
		}
	}
	// the recorded finding: a Select whose sub-query is read from the data and reproduces itself
	{
		q := "$.AsArray().Select($.q)"
		ec := c.AddEval(q, h.Obj("q", h.Str(q)), "select-self-reference", false, true)
		markC07(ec)
		ec.Proj = nil // the model answers OutOfFuel: compared on the implementation only
	}
	c.RunEvalCases()
	c.Note("functions", len(names))
	c.Note("receiver_kinds", len(recvs))
	c.Note("argument_tuples", len(tuples))

	// random composite queries over random carriers
	n := c.N(6000, 150000)
	g := &qgen{c: c}
	for i := 0; i < n; i++ {
		doc := g.randDoc(3)
		q := g.randQuery(3)
		ec := c.AddEval(q, doc, "random", false, true)
		markC07(ec)
	}
	c.RunEvalCases()
}
