package main

import (
	"fmt"
	"math/big"
	"strings"

	"verifharness/h"
)

// C05 — comparison and equality decide by value, coherently.
//
// Exhaustive part: all ordered pairs of a grid of decimals (equal values at
// different scales, neighbours in the last digit) x every spelling of the
// argument (10, 10.0, 1e1, numeric string where accepted, path) x storage of
// the receiver (float64, decimal at several scales, int kinds, uint8); for
// every pair the seven answers (Less … NotEqual) are collected from the
// implementation and checked against math/big AND against the coherence
// relations; AnyOf with 0..6 mixed arguments.  Random part: random decimal
// pairs; random string / boolean pairs.
func init() { props["C05"] = c05 }

var gridC05 = []string{"0", "1", "-1", "10", "9.99", "10.01", "0.1", "0.10", "0.100", "-0.1", "100", "1e2", "999999999999999", "999999999999998",
	"0.000000001", "0.000000002", "2.5", "-2.5", "1e1", "1.0e1", "3", "0.3", "0.30"}

func spellings(t string) []string {
	r := ratStr(t)
	out := []string{t}
	if r.Sign() == 0 {
		out = append(out, "0.0", "0.00", "0e0", "0e5", "-0", "0.000")
	}
	if r.IsInt() && r.Num().IsInt64() && r.Num().Int64() != 0 && abs64(r.Num().Int64()) < 1000 {
		n := r.Num().Int64()
		out = append(out, fmt.Sprintf("%d.0", n), fmt.Sprintf("%d.00", n), fmt.Sprintf("%de0", n))
		if n > 0 {
			out = append(out, fmt.Sprintf("0%d", n), fmt.Sprintf("00%d", n), fmt.Sprintf("0%d.0", n)) // zero-padded: still decimal
		}
		if n%10 == 0 {
			out = append(out, fmt.Sprintf("%de1", n/10))
		}
	}
	return out
}

func storages(t string) []*D {
	r := ratStr(t)
	f, _ := new(big.Float).SetRat(r).Float64()
	out := []*D{h.FloatD(f)}
	if r.Sign() == 0 {
		// zero stored with a positive exponent (decimal.Zero itself is 0e1) and with deep scales
		out = append(out, &D{Tag: "d", Coef: big.NewInt(0), Exp: 1}, &D{Tag: "d", Coef: big.NewInt(0), Exp: 7}, &D{Tag: "d", Coef: big.NewInt(0), Exp: -20})
	}
	// decimal at two scales
	num := new(big.Rat).Set(r)
	for _, e := range []int64{-3, -12} {
		sc := new(big.Rat).Mul(num, new(big.Rat).SetInt(new(big.Int).Exp(big.NewInt(10), big.NewInt(-e), nil)))
		if sc.IsInt() {
			out = append(out, &D{Tag: "d", Coef: new(big.Int).Set(sc.Num()), Exp: e})
		}
	}
	if r.IsInt() && r.Num().IsInt64() {
		n := r.Num().Int64()
		out = append(out, h.Int("int", n))
		if n > -(1<<31) && n < 1<<31 {
			out = append(out, h.Int("int32", n))
		}
		if n >= 0 && n < 256 {
			out = append(out, h.Int("uint8", n))
		}
	}
	return out
}

func c05(c *Ctx) {
	c.Rule = fmt.Sprintf("exhaustive: all ordered pairs of %d grid decimals x spellings of the argument x storages of the receiver, seven answers per pair checked against math/big and against trichotomy / LessOrEqual=Less||Equal / GreaterOrEqual=Greater||Equal / NotEqual=!Equal; AnyOf with 0..6 mixed arguments; random decimal, string and boolean pairs. Pairs stored at different scales whose rescaled coefficient is 17..21 digits long (around 2^63 and 2^64), both orders, decimal storage and literal; zero-padded literals. Non-trivial = the two values differ in representation or value; distinct by (query, data).", len(gridC05))
	fns := []string{"Less", "LessOrEqual", "Greater", "GreaterOrEqual", "Equal", "NotEqual"}
	wantOf := func(fn string, cmp int) bool {
		switch fn {
		case "Less":
			return cmp < 0
		case "LessOrEqual":
			return cmp <= 0
		case "Greater":
			return cmp > 0
		case "GreaterOrEqual":
			return cmp >= 0
		case "Equal":
			return cmp == 0
		}
		return cmp != 0
	}
	for _, at := range gridC05 {
		a := ratStr(at)
		for si, recv := range storages(at) {
			for _, bt := range gridC05 {
				b := ratStr(bt)
				cmp := a.Cmp(b)
				bf, _ := new(big.Float).SetRat(b).Float64()
				doc := h.Obj("x", recv, "y", h.FloatD(bf))
				args := spellings(bt)
				args = append(args, "$.y")
				if si > 0 {
					args = args[:1]
				}
				for _, arg := range args {
					for _, fn := range fns {
						ec := c.AddEval("$.x."+fn+"("+arg+")", doc, "pairs", false, at != bt)
						ec.Check = boolCheck(wantOf(fn, cmp))
						if fn != "Equal" && fn != "NotEqual" {
							// the order functions also accept the number as a numeric string
							if arg == bt && !strings.ContainsAny(bt, "e") {
								ec2 := c.AddEval("$.x."+fn+"(\""+arg+"\")", doc, "pairs:numeric-string", false, at != bt)
								ec2.Check = boolCheck(wantOf(fn, cmp))
							}
						}
					}
					ec := c.AddEval("$.x.AnyOf("+arg+")", doc, "anyof-1", false, at != bt)
					ec.Check = boolCheck(cmp == 0)
				}
			}
		}
	}
	c.RunEvalCases()

	// AnyOf with 0..6 mixed arguments, array-valued arguments spread
	n := c.N(10000, 120000)
	pool := []string{"1", "2", "2.0", "10", "1e1", "\"a\"", "\"b\"", "\"2\"", "true", "false", "$.nums", "$.strs", "$.one"}
	for i := 0; i < n; i++ {
		k := c.Rng.Intn(7)
		args := []string{}
		for j := 0; j < k; j++ {
			args = append(args, pool[c.Rng.Intn(len(pool))])
		}
		recvs := []struct {
			d    *D
			kind string
			num  *big.Rat
			s    string
			b    bool
		}{
			{h.FloatD(2), "num", big.NewRat(2, 1), "", false}, {h.FloatD(10), "num", big.NewRat(10, 1), "", false}, {h.FloatD(7), "num", big.NewRat(7, 1), "", false},
			{h.Str("a"), "str", nil, "a", false}, {h.Str("zz"), "str", nil, "zz", false}, {h.Bool(true), "bool", nil, "", true}, {h.Bool(false), "bool", nil, "", false},
		}
		rv := recvs[c.Rng.Intn(len(recvs))]
		doc := h.Obj("x", rv.d, "nums", h.SliceAny(h.FloatD(7), h.FloatD(3)), "strs", h.SliceAny(h.Str("zz"), h.Str("q")), "one", h.FloatD(1))
		want := false
		for _, a := range args {
			var nums []*big.Rat
			var strs []string
			var bools []bool
			switch {
			case a == "$.nums":
				nums = []*big.Rat{big.NewRat(7, 1), big.NewRat(3, 1)}
			case a == "$.strs":
				strs = []string{"zz", "q"}
			case a == "$.one":
				nums = []*big.Rat{big.NewRat(1, 1)}
			case a == "true" || a == "false":
				bools = []bool{a == "true"}
			case strings.HasPrefix(a, "\""):
				strs = []string{strings.Trim(a, "\"")}
			default:
				nums = []*big.Rat{ratStr(a)}
			}
			switch rv.kind {
			case "num":
				for _, x := range nums {
					if x.Cmp(rv.num) == 0 {
						want = true
					}
				}
			case "str":
				for _, x := range strs {
					if x == rv.s {
						want = true
					}
				}
			case "bool":
				for _, x := range bools {
					if x == rv.b {
						want = true
					}
				}
			}
		}
		ec := c.AddEval("$.x.AnyOf("+strings.Join(args, ",")+")", doc, "anyof-mixed", false, k > 0)
		ec.Check = boolCheck(want)
	}

	// pairs stored at different scales: to compare them one coefficient has to be written at the other's
	// exponent, and that rescaled coefficient is 17..21 digits long — on either side of 2^63 and 2^64, where
	// a machine-word shortcut would wrap.  Leading digits from a list around those limits, every shift.
	{
		r := c.Rng
		leads := []string{"1", "4", "9", "92", "9223372036854775807", "9223372036854775808", "93", "95", "99", "18", "18446744073709551615", "18446744073709551616", "19", "5"}
		digits := func(n int) string {
			var sb strings.Builder
			for i := 0; i < n; i++ {
				sb.WriteByte(byte('0' + r.Intn(10)))
			}
			return sb.String()
		}
		nsc := c.N(3000, 60000)
		for it := 0; it < nsc; it++ {
			total := 17 + r.Intn(5)
			shift := 1 + r.Intn(total-1)
			L := total - shift
			ld := leads[r.Intn(len(leads))]
			cas := ld
			if len(cas) > L {
				cas = cas[:L]
			} else if r.Intn(2) == 0 {
				cas += strings.Repeat("0", L-len(cas))
			} else {
				cas += digits(L - len(cas))
			}
			ca, _ := new(big.Int).SetString(cas, 10)
			if ca.Sign() == 0 {
				ca.SetInt64(1)
			}
			// b = cb * 10^-shift relative to a: near a (so that the answer is decided by the low digits) or anywhere
			scaled := new(big.Int).Mul(ca, new(big.Int).Exp(big.NewInt(10), big.NewInt(int64(shift)), nil))
			var cb *big.Int
			switch r.Intn(4) {
			case 0:
				cb = new(big.Int).Add(scaled, big.NewInt(int64(r.Intn(3)-1)))
			case 1:
				cb, _ = new(big.Int).SetString("1"+digits(shift), 10) // about 1, written with `shift` decimals
			default:
				cb, _ = new(big.Int).SetString(digits(1+r.Intn(19)), 10)
			}
			if r.Intn(2) == 0 {
				ca.Neg(ca)
			}
			if r.Intn(4) == 0 {
				cb.Neg(cb)
			}
			base := int64(r.Intn(5) - 2)
			da := &D{Tag: "d", Coef: ca, Exp: base}
			db := &D{Tag: "d", Coef: cb, Exp: base - int64(shift)}
			va := new(big.Rat).SetInt(ca)
			vb := new(big.Rat).SetInt(cb)
			vb.Quo(vb, new(big.Rat).SetInt(new(big.Int).Exp(big.NewInt(10), big.NewInt(int64(shift)), nil)))
			cmp := va.Cmp(vb) // the common factor 10^base does not change the order
			doc := h.Obj("x", da, "y", db)
			for _, fn := range fns {
				ec := c.AddEval("$.x."+fn+"($.y)", doc, "scaled-pairs", false, true)
				ec.Check = boolCheck(wantOf(fn, cmp))
				ec = c.AddEval("$.y."+fn+"($.x)", doc, "scaled-pairs", false, true)
				ec.Check = boolCheck(wantOf(fn, -cmp))
			}
			// the same pair with the argument written as a literal (its stored scale is then that of the text)
			if base == 0 && len(new(big.Int).Abs(cb).String()) <= 15 { // a literal carries up to 15 significant digits
				lit := decText(cb, shift)
				for _, fn := range fns {
					ec := c.AddEval("$.x."+fn+"("+lit+")", doc, "scaled-pairs:literal", false, true)
					ec.Check = boolCheck(wantOf(fn, cmp))
				}
			}
		}
	}

	// strings that are not numerals, booleans, cross-kind
	// ... including near-numerals: a numeral with a blank before or after it, with a separator, a second
	// sign, a second point, a dangling exponent — none of them is a number
	words := []string{"", "a", "A", "ab", "a b", "é", "true", "x1", " 1", "1 ", "1\t", "1 0", "1e", "1,000", "--1", "1.2.3", " 2.5 ",
		"\u00e9", "e\u0301", "\u212b", "\u00c5", "A\u030a"} // canonically equivalent spellings are different strings
	for _, s := range words {
		for _, t := range words {
			doc := h.Obj("x", h.Str(s), "y", h.Str(t))
			for _, arg := range []string{qlit(t), "$.y"} {
				ec := c.AddEval("$.x.Equal("+arg+")", doc, "strings", false, true)
				ec.Check = boolCheck(s == t)
				ec = c.AddEval("$.x.NotEqual("+arg+")", doc, "strings", false, true)
				ec.Check = boolCheck(s != t)
			}
		}
		// a string is never equal to a number or a bool
		doc := h.Obj("x", h.Str(s), "n", h.FloatD(1), "b", h.Bool(true))
		for _, arg := range []string{"1", "true", "$.n", "$.b", "2.5", "1000", "10"} {
			ec := c.AddEval("$.x.Equal("+arg+")", doc, "cross-kind", false, true)
			ec.Check = boolCheck(false)
			ec = c.AddEval("$.x.NotEqual("+arg+")", doc, "cross-kind", false, true)
			ec.Check = boolCheck(true)
			ec = c.AddEval("$.x.AnyOf("+arg+",3)", doc, "cross-kind", false, true)
			ec.Check = boolCheck(false)
		}
		ec := c.AddEval("$.x.AnyOf(\"zz\","+qlit(s)+")", doc, "strings", false, true)
		ec.Check = boolCheck(true)
	}
	for _, a := range []bool{false, true} {
		for _, b := range []bool{false, true} {
			doc := h.Obj("x", h.Bool(a), "y", h.Bool(b))
			for _, arg := range []string{fmt.Sprint(b), "$.y"} {
				ec := c.AddEval("$.x.Equal("+arg+")", doc, "bools", false, true)
				ec.Check = boolCheck(a == b)
			}
			ec := c.AddEval("$.x.Equal(1)", doc, "cross-kind", false, true)
			ec.Check = boolCheck(false)
			ec = c.AddEval("$.x.Equal(\"true\")", doc, "cross-kind", false, true)
			ec.Check = boolCheck(false)
		}
	}
	for _, t := range []string{"1", "0", "2.5"} {
		f, _ := new(big.Float).SetRat(ratStr(t)).Float64()
		doc := h.Obj("x", h.FloatD(f))
		for _, arg := range []string{"true", "false", "\"a\"", "\"\""} {
			ec := c.AddEval("$.x.Equal("+arg+")", doc, "cross-kind", false, true)
			ec.Check = boolCheck(false)
		}
	}
}

// decText writes coef * 10^-scale as a plain decimal numeral with exactly `scale` decimals
func decText(coef *big.Int, scale int) string {
	neg := coef.Sign() < 0
	t := new(big.Int).Abs(coef).String()
	for len(t) <= scale {
		t = "0" + t
	}
	t = t[:len(t)-scale] + "." + t[len(t)-scale:]
	if neg {
		t = "-" + t
	}
	return t
}
