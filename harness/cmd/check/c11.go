package main

import (
	"encoding/hex"
	"encoding/json"
	"fmt"
	"regexp"
	"strings"

	"github.com/machship/mpath"
	"github.com/shopspring/decimal"

	"verifharness/h"
)

// C11 — evaluation is pure: no mutation, same answer every time.
//
// A "purity" job runs inside a worker: the data is built from its
// description; a deep snapshot of the data (by reflection) and of the
// operation (Sprint + json.Marshal) is taken; the operation is evaluated R
// times (R in 3..50) on the data, interleaved with evaluations of other
// operations on the same data and with evaluations on a deep copy; all
// results must be equal, equal to what a freshly parsed copy of the query
// returns, and the snapshots must be unchanged afterwards.  Queries cover all
// functions (RemoveKeysBy*, Select, AsArray, filters that return sub-slices,
// aggregates with arguments); documents include typed slices with spare
// capacity and maps whose sibling keys collide under case folding (recorded
// finding: the result then depends on Go's map iteration order).
func init() {
	props["C11"] = c11
	h.Handlers["purity"] = purityJob
	classifiers["C11"] = func(v Violation) string {
		// the recorded finding is a key LOOKUP that folds onto colliding sibling keys ("ab" / "AB" / "Ab")
		q, _ := v.Case["query"].(string)
		if v.Case["collision"] == true && v.Case["aspect"] == "same-answer" && collidingLookup.MatchString(q) {
			return "case-colliding-sibling-keys"
		}
		return ""
	}
}

var collidingLookup = regexp.MustCompile(`(?i)\.ab\b`)

type purityReply struct {
	Parse     string `json:"parse"` // ok | err
	Results   int    `json:"results"`
	Same      bool   `json:"same"`      // all results of (op, data) equal
	FreshSame bool   `json:"freshSame"` // equal to a freshly parsed copy's result
	CopySame  bool   `json:"copySame"`  // equal to the result on a deep copy
	DataSame  bool   `json:"dataSame"`  // data deep-equal before and after
	OpSame    bool   `json:"opSame"`    // Sprint/Marshal of the operation unchanged
	Note      string `json:"note,omitempty"`
	First     string `json:"first,omitempty"`
}

var otherQueries = []string{"$.tiny.Divide(7)", "$.tiny.Divide($.n)", "$.a", "$.xs.Count()", "$.m.RemoveKeysByPrefix(\"a\")", "$.xs[@.k.Greater(0)]", "$.nums.Sum(1)", "$.xs.Select(\"$.k\")"}

func evalStr(op mpath.Operation, data any) (out string) {
	defer func() {
		if r := recover(); r != nil {
			out = "panic:" + fmt.Sprint(r)
		}
	}()
	res, err := op.Do(data, data)
	if err != nil {
		return "err:" + err.Error()
	}
	d, derr := h.Describe(res)
	if derr != nil {
		b, _ := json.Marshal(res)
		return "undescribable:" + string(b)
	}
	return "ok:" + d.String()
}

func purityJob(payload string) string {
	parts := strings.Split(payload, "\t")
	if len(parts) != 3 {
		return "badcase"
	}
	qb, e1 := hex.DecodeString(parts[0])
	d, e2 := h.ParseD(parts[1])
	var reps int
	fmt.Sscan(parts[2], &reps)
	if e1 != nil || e2 != nil {
		return "badcase"
	}
	var rep purityReply
	op, err := mpath.ParseString(string(qb))
	if err != nil || op == nil {
		rep.Parse = "err"
		b, _ := json.Marshal(rep)
		return hex.EncodeToString(b)
	}
	rep.Parse = "ok"
	data := h.Build(d)
	copyData := h.Build(d)
	// []decimal.Decimal values of the root object get spare capacity that a longer slice of the
	// caller aliases: a write past their length is then visible in `sentinels`
	var sentinels [][]decimal.Decimal
	if m, ok := data.(map[string]any); ok {
		for k, v := range m {
			if ds, ok := v.([]decimal.Decimal); ok {
				full := make([]decimal.Decimal, len(ds), len(ds)+4)
				copy(full, ds)
				full = append(full, decimal.NewFromInt(-777), decimal.NewFromInt(-778), decimal.NewFromInt(-779), decimal.NewFromInt(-780))
				m[k] = full[:len(ds)]
				sentinels = append(sentinels, full)
			}
		}
	}
	before, _ := h.Describe(data)
	opMarshal, _ := json.Marshal(op)
	opBefore := op.Sprint(0) + "\x00" + string(opMarshal)
	var others []mpath.Operation
	for _, oq := range otherQueries {
		if o, err := mpath.ParseString(oq); err == nil {
			others = append(others, o)
		}
	}
	rep.Same, rep.FreshSame, rep.CopySame = true, true, true
	first := evalStr(op, data)
	rep.First = first
	if len(rep.First) > 300 {
		rep.First = rep.First[:300]
	}
	for i := 1; i < reps; i++ {
		evalStr(others[i%len(others)], data)
		if i%3 == 0 {
			if got := evalStr(op, copyData); got != first {
				rep.CopySame = false
				rep.Note = "on a deep copy: " + got
			}
		}
		if got := evalStr(op, data); got != first {
			rep.Same = false
			rep.Note = fmt.Sprintf("evaluation %d: %s", i+1, got)
		}
		rep.Results++
	}
	if fresh, err := mpath.ParseString(string(qb)); err == nil {
		if got := evalStr(fresh, data); got != first {
			rep.FreshSame = false
			rep.Note = "freshly parsed copy: " + got
		}
	}
	after, _ := h.Describe(data)
	rep.DataSame = before != nil && after != nil && canon(before) == canon(after)
	for _, full := range sentinels {
		n := len(full)
		if !full[n-4].Equal(decimal.NewFromInt(-777)) || !full[n-3].Equal(decimal.NewFromInt(-778)) || !full[n-2].Equal(decimal.NewFromInt(-779)) || !full[n-1].Equal(decimal.NewFromInt(-780)) {
			rep.DataSame = false
			rep.Note = "a slice of the caller that shares the backing array was overwritten past the argument's length"
		}
	}
	if !rep.DataSame && before != nil && after != nil {
		rep.Note = "data before " + before.String() + " after " + after.String()
	}
	opMarshal2, _ := json.Marshal(op)
	rep.OpSame = opBefore == op.Sprint(0)+"\x00"+string(opMarshal2)
	if len(rep.Note) > 600 {
		rep.Note = rep.Note[:600]
	}
	b, _ := json.Marshal(rep)
	return hex.EncodeToString(b)
}

func c11(c *Ctx) {
	n := c.N(6000, 100000)
	c.Rule = "random (query, document) pairs: queries over all functions (RemoveKeysBy*, Select, AsArray, filters returning sub-slices, filters applied to the result of First / Last / Index / Select, aggregates with arguments, string and comparison functions, groups); documents with nested maps, []any, arrays of arrays and typed slices (some with spare capacity shared with a longer slice), and — tagged — maps whose sibling keys collide under case folding; each pair evaluated 3..50 times interleaved with 6 other operations on the same data and with evaluations on a deep copy; data and operation snapshots compared before/after. Non-trivial = the query parses and its first evaluation succeeds; distinct by (query, data)."
	r := c.Rng
	g := &qgen{c: c, Carriers: true}
	qs := []string{
		"$.m.RemoveKeysByPrefix(\"a\")", "$.m.RemoveKeysBySuffix(\"b\")", "$.m.RemoveKeysByRegex(\"^[ab]\")", "$.m.RemoveKeysByPrefix(\"a\").ab", "$.xs.Select(\"$.k\")", "$.xs.Select(\"$.tags\").Count()",
		"$.xs[@.k.Greater(0)]", "$.xs[@.k.Greater(0)].First()", "$.xs.AsArray()", "$.nums.Sum(1,2)", "$.nums.Average()", "$.nums.Maximum($.n)", "$.dec.Sum(5)", "$.dec.Minimum()", "$.typed.Sum()", "$.typed[@.Greater(1)]",
		"$.xs.First().tags", "$.xs.Last()", "$.m", "$.m.ab", "$.M.AB", "$.s.ReplaceAll(\"a\",\"b\")", "$.s.Left(1)", "{OR,$.n.Greater(1),$.s.Contains(\"a\")}", "$.n.Add($.nums.First())", "$.xs.k", "$.xs.Index(0).k.AnyOf($.nums)",
		"$.xs[@.tags[@.Equal(\"x\")].Any()]", "$.m.IsEmpty()", "$.xs.Count()", "$.nums.AsJSON()", "$.m.AsJSON()",
		"$.m.Select(\"$\")", "$.m.Select(\"$.AsArray().Count()\")", "$.m.Select(\"$\").First()", "$.m.Count()", "$.m.Sum()",
		// filters applied to what a function handed back — the caller's own inner arrays for First / Last / Index
		"$.grid.First()[@.Greater(3)]", "$.grid.Last()[@.Less(4)]", "$.grid.Index(0)[@.Greater(3)].Count()", "$.grid.First()[@.Greater(3)].Sum()", "$.grid.Index(1)[OR,@.Equal(7),@.Less(2)]",
		"$.n.Divide(3)", "$.a.Divide(3)", "$.nums.Average()", "$.a.Divide(7).Add($.n)",
		// runs of filters in which an earlier filter keeps everything and a later one drops an element that is followed by a kept one
		"$.nums[@.IsNotNull()][@.Greater(1)]", "$.grid.First()[@.IsNotNull()][@.Less(5)]", "$.xs[@.k.IsNotNull()][@.k.Greater(0)]", "$.nums[@.IsNotNull()][@.IsNotNull()][@.Less(3)].Count()", "$.typed[@.IsNotNull()][@.Greater(1)]",
		"$.xs.First().tags[@.Equal(\"y\")]", "$.xs.Last().tags[@.Equal(\"y\")].Count()", "$.grid.AsArray().First().First()[@.Greater(3)]", "$.grid.Select(\"$[@.Greater(3)]\")", "$.grid.First().AsArray().First()[@.Less(5)]",
	}
	type pc struct {
		q         string
		d         *D
		collision bool
	}
	var cases []pc
	freshIdx := map[int]bool{}
	for i := 0; i < n; i++ {
		nums := []*D{}
		for j, m := 0, r.Intn(5); j < m; j++ {
			nums = append(nums, g.randNum())
		}
		decs := []*D{}
		for j, m := 0, 1+r.Intn(4); j < m; j++ {
			decs = append(decs, h.Dec(int64(r.Intn(200)-100), int64(r.Intn(3)-2)))
		}
		typed := []*D{}
		for j, m := 0, r.Intn(5); j < m; j++ {
			typed = append(typed, h.FloatD(float64(r.Intn(9)-2)))
		}
		xs := []*D{}
		for j, m := 0, r.Intn(4); j < m; j++ {
			xs = append(xs, h.Obj("k", h.FloatD(float64(r.Intn(5)-1)), "tags", h.SliceAny(h.Str([]string{"x", "y"}[r.Intn(2)])), "name", h.Str("n")))
		}
		mkeys := []string{"ab", "ba", "c", "abc", "x_b"}
		collision := r.Intn(8) == 0
		mkv := []any{}
		for _, k := range mkeys {
			if r.Intn(3) != 0 {
				mkv = append(mkv, k, g.randScalar())
			}
		}
		if collision {
			mkv = append(mkv, "ab", h.FloatD(1), "AB", h.FloatD(2), "Ab", h.Str("three"))
			// de-duplicate the exact key "ab" if present twice
			seen := map[string]bool{}
			kv2 := []any{}
			for j := 0; j+1 < len(mkv); j += 2 {
				if seen[mkv[j].(string)] {
					continue
				}
				seen[mkv[j].(string)] = true
				kv2 = append(kv2, mkv[j], mkv[j+1])
			}
			mkv = kv2
		}
		grid := []*D{}
		for j, m := 0, 1+r.Intn(3); j < m; j++ {
			row := []*D{}
			for k, w := 0, 2+r.Intn(4); k < w; k++ {
				row = append(row, h.FloatD(float64(r.Intn(9))))
			}
			grid = append(grid, h.SliceAny(row...))
		}
		mD := h.Obj(mkv...)
		switch r.Intn(6) {
		case 0: // the same object as a decoder of YAML builds it: map[any]any
			mm := *mD
			mm.Kty = "any"
			mD = &mm
		case 1: // ... with keys that are not strings beside the strings
			mm := *mD
			mm.Kty = "any"
			mm.Ks = append(append([]*D{}, mD.Ks...), h.Int("int", 1), h.Int("int", 2), h.Bool(true))
			mm.Vs = append(append([]*D{}, mD.Vs...), h.FloatD(11), h.Str("two"), h.FloatD(13))
			mD = &mm
		}
		doc := h.Obj("m", mD, "grid", h.SliceAny(grid...), "xs", h.SliceAny(xs...), "nums", h.SliceAny(nums...), "dec", h.Slice("dec", decs...), "typed", h.TypedSlice(typed...),
			"s", h.Str(g.pick(genStrings)), "n", g.randNum(), "a", h.FloatD(1), "tiny", h.Dec(12, -17))
		q := qs[r.Intn(len(qs))]
		if r.Intn(4) == 0 {
			q = g.randQuery(2)
		}
		cases = append(cases, pc{q, doc, collision})
		if i < 16 {
			// the same document with a division whose quotient does not terminate, in a process of its
			// own: nothing evaluated earlier in the process can have prepared the ground
			cases = append(cases, pc{[]string{"$.a.Divide(3)", "$.n.Divide(7)", "$.nums.Average()", "$.a.Divide(3).Add(1)"}[i%4], doc, false})
			freshIdx[len(cases)-1] = true
		}
	}
	jobs := make([]h.Job, len(cases))
	for i, cs := range cases {
		jobs[i] = h.Job{Kind: "purity", Payload: hex.EncodeToString([]byte(cs.q)) + "\t" + cs.d.String() + "\t" + fmt.Sprint(3+r.Intn(48))}
	}
	replies := h.RunJobs(jobs, 12)
	{
		var fj []h.Job
		var fi []int
		for i := range cases {
			if freshIdx[i] {
				fj, fi = append(fj, jobs[i]), append(fi, i)
			}
		}
		for k, rep := range h.RunJobsFresh(fj, 12) {
			replies[fi[k]] = rep
		}
	}
	for i, cs := range cases {
		c.Evals++
		line := replies[i]
		mk := func(aspect, what string, rep *purityReply) {
			c.Violation("relation", fmt.Sprintf("query %q: %s", cs.q, what),
				map[string]any{"kind": "purity", "query": cs.q, "data": cs.d.String(), "collision": cs.collision, "aspect": aspect, "reply": rep})
		}
		if strings.HasPrefix(line, "fatal") || strings.HasPrefix(line, "hang") || line == "badcase" {
			mk("crash", "the evaluation "+strings.SplitN(line, "\t", 2)[0], nil)
			continue
		}
		b, err := hex.DecodeString(line)
		var rep purityReply
		if err != nil || json.Unmarshal(b, &rep) != nil {
			continue
		}
		c.Count("parse:" + rep.Parse)
		if rep.Parse != "ok" {
			continue
		}
		if strings.HasPrefix(rep.First, "ok:") {
			c.Distinct[cs.q+"\x00"+cs.d.String()] = true
		}
		if cs.collision {
			c.Count("documents:with-colliding-keys")
		}
		if !rep.DataSame {
			mk("data-unchanged", "the data passed to Do was modified: "+short(rep.Note), &rep)
		}
		if !rep.OpSame {
			mk("operation-unchanged", "the operation was modified by evaluating it", &rep)
		}
		if !rep.Same {
			mk("same-answer", "evaluating the same operation again on the same data gave a different answer: "+short(rep.Note), &rep)
		} else if !rep.CopySame {
			mk("same-answer", "evaluating on a deep copy of the data gave a different answer: "+short(rep.Note), &rep)
		} else if !rep.FreshSame {
			mk("same-answer", "a freshly parsed copy of the query gave a different answer: "+short(rep.Note), &rep)
		}
		if i%(len(cases)/8+1) == 0 {
			c.Sample(map[string]any{"query": cs.q, "evaluations": rep.Results + 1, "first_result": short(rep.First), "data_unchanged": rep.DataSame})
		}
	}
}
