package main

import (
	"fmt"
	"sort"
	"strings"

	"verifharness/h"
)

// C15 — a step sees only base paths and its transitive dependencies.
//
// Exhaustive part: all dependency graphs over N steps (N = 3 quick: 2^9
// graphs, 4 thorough: 2^16), self-loops and cycles included, each
// `_dependencies` list written in two orders, x every current step x every
// root field as target (the steps, `input`, `variables`), the target read at
// the head of the path, inside a filter, in a function argument and in a
// nested group; plus dangling dependencies, steps without a list, and
// `input` as the current step.  Random part: graphs of up to 12 steps.
// Each CueValidate call runs in a worker under a wall-clock bound.  The
// verdict (available / not available / error) and the fields offered at the
// root are compared with the model of getBlockedRootFields and with an
// independent reachability oracle.
func init() { props["C15"] = c15 }

type depGraph struct {
	steps []string
	deps  map[string][]string // nil entry = no _dependencies list
	extra []string            // further root fields without dependencies (variables …)
	opt   map[string]bool     // steps declared as optional fields (`s2?: {…}`)
}

func (g *depGraph) schema() string {
	var sb strings.Builder
	sb.WriteString("input: { _dependencies: [], name: string, list: [...{x: string}] }\nvariables: { x: string }\n")
	for _, s := range g.steps {
		label := s
		if strings.ContainsAny(s, "-") {
			label = `"` + s + `"` // a name that is no identifier is written as a quoted label
		}
		if g.opt[s] {
			sb.WriteString(label + "?: { ")
		} else {
			sb.WriteString(label + ": { ")
		}
		if d, ok := g.deps[s]; ok && d != nil {
			qs := []string{}
			for _, x := range d {
				qs = append(qs, `"`+x+`"`)
			}
			sb.WriteString("_dependencies: [" + strings.Join(qs, ",") + "], ")
		}
		sb.WriteString("result: string }\n")
	}
	return sb.String()
}

func (g *depGraph) fields() []string { return append([]string{"input", "variables"}, g.steps...) }

func (g *depGraph) modelLine(cur string) string {
	fs := []string{}
	for _, f := range g.fields() {
		fs = append(fs, hexs(f))
	}
	ds := []string{"(" + hexs("input") + " ())"}
	for _, s := range g.steps {
		if d, ok := g.deps[s]; ok && d != nil {
			xs := []string{}
			for _, x := range d {
				xs = append(xs, hexs(x))
			}
			ds = append(ds, "("+hexs(s)+" ("+strings.Join(xs, " ")+"))")
		} else {
			ds = append(ds, "("+hexs(s)+" err)")
		}
	}
	ds = append(ds, "("+hexs("variables")+" err)")
	return "blocked\t" + hexs(cur) + "\t(" + strings.Join(fs, " ") + ")\t(" + strings.Join(ds, " ") + ")"
}

// oracle: the property, computed independently (transitive closure by DFS)
func (g *depGraph) oracle(cur string) (blocked map[string]bool, isErr bool) {
	base := map[string]bool{"input": true, "variables": true}
	if _, ok := g.deps[cur]; !ok && cur != "input" {
		return nil, true
	}
	reach := map[string]bool{}
	var visit func(s string) bool
	visit = func(s string) bool {
		var ds []string
		if s == "input" {
			ds = []string{}
		} else {
			d, ok := g.deps[s]
			if !ok || d == nil {
				return false
			}
			ds = d
		}
		for _, x := range ds {
			if !reach[x] {
				reach[x] = true
				if !visit(x) {
					return false
				}
			}
		}
		return true
	}
	if !visit(cur) {
		return nil, true
	}
	blocked = map[string]bool{}
	for _, f := range g.fields() {
		allowed := base[f] || (f == cur && cur == "input") || (f != cur && reach[f])
		if f == cur && cur != "input" {
			allowed = false
		}
		if !allowed {
			blocked[f] = true
		}
	}
	return blocked, false
}

func c15(c *Ctx) {
	nSteps := c.N(3, 4)
	c.Rule = fmt.Sprintf("exhaustive: all 2^%d dependency graphs over %d steps (self-loops and cycles included) x 2 orders of each `_dependencies` list x every current step (and `input`) x every root field as target x 4 positions of the read (head, filter, function argument, nested group), plus the field spelled in another letter case (never available) and read in an argument of a call made on a schema-less value (ParseJSON / RemoveKeysBy* results: a blocked field stays blocked); dangling dependencies and steps without a list; graphs whose steps are optional root fields (`s?:`); random graphs of up to 12 steps (chains, diamonds, fan-in, cycles). Verdicts compared with the model of getBlockedRootFields and with an independent DFS oracle. Non-trivial = the graph has at least one edge; distinct by (schema, current step, query).", nSteps*nSteps, nSteps)
	steps := []string{}
	for i := 1; i <= nSteps; i++ {
		steps = append(steps, fmt.Sprintf("s%d", i))
	}
	var graphs []*depGraph
	total := 1 << (nSteps * nSteps)
	for m := 0; m < total; m++ {
		if c.Thorough() && nSteps == 4 && m%1 != 0 {
			continue
		}
		for order := 0; order < 2; order++ {
			g := &depGraph{steps: steps, deps: map[string][]string{}}
			multi := false
			for i, s := range steps {
				d := []string{}
				for j, t := range steps {
					if m&(1<<(i*nSteps+j)) != 0 {
						d = append(d, t)
					}
				}
				if len(d) > 1 {
					multi = true
				}
				if order == 1 {
					for a, b := 0, len(d)-1; a < b; a, b = a+1, b-1 {
						d[a], d[b] = d[b], d[a]
					}
				}
				g.deps[s] = d
			}
			if order == 1 && !multi {
				continue
			}
			graphs = append(graphs, g)
		}
	}
	// special graphs: dangling dependency, missing list
	graphs = append(graphs,
		&depGraph{steps: steps, deps: map[string][]string{"s1": {"nosuch"}, "s2": {"s1"}, "s3": {}}},
		&depGraph{steps: steps, deps: map[string][]string{"s1": {"s2"}, "s3": {}}}, // s2 has no list
		&depGraph{steps: steps, deps: map[string][]string{"s1": {"variables"}, "s2": {}, "s3": {}}},
	)
	// steps declared as optional root fields (`s2?: {…}`): the dependency rule is the same, and a blocked
	// optional step is left out of the offered fields like any other
	for i := 0; i < c.N(40, 400); i++ {
		g := &depGraph{steps: steps, deps: map[string][]string{}, opt: map[string]bool{}}
		for _, s := range steps {
			d := []string{}
			for _, t := range steps {
				if c.Rng.Intn(3) == 0 {
					d = append(d, t)
				}
			}
			g.deps[s] = d
			g.opt[s] = c.Rng.Intn(2) == 0
		}
		graphs = append(graphs, g)
	}
	// steps whose names need a quoted label (`"s-1": {…}`), some of them optional
	qsteps := []string{"s-1", "s-2", "s-3"}
	for i := 0; i < c.N(40, 400); i++ {
		g := &depGraph{steps: qsteps, deps: map[string][]string{}, opt: map[string]bool{}}
		for _, s := range qsteps {
			d := []string{}
			for _, t := range qsteps {
				if c.Rng.Intn(3) == 0 {
					d = append(d, t)
				}
			}
			g.deps[s] = d
			g.opt[s] = c.Rng.Intn(2) == 0
		}
		graphs = append(graphs, g)
	}
	// random larger graphs
	nRand := c.N(60, 2000)
	for i := 0; i < nRand; i++ {
		n := 4 + c.Rng.Intn(9)
		st := []string{}
		for j := 1; j <= n; j++ {
			st = append(st, fmt.Sprintf("t%d", j))
		}
		g := &depGraph{steps: st, deps: map[string][]string{}}
		for j, s := range st {
			d := []string{}
			for k := 0; k < 1+c.Rng.Intn(3); k++ {
				var t string
				switch c.Rng.Intn(5) {
				case 0:
					t = st[c.Rng.Intn(n)] // anywhere: cycles
				default:
					if j == 0 {
						continue
					}
					t = st[c.Rng.Intn(j)] // earlier: chains, diamonds, fan-in
				}
				dup := false
				for _, x := range d {
					if x == t {
						dup = true
					}
				}
				if !dup {
					d = append(d, t)
				}
			}
			g.deps[s] = d
		}
		graphs = append(graphs, g)
	}

	type vcase struct {
		g        *depGraph
		cur, tgt string
		pos      string
		q        string
	}
	var cases []vcase
	var jobs []h.Job
	type mkey struct {
		g   *depGraph
		cur string
	}
	modelIdx := map[mkey]int{}
	var modelLines []string
	var modelKeys []mkey
	for gi, g := range graphs {
		schema := g.schema()
		curs := append([]string{}, g.steps...)
		if gi%7 == 0 {
			curs = append(curs, "input")
		}
		if len(g.steps) > 4 {
			curs = []string{g.steps[c.Rng.Intn(len(g.steps))], g.steps[len(g.steps)-1]}
		}
		for _, cur := range curs {
			k := mkey{g, cur}
			modelIdx[k] = len(modelLines)
			modelLines = append(modelLines, g.modelLine(cur))
			modelKeys = append(modelKeys, k)
			tgts := g.fields()
			if len(tgts) > 7 {
				tgts = tgts[:2]
				for i := 0; i < 4; i++ {
					tgts = append(tgts, g.steps[c.Rng.Intn(len(g.steps))])
				}
			}
			for _, tgt := range tgts {
				leaf := "result"
				if tgt == "input" {
					leaf = "name"
				} else if tgt == "variables" {
					leaf = "x"
				}
				ref := "$." + tgt + "." + leaf
				for _, pq := range [][2]string{
					{"head", ref},
					{"filter", "$.input.list[@.x.Equal(" + ref + ")]"},
					{"argument", "$.input.name.Equal(" + ref + ")"},
					{"nested-group", "{$.input.name.Equal(\"a\"),{OR," + ref + ".Equal(\"b\")}}"},
					// the field spelled in another letter case is no declared field: refused whatever the graph
					{"at-head", "@." + tgt + "." + leaf},
					{"at-group", "{AND,$.input.name.Equal(\"a\"),{OR,@." + tgt + "." + leaf + ".Equal(\"b\")}}"},
					{"head-marked", "$." + tgt + "?." + leaf},
					{"argument-marked", "$.input.name.Equal($." + tgt + "?." + leaf + ")"},
					{"case-variant", "$." + strings.ToUpper(tgt[:1]) + tgt[1:] + "." + leaf},
					{"case-variant", "$.input.name.Equal($." + strings.ToUpper(tgt) + "." + leaf + ")"},
					// arguments of calls made on a value without a schema (what ParseJSON / RemoveKeysBy* return)
					{"argument-after-schemaless", "$.input.name.ParseJSON().count.Equal(" + ref + ")"},
					{"argument-after-schemaless", "$.variables.RemoveKeysByPrefix(\"q\").x.AnyOf(\"a\"," + ref + ")"},
				} {
					if len(g.steps) <= 4 && pq[0] != "head" && (gi%4 != 0) {
						continue // all four positions on a quarter of the small graphs, the head on all
					}
					cases = append(cases, vcase{g, cur, tgt, pq[0], pq[1]})
					jobs = append(jobs, valJob(pq[1], schema, cur))
				}
			}
		}
	}
	h.CaseTimeout = 15e9
	replies := h.RunJobs(jobs, 12)
	var model []string
	if c.Proofs.ModelBuilt {
		var err error
		model, err = h.RunModel(c.Driver, modelLines)
		c.CrossAll(modelLines, model)
		if err != nil {
			fmt.Println(err)
			return
		}
	}
	modelBlocked := func(k mkey) (map[string]bool, string) {
		if model == nil {
			return nil, "none"
		}
		l := model[modelIdx[k]]
		if !strings.HasPrefix(l, "ok") {
			return nil, l
		}
		b := map[string]bool{}
		for _, a := range strings.Split(strings.TrimSpace(strings.TrimPrefix(l, "ok")), ",") {
			if a == "" {
				continue
			}
			s, _ := hexDecode(a)
			b[s] = true
		}
		return b, "ok"
	}
	for i, vc := range cases {
		r := parseVal(replies[i])
		c.Evals++
		edges := 0
		for _, d := range vc.g.deps {
			edges += len(d)
		}
		key := vc.g.schema() + "|" + vc.cur + "|" + vc.q
		if edges > 0 {
			c.Distinct[key] = true
		}
		verdict := "available"
		switch {
		case r.Class == "panic" || r.Class == "fatal" || r.Class == "hang" || r.Class == "neither" || r.Class == "badreply":
			verdict = r.Class
		case r.Class == "err" && r.TreeHash == "":
			verdict = "error" // no result tree at all: the dependency walk itself failed
		default:
			// every query of this check is valid against the schema apart from the field under test,
			// so an error in the tree means the field is refused (no reliance on message texts)
			if r.HasErrors {
				verdict = "not-available"
			}
		}
		c.Count("impl:" + strings.SplitN(verdict, ":", 2)[0])
		c.Count("position:" + vc.pos)
		ob, oerr := vc.g.oracle(vc.cur)
		want := "available"
		if oerr {
			want = "error"
		} else if ob[vc.tgt] {
			want = "not-available"
		}
		cs := map[string]any{"kind": "validate", "query": vc.q, "schema": vc.g.schema(), "current": vc.cur, "target": vc.tgt, "position": vc.pos, "implementation": verdict, "impl_errors": r.Errors, "impl_err": r.Err}
		if vc.pos == "case-variant" || vc.pos == "argument-after-schemaless" {
			// impl-only relations: a case variant of a root field is never available; behind a schema-less
			// value a blocked field stays blocked (an available one may be refused for reasons of typing)
			if want != "error" && verdict != "error" && (vc.pos == "case-variant" || want == "not-available") && verdict != "not-available" {
				c.Violation("relation", fmt.Sprintf("current step %s, query %q: root field %s read at position %s must be refused, CueValidate says %s", vc.cur, vc.q, vc.tgt, vc.pos, verdict), cs)
			}
			continue
		}
		if verdict != want {
			c.Violation("relation", fmt.Sprintf("current step %s, query %q: root field %s must be %s (dependency closure), CueValidate says %s", vc.cur, vc.q, vc.tgt, want, verdict), cs)
		}
		mb, mcls := modelBlocked(mkey{vc.g, vc.cur})
		if model != nil {
			mwant := "available"
			switch {
			case mcls == "err":
				mwant = "error"
			case mcls != "ok":
				mwant = "model:" + mcls
			case mb[vc.tgt]:
				mwant = "not-available"
			}
			c.Count("model:" + mwant)
			if mwant != verdict {
				cs2 := map[string]any{}
				for k, v := range cs {
					cs2[k] = v
				}
				cs2["model"] = mwant
				c.Violation("mismatch", fmt.Sprintf("current step %s, query %q: implementation %s, model/spec %s", vc.cur, vc.q, verdict, mwant), cs2)
			}
			// the fields offered at the root are exactly the fields that are not blocked
			if vc.pos == "head" && mcls == "ok" && verdict != "error" && r.Offered != nil {
				wantOff := []string{}
				for _, f := range vc.g.fields() {
					if !mb[f] {
						wantOff = append(wantOff, f)
					}
				}
				got := append([]string{}, r.Offered...)
				sort.Strings(got)
				sort.Strings(wantOff)
				if strings.Join(got, ",") != strings.Join(wantOff, ",") {
					cs2 := map[string]any{}
					for k, v := range cs {
						cs2[k] = v
					}
					cs2["offered"] = r.Offered
					cs2["model_offered"] = wantOff
					c.Violation("mismatch", fmt.Sprintf("current step %s: fields offered at the root %v, the unblocked fields are %v", vc.cur, got, wantOff), cs2)
				}
			}
		}
		if i%(len(cases)/8+1) == 0 {
			c.Sample(map[string]any{"schema": vc.g.schema(), "current": vc.cur, "query": vc.q, "verdict": verdict})
		}
	}
	c.Note("graphs", len(graphs))
	c.Note("validations", len(cases))
}

func hexDecode(a string) (string, error) {
	var b []byte
	_, err := fmt.Sscanf(strings.TrimPrefix(a, "x"), "%x", &b)
	if strings.TrimPrefix(a, "x") == "" {
		return "", nil
	}
	return string(b), err
}
