package main

import (
	"encoding/hex"
	"encoding/json"
	"fmt"
	"strings"

	"verifharness/h"
)

// C16 — CueValidate is a total, deterministic function of its three arguments.
//
// Calls = (query: grammar-generated, valid and invalid, and random bytes) x
// (schema: the generated step schemas, mutated copies, garbage) x (current
// step: none, a step, `input`, a missing step, odd strings).  Each call is
// evaluated (a) first in a fresh process, (b) inside random histories of
// other calls in long-lived processes, (c) repeatedly, (d) under re-spellings
// that defeat the cache (trailing whitespace / comment in the query, trailing
// newline / comment in the schema); every tree returned is marshalled again
// after the history has run.  All results must equal the fresh one (ids
// stripped; the echoed query text aside for re-spellings).  No panic, no hang.
func init() { props["C16"] = c16 }

func c16(c *Ctx) {
	nCalls := c.N(700, 6000)
	nHist := c.N(150, 1500)
	c.Rule = fmt.Sprintf("%d distinct calls (query x schema x current step; queries: fixed probes, schema-aware grammar with declared / undeclared chains, known and unknown function names, filters after paths and after calls, groups; random DSL queries; random bytes), each run first in a fresh process; %d histories of 20..60 calls drawn from them (with repeats and cache-defeating re-spellings) in long-lived processes; equality of error, HasErrors, messages, return type, offered fields and the id-stripped marshalled tree with the fresh result; re-marshalling of earlier results after the history. evaluations = CueValidate calls; non-trivial = the call reaches validation (query parses and schema compiles); distinct by (query, schema, step).", nCalls, nHist)
	r := c.Rng
	g := &qgen{c: c}
	schemas := []string{
		"input: { _dependencies: [], name: string, n: int, list: [...{x: string}] }\nvariables: { x: string }\ns1: { _dependencies: [], result: string }\ns2: { _dependencies: [\"s1\"], result: [...{k: int, name?: string}] }\ns3: { _dependencies: [\"s2\", \"s1\"], result: {a: number, \"b-c\": bool} }\n",
		"input: { _dependencies: [], name: string }\ns1: { _dependencies: [\"s2\"], result: string }\ns2: { _dependencies: [\"s1\"], result: string }\n",
		"a: { b: string, c: [...int], _h: bool, ... }\n",
		"a: data: {foo: 1, bar: 2}\n",
		"this is { not cue",
		"x: int & string\n",
		"",
		// definitions, at the root and inside a struct the queries walk through
		"#Kind: string\na: { #Size: int, b: string, c: [...int], kind: #Kind }\ninput: { _dependencies: [], name: string }\ns1: { _dependencies: [], result: #Kind }\n",
	}
	vq := []string{"$.s1.result", "$.s2.result.First().k", "$.input.name.Equal($.s1.result)", "$.s3.result.a.Add(1)", "$.s3.result.b-c", "$.input.list[@.x.Equal(\"a\")].Count()", "{OR,$.input.n.Greater(1),$.s1.result.Contains(\"x\")}",
		"$.a.b", "$.a.c.Sum()", "$.a._h", "$.a.zz.yy", "$.a.data.foo", "$.nosuch", "$.s1.result.Nope()", "$.s1.result.Left(1,2,3)", "$.input.n.Contains(\"a\")", "$._a+b", "$.s2.result.name", "@.s1", "$",
		"$.s2.result.Pick(1)[@.k.Equal(1)]", "$.s1.result.Frobnicate()", "{OR,$.input.name.Nope(),$.s1.result.Equal(\"x\")}", "$.s2.result.First()[@.k.Equal(1)]"}
	curs := []string{"", "s1", "s2", "s3", "input", "nosuch", "_a+b", "a"}
	// schema-aware queries: declared and undeclared chains, known and unknown function names (right and
	// wrong arity), filters after paths and after calls, groups and nested arguments
	chains := []string{"$.s1.result", "$.s2.result", "$.s2.result.k", "$.s2.result.name", "$.s3.result", "$.s3.result.a", "$.input.name", "$.input.n", "$.input.list", "$.input.list.x", "$.variables.x",
		"$.a.b", "$.a.c", "$.a.data.foo", "$.nosuch", "$.s1.nosuch", "$.input.list.zz", "@.s1.result", "$"}
	lits := []string{"1", "\"x\"", "true", "2.5", "-1"}
	known := funcNames()
	unknown := []string{"Pick", "Frobnicate", "equal", "Nope", "sum"}
	fname := func() string {
		if r.Intn(4) == 0 {
			return unknown[r.Intn(len(unknown))]
		}
		return known[r.Intn(len(known))]
	}
	filter := func() string {
		sub := []string{"k", "x", "name", "zz", "id"}[r.Intn(5)]
		return "[@." + sub + "." + fname() + "(" + lits[r.Intn(len(lits))] + ")]"
	}
	var sq func(depth int) string
	sargs := func(depth int) string {
		var as []string
		for i, n := 0, r.Intn(3); i < n; i++ {
			switch {
			case depth > 0 && r.Intn(4) == 0:
				as = append(as, sq(depth-1))
			case depth > 0 && r.Intn(6) == 0:
				as = append(as, "{"+sq(depth-1)+"}")
			default:
				as = append(as, lits[r.Intn(len(lits))])
			}
		}
		return strings.Join(as, ",")
	}
	sq = func(depth int) string {
		q := chains[r.Intn(len(chains))]
		for i, n := 0, r.Intn(4); i < n; i++ {
			switch r.Intn(5) {
			case 0, 1:
				q += "." + fname() + "(" + sargs(depth) + ")"
				if r.Intn(3) == 0 {
					q += filter() // a filter straight after a call
				}
			case 2:
				q += filter()
			case 3:
				q += "." + []string{"k", "x", "a", "result", "zz"}[r.Intn(5)]
			default:
				if depth > 0 {
					q += ".Equal(" + sq(depth-1) + ")"
				}
			}
		}
		return q
	}
	type call struct{ q, s, cur string }
	var calls []call
	seen := map[string]bool{}
	for len(calls) < nCalls {
		var q string
		switch r.Intn(8) {
		case 0:
			q = g.randQuery(2)
		case 2, 3, 4:
			q = sq(2)
			if r.Intn(5) == 0 {
				q = "{" + []string{"", "OR,", "AND,"}[r.Intn(3)] + q + "," + sq(1) + "}"
			}
		case 1:
			b := make([]byte, r.Intn(12))
			for i := range b {
				b[i] = byte(r.Intn(256))
			}
			q = string(b)
		default:
			q = vq[r.Intn(len(vq))]
		}
		cl := call{q, schemas[r.Intn(len(schemas))], curs[r.Intn(len(curs))]}
		if r.Intn(4) != 0 {
			cl.s = schemas[r.Intn(3)]
		}
		k := cl.q + "\x00" + cl.s + "\x00" + cl.cur
		if seen[k] {
			continue
		}
		seen[k] = true
		calls = append(calls, cl)
	}
	// every pairing of a query that parses / does not parse with a schema that compiles / does not compile
	pairStart := len(calls)
	for _, s := range []string{schemas[4], schemas[5], schemas[0], schemas[len(schemas)-1]} {
		for _, q := range []string{"$.a.b", "$.a.c.Sum()", "$.bad(", "$.a.Equal(\"open", "\xff\xfe",
			"$.a.b.Equal(\"a  b\")", "$.a.b.Equal(\"a b\")", "$.a.b.ReplaceAll(\" \",\"  \")", "$.a.b.ReplaceAll(\"  \",\" \")", "$.s1.result.Equal(\"a\tb\")", "$.s1.result.Equal(\"a b\")"} {
			for _, cur := range []string{"", "s1"} {
				k := q + "\x00" + s + "\x00" + cur
				if !seen[k] {
					seen[k] = true
					calls = append(calls, call{q, s, cur})
				}
			}
		}
	}
	pairEnd := len(calls)
	// (a) fresh processes
	fjobs := make([]h.Job, len(calls))
	for i, cl := range calls {
		fjobs[i] = valJob(cl.q, cl.s, cl.cur)
	}
	h.CaseTimeout = 30e9
	fresh := h.RunJobsFresh(fjobs, 12)
	freshRes := make([]valResult, len(calls))
	for i := range calls {
		freshRes[i] = parseVal(fresh[i])
		c.Evals++
		c.Count("fresh:" + freshRes[i].Class)
		cl := calls[i]
		if freshRes[i].Class == "ok" || (freshRes[i].Class == "err" && !strings.Contains(freshRes[i].Err, "failed to parse")) {
			c.Distinct[cl.q+"\x00"+cl.s+"\x00"+cl.cur] = true
		}
		switch freshRes[i].Class {
		case "panic", "fatal", "hang", "neither", "badreply":
			c.Violation("relation", fmt.Sprintf("CueValidate(%q, schema, %q) in a fresh process: %s %s", cl.q, cl.cur, freshRes[i].Class, freshRes[i].Err),
				map[string]any{"kind": "validate", "query": cl.q, "schema": cl.s, "current": cl.cur, "implementation": freshRes[i].Class, "impl_err": freshRes[i].Err})
		}
	}
	// (b,c,d) histories
	type hcall struct {
		idx     int
		respell int // 0 none, 1 query, 2 schema, 3 both
	}
	var hists [][]hcall
	var hjobs []h.Job
	for hI := 0; hI < nHist; hI++ {
		n := 20 + r.Intn(41)
		var hc []hcall
		var parts []string
		for k := 0; k < n; k++ {
			x := hcall{idx: r.Intn(len(calls))}
			if r.Intn(6) == 0 && pairEnd > pairStart {
				x.idx = pairStart + r.Intn(pairEnd-pairStart) // the pairings are met often, in every order
			}
			if k > 0 && r.Intn(4) == 0 {
				x.idx = hc[r.Intn(len(hc))].idx // repeat an earlier call of this history
			}
			if r.Intn(4) == 0 {
				x.respell = 1 + r.Intn(3)
			}
			cl := calls[x.idx]
			q, s := cl.q, cl.s
			if x.respell&1 != 0 && q != "" {
				q += []string{" ", "\n", " /* c */", " // c"}[r.Intn(4)]
			}
			if x.respell&2 != 0 && s != "" {
				s += []string{"\n", " ", "\n// c\n"}[r.Intn(3)]
			}
			hc = append(hc, x)
			parts = append(parts, hex.EncodeToString([]byte(q))+","+hex.EncodeToString([]byte(s))+","+hex.EncodeToString([]byte(cl.cur)))
		}
		hists = append(hists, hc)
		hjobs = append(hjobs, h.Job{Kind: "valhist", Payload: strings.Join(parts, ";")})
	}
	h.CaseTimeout = 120e9
	hrep := h.RunJobs(hjobs, 12)
	for hI, line := range hrep {
		if strings.HasPrefix(line, "fatal") || strings.HasPrefix(line, "hang") {
			c.Violation("relation", fmt.Sprintf("a history of %d CueValidate calls: the process %s", len(hists[hI]), strings.SplitN(line, "\t", 2)[0]),
				map[string]any{"kind": "valhist", "payload": hjobs[hI].Payload})
			continue
		}
		b, err := hex.DecodeString(line)
		var rep histReply
		if err != nil || json.Unmarshal(b, &rep) != nil || len(rep.Results) != len(hists[hI]) {
			c.Violation("relation", "unreadable history reply", map[string]any{"kind": "valhist", "payload": hjobs[hI].Payload})
			continue
		}
		if !rep.Stable {
			c.Violation("relation", "a result returned earlier was altered by later calls: "+rep.Note, map[string]any{"kind": "valhist", "payload": hjobs[hI].Payload})
		}
		for k, x := range hists[hI] {
			c.Evals++
			got, want := rep.Results[k], freshRes[x.idx]
			c.Count(fmt.Sprintf("history:respell%d", x.respell))
			eq := got.Class == want.Class && got.HasErrors == want.HasErrors && strings.Join(got.Errors, "|") == strings.Join(want.Errors, "|") &&
				got.RetType == want.RetType && got.RetIO == want.RetIO && strings.Join(got.Offered, ",") == strings.Join(want.Offered, ",") && got.TreeHash == want.TreeHash
			if x.respell == 0 {
				eq = eq && got.Err == want.Err
			} else if got.Class == "err" && want.Class == "err" {
				// error texts may quote positions: compare their class only
				eq = eq && (strings.Contains(got.Err, "failed to parse") == strings.Contains(want.Err, "failed to parse"))
			}
			if !eq {
				cl := calls[x.idx]
				c.Violation("relation", fmt.Sprintf("CueValidate(%q, schema, %q) as call %d of a history (re-spelling %d) differs from the same call made first in a fresh process: %s/%v/%s vs %s/%v/%s", cl.q, cl.cur, k, x.respell, got.Class, got.HasErrors, short(got.Err+strings.Join(got.Errors, ";")), want.Class, want.HasErrors, short(want.Err+strings.Join(want.Errors, ";"))),
					map[string]any{"kind": "valhist", "payload": hjobs[hI].Payload, "position": k, "query": cl.q, "schema": cl.s, "current": cl.cur, "in_history": got, "fresh": want})
			}
		}
		if hI < 3 {
			c.Sample(map[string]any{"history_length": len(hists[hI]), "first_calls": []any{calls[hists[hI][0].idx], calls[hists[hI][1].idx]}, "stable": rep.Stable})
		}
	}
	c.Note("fresh_process_calls", len(calls))
	c.Note("histories", nHist)
}
