package main

import (
	"fmt"
	"math/rand"
	"sort"
	"strings"

	"github.com/machship/mpath"

	"verifharness/h"
)

// C14 — function typing agrees with the published descriptors and with evaluation.
//
// Exhaustive: every function of ListFunctions() x every receiver type
// expressible in a schema (String, Number, Boolean, Object, Any; Single and
// Array) x descriptor-conformant argument lists (0..2 values for a variadic
// parameter) and over-long ones; an unknown function name.  Each call is
// validated against a schema exposing a field of that type (verdict and
// reported type compared with the model and with an oracle computed from the
// descriptors), and every accepted conformant call is evaluated on data
// instances of the schema: the result must be of the reported kind or a
// data-dependent error, never a wrong-type failure.  Random part: chains of
// two and three calls.
func init() {
	props["C14"] = c14
	classifiers["C14"] = func(v Violation) string {
		if v.Case["deviation"] != nil {
			return fmt.Sprint(v.Case["deviation"])
		}
		return ""
	}
}

type recvT struct {
	field  string
	cue    string
	sexp   string
	ptype  string
	io     string
	elemPT string // element type for lists
	data   []*D
}

func recvTypes() []recvT {
	// … multi-byte text, and texts that are JSON values of every kind (a decoder may be applied to them)
	strs := []*D{h.Str("abc"), h.Str(""), h.Str("hello world"), h.Str("a-b"), h.Str("日本語"), h.Str("héllo wörld"), h.Str("true"), h.Str("\"quoted\""), h.Str("{\"k\":\"v\"}"), h.Str("[1,2]"), h.Str("null")}
	nums := []*D{h.FloatD(0), h.FloatD(2.5), h.FloatD(-3), h.FloatD(100)}
	bools := []*D{h.Bool(true), h.Bool(false)}
	objs := []*D{h.Obj("k", h.Str("v")), h.Obj("k", h.Str(""))}
	anys := []*D{h.Str("x"), h.FloatD(1), h.Bool(true), h.Obj("q", h.FloatD(1)), h.SliceAny(h.FloatD(1))}
	list := func(xs ...*D) []*D {
		return []*D{h.SliceAny(xs...), h.SliceAny(xs[:1]...), h.SliceAny()}
	}
	return []recvT{
		{"s", "string", "str", "String", "Single", "", strs},
		{"n", "number", "number", "Number", "Single", "", nums},
		{"i", "int", "int", "Number", "Single", "", []*D{h.FloatD(0), h.FloatD(7), h.FloatD(-2)}},
		{"b", "bool", "bool", "Boolean", "Single", "", bools},
		{"o", "{k: string}", "(struct closed (reg " + hexs("k") + " str))", "Object", "Single", "", objs},
		{"a", "_", "top", "Any", "Single", "", anys},
		{"ls", "[...string]", "(list open str)", "String", "Array", "String", list(strs...)},
		{"ln", "[...number]", "(list open number)", "Number", "Array", "Number", list(nums...)},
		{"lb", "[...bool]", "(list open bool)", "Boolean", "Array", "Boolean", list(bools...)},
		{"lo", "[...{k: string}]", "(list open (struct closed (reg " + hexs("k") + " str)))", "Object", "Array", "Object", list(objs...)},
		{"la", "[..._]", "(list open top)", "Any", "Array", "Any", list(anys...)},
	}
}

func argFor(pt mpath.PT_ParameterType, i int) string {
	switch pt {
	case mpath.PT_String:
		return []string{"\"a\"", "\"b\"", "\"$.k\""}[i%3]
	case mpath.PT_Number:
		return []string{"1", "2", "0"}[i%3]
	case mpath.PT_Boolean:
		return "true"
	}
	return []string{"1", "\"a\"", "true"}[i%3]
}

var wrongTypeMsgs = []string{"wasn't string", "wasn't number", "not a number", "value is not a map", "was not boolean", "is not a boolean", "not array", "was not a string", "value is not a string", "not an array of numbers", "unsupported type", "no number parameter found", "no string parameter found", "unhandled param"}

func kindOK(d *D, pt, io string) bool {
	if io == "Array" {
		return d.Tag == "sl" || d.Tag == "ar"
	}
	switch pt {
	case "String":
		return d.Tag == "s"
	case "Number":
		return d.Tag == "d"
	case "Boolean":
		return d.Tag == "b"
	case "Object":
		return d.Tag == "m" || d.Tag == "st"
	}
	return true
}

func c14(c *Ctx) {
	fs := mpath.ListFunctions()
	names := []string{}
	for k := range fs {
		names = append(names, string(k))
	}
	sort.Strings(names)
	recvs := recvTypes()
	c.Rule = fmt.Sprintf("exhaustive: %d functions (+1 unknown name) x %d receiver types x argument lists {conformant with 0..2 values for a variadic parameter, one too many}; each validated (verdict + reported type vs the model and vs an oracle computed from ListFunctions()), every accepted Boolean call once more as an operand of a logical operation, every accepted conformant call extended by every second call (and a seeded sample of the accepted pairs by a third): accepted iff the descriptor admits the type reported for the previous call, reporting its Returns type; each accepted conformant call and chain evaluated on every data instance of the receiver type. Recorded deviations are matched as known findings by class. Non-trivial = the call is accepted; distinct by (query, schema).", len(names), len(recvs))
	var schemaCue, schemaSexp []string
	for _, r := range recvs {
		schemaCue = append(schemaCue, r.field+": "+r.cue)
		schemaSexp = append(schemaSexp, "(reg "+hexs(r.field)+" "+r.sexp+")")
	}
	cueText := strings.Join(schemaCue, "\n") + "\n"
	sexpText := "(struct closed " + strings.Join(schemaSexp, " ") + ")"
	type vcase struct {
		q          string
		fn         string
		recv       recvT
		nargs      int
		conformant bool
		wantAccept bool
		gap        bool
		wantPT     string
		wantIO     string
		prefix     string // for a chain: the query without its last call
	}
	var cases []vcase
	admits := func(on mpath.InputOrOutput, r recvT) (ok, gap bool) {
		tyOK := on.Type == mpath.PT_Any || string(on.Type) == r.ptype
		ioOK := on.IOType == mpath.IOOT_Variadic || string(on.IOType) == r.io
		if tyOK && !ioOK && on.Type == mpath.PT_Any {
			gap = true // Single-vs-Array under a ValidOn type of Any: left unspecified
		}
		return tyOK && ioOK, gap
	}
	for _, fn := range append(names, "NoSuchFunction") {
		d, known := fs[mpath.FT_FunctionType(fn)]
		for _, r := range recvs {
			var argLists [][]string
			var conf []bool
			if known {
				base := []string{}
				variadic := false
				for i, p := range d.Params {
					if p.IOType == mpath.IOOT_Variadic {
						variadic = true
						_ = i
						continue
					}
					base = append(base, argFor(p.Type, i))
				}
				if variadic {
					last := d.Params[len(d.Params)-1]
					for k := 0; k <= 2; k++ {
						l := append([]string{}, base...)
						for j := 0; j < k; j++ {
							l = append(l, argFor(last.Type, j))
						}
						argLists, conf = append(argLists, l), append(conf, true)
					}
					if last.Type == mpath.PT_Any {
						// variadic Any parameters given paths: an Any-typed path first, then literals
						argLists, conf = append(argLists, append(append([]string{}, base...), "$.a", argFor(last.Type, 1))), append(conf, true)
						argLists, conf = append(argLists, append(append([]string{}, base...), "$.s", "$.a", "$.n")), append(conf, true)
					}
				} else {
					argLists, conf = append(argLists, base), append(conf, true)
					if len(d.Params) == 1 && d.Params[0].Type == mpath.PT_Number && d.ValidOn.Type == mpath.PT_String {
						// counts between the number of characters and the number of bytes of multi-byte text, and beyond
						argLists, conf = append(argLists, []string{"5"}, []string{"8"}, []string{"12"}), append(conf, true, true, true)
					}
					argLists, conf = append(argLists, append(append([]string{}, base...), "1")), append(conf, false)   // one too many
					argLists, conf = append(argLists, append(append([]string{}, base...), "$.a")), append(conf, false) // … the surplus one a path of type Any
					argLists, conf = append(argLists, append(append([]string{}, base...), "$.s")), append(conf, false) // … or a typed path
				}
			} else {
				argLists, conf = append(argLists, []string{}), append(conf, true)
			}
			for ai, args := range argLists {
				vc := vcase{q: "$." + r.field + "." + fn + "(" + strings.Join(args, ",") + ")", fn: fn, recv: r, nargs: len(args), conformant: conf[ai]}
				if known {
					ok, gap := admits(d.ValidOn, r)
					vc.gap = gap
					vc.wantAccept = ok && conf[ai]
					vc.wantPT, vc.wantIO = string(d.Returns.Type), string(d.Returns.IOType)
					if (fn == "First" || fn == "Last" || fn == "Index") && r.io == "Array" {
						vc.wantPT = r.elemPT
					}
				}
				cases = append(cases, vc)
			}
		}
	}
	// an accepted call of Boolean type is an operand of a logical operation: the operation is accepted too
	// (the call's type is what the descriptor says — for First / Last / Index on a list of booleans, the element's)
	for _, vc := range append([]vcase{}, cases...) {
		if vc.wantAccept && !vc.gap && vc.wantPT == "Boolean" && vc.wantIO == "Single" {
			for _, w := range []string{"{AND," + vc.q + "}", "{OR," + vc.q + "," + vc.q + ".Not()}", "{" + vc.q + ".Not().Not()}"} {
				cases = append(cases, vcase{q: w, fn: "operand:" + vc.fn, recv: vc.recv, nargs: vc.nargs, conformant: false, wantAccept: true, wantPT: "Boolean", wantIO: "Single"})
			}
		}
	}
	jobs := make([]h.Job, len(cases))
	lines := make([]string, len(cases))
	for i, vc := range cases {
		jobs[i] = valJob(vc.q, cueText, "")
		lines[i] = "validate\t" + hexs(vc.q) + "\t" + sexpText + "\tx\t()"
	}
	replies := h.RunJobs(jobs, 12)
	var model []string
	if c.Proofs.ModelBuilt {
		var err error
		model, err = h.RunModel(c.Driver, lines)
		c.CrossAll(lines, model)
		if err != nil {
			fmt.Println(err)
			model = nil
		}
	}
	type evalRef struct {
		vc vcase
		pt string
		io string
	}
	var toEval []evalRef
	for i, vc := range cases {
		rv := parseVal(replies[i])
		c.Evals++
		accept := rv.Class == "ok" && !rv.HasErrors
		c.Count(map[bool]string{true: "impl:accept", false: "impl:reject"}[accept])
		cs := map[string]any{"kind": "validate", "query": vc.q, "schema": cueText, "schema_sexp": sexpText, "current": "", "implementation": fmt.Sprintf("%v %s/%s", accept, rv.RetType, rv.RetIO), "impl_errors": rv.Errors, "impl_err": rv.Err}
		if accept {
			c.Distinct[vc.q] = true
		}
		if rv.Class == "panic" || rv.Class == "fatal" || rv.Class == "hang" {
			c.Violation("relation", fmt.Sprintf("query %q: CueValidate %s", vc.q, rv.Class), cs)
			continue
		}
		if !vc.gap {
			if accept != vc.wantAccept {
				c.Violation("relation", fmt.Sprintf("query %q: by its descriptor the call must be %s, CueValidate %s it %v", vc.q, map[bool]string{true: "accepted", false: "rejected"}[vc.wantAccept], map[bool]string{true: "accepts", false: "rejects"}[accept], rv.Errors), cs)
			} else if accept && (rv.RetType != vc.wantPT || rv.RetIO != vc.wantIO) {
				cs2 := map[string]any{}
				for k, v := range cs {
					cs2[k] = v
				}
				switch {
				case (vc.fn == "AsArray" || vc.fn == "Select") && vc.recv.io == "Array":
					cs2["deviation"] = "asarray-select-report-element-type"
				}
				c.Violation("relation", fmt.Sprintf("query %q: the descriptor says it returns %s/%s, CueValidate reports %s/%s", vc.q, vc.wantPT, vc.wantIO, rv.RetType, rv.RetIO), cs2)
			}
		} else {
			c.Count("unspecified:any-single-vs-array")
		}
		if model != nil {
			f := strings.Fields(model[i])
			c.Count("model:" + f[0])
			if len(f) >= 4 && (f[0] == "ok" || f[0] == "err") {
				mAccept := f[0] == "ok" && f[1] == "0"
				mt := strings.ReplaceAll(f[2]+"/"+f[3], "-", "")
				if mAccept != accept || (accept && mt != rv.RetType+"/"+rv.RetIO) {
					cs2 := map[string]any{}
					for k, v := range cs {
						cs2[k] = v
					}
					cs2["model"] = model[i]
					c.Violation("mismatch", fmt.Sprintf("query %q: implementation %v %s/%s, model/spec %v %s", vc.q, accept, rv.RetType, rv.RetIO, mAccept, mt), cs2)
				}
			} else {
				c.Declined++
			}
		}
		if accept && vc.conformant && !vc.gap {
			toEval = append(toEval, evalRef{vc, rv.RetType, rv.RetIO})
		}
		if i%(len(cases)/8+1) == 0 {
			c.Sample(map[string]any{"query": vc.q, "accepted": accept, "reported": rv.RetType + "/" + rv.RetIO})
		}
	}
	// chains: every accepted conformant call is followed by a second call (every function, conformant
	// arguments), and a seeded sample of the accepted pairs by a third.  The receiver of a later call is
	// the value the previous call returns, so its type is the type reported for the previous call: the
	// call is accepted iff its descriptor admits that type, and reports its Returns type — the element's
	// type for First / Last / Index only on a list whose element type is known (not after AsArray:
	// what that returns is a list of lists).
	{
		type chainCase struct {
			q               string
			base            evalRef
			fn              string
			recvPT, recvIO  string
			wantAccept, gap bool
			wantPT, wantIO  string
			depth           int
		}
		conformantArgs := func(d mpath.FunctionDescriptor) []string {
			args := []string{}
			for i, p := range d.Params {
				if p.IOType == mpath.IOOT_Variadic {
					continue
				}
				args = append(args, argFor(p.Type, i))
			}
			return args
		}
		extend := func(prev []chainCase, level int, sample int) []chainCase {
			var out []chainCase
			for _, pc := range prev {
				for _, fn := range names {
					if fn == "Select" {
						continue // its argument is a query of its own
					}
					if sample > 1 && r14(c).Intn(sample) != 0 {
						continue
					}
					d := fs[mpath.FT_FunctionType(fn)]
					rt := recvT{ptype: pc.recvPT, io: pc.recvIO}
					ok, gap := admits(d.ValidOn, rt)
					cc := chainCase{q: pc.q + "." + fn + "(" + strings.Join(conformantArgs(d), ",") + ")", base: pc.base, fn: fn, wantAccept: ok, gap: gap,
						wantPT: string(d.Returns.Type), wantIO: string(d.Returns.IOType), depth: level}
					if (fn == "First" || fn == "Last" || fn == "Index") && pc.recvIO == "Array" && pc.recvPT != "Any" {
						cc.wantPT = pc.recvPT
					}
					cc.recvPT, cc.recvIO = cc.wantPT, cc.wantIO // the receiver type of the NEXT call, when this one is accepted
					out = append(out, cc)
				}
			}
			return out
		}
		var level1 []chainCase
		for _, ref := range toEval {
			level1 = append(level1, chainCase{q: ref.vc.q, base: ref, recvPT: ref.pt, recvIO: ref.io})
		}
		runChains := func(cs []chainCase) (accepted []chainCase) {
			jobs := make([]h.Job, len(cs))
			lines := make([]string, len(cs))
			for i, cc := range cs {
				jobs[i] = valJob(cc.q, cueText, "")
				lines[i] = "validate\t" + hexs(cc.q) + "\t" + sexpText + "\tx\t()"
			}
			replies := h.RunJobs(jobs, 12)
			var model []string
			if c.Proofs.ModelBuilt {
				var err error
				model, err = h.RunModel(c.Driver, lines)
				c.CrossAll(lines, model)
				if err != nil {
					model = nil
				}
			}
			for i, cc := range cs {
				rv := parseVal(replies[i])
				c.Evals++
				accept := rv.Class == "ok" && !rv.HasErrors
				c.Count(fmt.Sprintf("chain%d:%v", cc.depth, accept))
				cs0 := map[string]any{"kind": "validate", "query": cc.q, "schema": cueText, "schema_sexp": sexpText, "current": "", "implementation": fmt.Sprintf("%v %s/%s", accept, rv.RetType, rv.RetIO), "impl_errors": rv.Errors, "impl_err": rv.Err}
				if rv.Class == "panic" || rv.Class == "fatal" || rv.Class == "hang" {
					c.Violation("relation", fmt.Sprintf("query %q: CueValidate %s", cc.q, rv.Class), cs0)
					continue
				}
				if accept {
					c.Distinct[cc.q] = true
				}
				if !cc.gap {
					if accept != cc.wantAccept {
						c.Violation("relation", fmt.Sprintf("query %q: the last call is applied to a value of type %s/%s; by its descriptor it must be %s, CueValidate %s it %v", cc.q, cs[i].base.pt, cs[i].base.io, map[bool]string{true: "accepted", false: "rejected"}[cc.wantAccept], map[bool]string{true: "accepts", false: "rejects"}[accept], rv.Errors), cs0)
					} else if accept && (rv.RetType != cc.wantPT || rv.RetIO != cc.wantIO) {
						c.Violation("relation", fmt.Sprintf("query %q: the descriptor says the last call returns %s/%s, CueValidate reports %s/%s", cc.q, cc.wantPT, cc.wantIO, rv.RetType, rv.RetIO), cs0)
					}
				}
				if model != nil {
					f := strings.Fields(model[i])
					if len(f) >= 4 && (f[0] == "ok" || f[0] == "err") {
						mAccept := f[0] == "ok" && f[1] == "0"
						mt := strings.ReplaceAll(f[2]+"/"+f[3], "-", "")
						if mAccept != accept || (accept && mt != rv.RetType+"/"+rv.RetIO) {
							cs2 := map[string]any{"model": model[i]}
							for k, v := range cs0 {
								cs2[k] = v
							}
							c.Violation("mismatch", fmt.Sprintf("query %q: implementation %v %s/%s, model/spec %v %s", cc.q, accept, rv.RetType, rv.RetIO, mAccept, mt), cs2)
						}
					} else {
						c.Declined++
					}
				}
				if accept && !cc.gap && cc.wantAccept {
					cc.recvPT, cc.recvIO = rv.RetType, rv.RetIO
					accepted = append(accepted, cc)
				}
			}
			return accepted
		}
		acc2 := runChains(extend(level1, 2, 1))
		acc3 := runChains(extend(acc2, 3, c.N(40, 6)))
		for _, cc := range append(acc2, acc3...) {
			toEval = append(toEval, evalRef{vcase{q: cc.q, fn: cc.fn, recv: cc.base.vc.recv, conformant: true, prefix: cc.q[:strings.LastIndex(cc.q, "."+cc.fn+"(")]}, cc.recvPT, cc.recvIO})
		}
		c.Note("chains_of_two", len(acc2))
		c.Note("chains_of_three", len(acc3))
	}
	// type soundness: evaluate the accepted conformant calls on data of the schema
	type er struct {
		ref evalRef
		ec  *EvalCase
	}
	var ers []er
	type pend struct {
		e      er
		prefix *EvalCase
		cs     map[string]any
	}
	var pending []pend
	for _, ref := range toEval {
		for _, d := range ref.vc.recv.data {
			doc := h.Obj(ref.vc.recv.field, d, "k", h.Str("a"))
			ec := c.AddEval(ref.vc.q, doc, "type-soundness:"+ref.vc.recv.ptype+"/"+ref.vc.recv.io, true, true)
			ec.Eng = engFor(ref.vc.q, d)
			ers = append(ers, er{ref, ec})
		}
	}
	c.RunEvalCases()
	for _, e := range ers {
		o := e.ec.Impl
		cs := map[string]any{"kind": "eval", "query": e.ec.Query, "data": e.ec.Data.String(), "engines": e.ec.Eng, "err_class": true, "implementation": o.String(), "impl_note": o.Note, "reported": e.ref.pt + "/" + e.ref.io}
		switch o.Class {
		case "ok":
			if !kindOK(o.Val, e.ref.pt, e.ref.io) {
				if (e.ref.vc.fn == "AsArray" || e.ref.vc.fn == "Select") && e.ref.vc.recv.io == "Array" {
					cs["deviation"] = "asarray-select-report-element-type"
				}
				c.Violation("relation", fmt.Sprintf("query %q validated as %s/%s but evaluates to %s", e.ec.Query, e.ref.pt, e.ref.io, short(o.Val.String())), cs)
			}
		case "other":
			for _, w := range wrongTypeMsgs {
				if w == "unhandled param" && strings.Contains(e.ec.Query, "$.a") {
					continue // an argument read from a `_` field can hold anything: what it holds is data-dependent
				}
				if strings.Contains(o.Note, w) {
					if e.ref.vc.prefix != "" {
						// a chain: was the value handed to the last call a string that reads as a number (the recorded finding)?
						pending = append(pending, pend{e, c.AddEval(e.ref.vc.prefix, e.ec.Data, "type-soundness:prefix", true, true), cs})
						break
					}
					c.Violation("relation", fmt.Sprintf("query %q was accepted by CueValidate but fails at run time with a wrong-type error on conforming data: %s", e.ec.Query, o.Note), cs)
					break
				}
			}
		case "panic", "fatal", "hang", "errdata":
			c.Violation("relation", fmt.Sprintf("query %q on conforming data: %s", e.ec.Query, o.Class), cs)
		}
	}
	c.RunEvalCases()
	for _, p := range pending {
		if v := p.prefix.Impl; v.Class == "ok" && v.Val != nil && v.Val.Tag == "s" && ratOf(v.Val) != nil {
			p.cs["deviation"] = "numeral-string-receiver"
			p.cs["receiver"] = v.Val.String()
		}
		c.Violation("relation", fmt.Sprintf("query %q was accepted by CueValidate but fails at run time with a wrong-type error on conforming data: %s", p.e.ec.Query, p.e.ec.Impl.Note), p.cs)
	}
	c.Note("validated_calls", len(cases))
	c.Note("evaluated_calls", len(ers))
}

// engFor supplies the engine oracle entries the model may need for this call (regex / json / decoders): none here;
// such calls are declined by the model and compared on the implementation only.
func engFor(q string, d *D) string { return "()" }

func r14(c *Ctx) *rand.Rand { return c.Rng }
