package main

import (
	"fmt"
	"math/big"
	"strings"

	"verifharness/h"
)

// C17 — array functions return the right element, count and aggregate.
//
// Exhaustive part: arrays of length 0..L (L = 6 quick, 12 thorough) of
// numbers, strings, booleans, objects and arrays, as []any and as typed
// slices / Go arrays; Count, Any, First, Last and Index(i) for every i in
// -2..len+2 plus fractional and huge indexes; AsArray; the identities
// First = Index(0), Last = Index(Count-1).  Select with key, function and
// filter sub-queries; AnyOf with literal, path and array arguments; an
// aggregate over a key stepped across objects vs the same values directly.
// Each answer is compared with the model and with an oracle computed here.
func init() { props["C17"] = c17 }

func elemKinds() map[string]func(i int) *D {
	return map[string]func(i int) *D{
		"numbers": func(i int) *D { return h.FloatD(float64(i*3) + 0.5) },
		"ints":    func(i int) *D { return h.Int("int", int64(i*7-3)) },
		"strings": func(i int) *D { return h.Str(fmt.Sprintf("s%d", i)) },
		"bools":   func(i int) *D { return h.Bool(i%2 == 0) },
		"objects": func(i int) *D { return h.Obj("k", h.FloatD(float64(i)), "name", h.Str(fmt.Sprintf("n%d", i))) },
		"arrays":  func(i int) *D { return h.SliceAny(h.FloatD(float64(i)), h.Str("x")) },
		// arrays all of whose elements are zero values are not empty arrays
		"zero-ints":     func(i int) *D { return h.Int("int", 0) },
		"empty-strings": func(i int) *D { return h.Str("") },
		"falses":        func(i int) *D { return h.Bool(false) },
		"nulls":         func(i int) *D { return h.Nil() },
	}
}

func sameAbs(want *D) func(h.Outcome) string {
	return func(o h.Outcome) string {
		if o.Class != "ok" {
			return "the element " + short(h.Abs(want)) + " is required; got " + o.Class
		}
		if h.Abs(o.Val) != h.Abs(want) {
			return "expected the element " + short(h.Abs(want)) + ", got " + short(h.Abs(o.Val))
		}
		return ""
	}
}

func mustError(o h.Outcome) string {
	if o.Class != "other" && o.Class != "knf" {
		return "an error (no value, no panic) is required; got " + o.Class
	}
	return ""
}

func c17(c *Ctx) {
	maxLen := c.N(6, 12)
	c.Rule = fmt.Sprintf("exhaustive: arrays of length 0..%d x element kinds {numbers, ints, strings, bools, objects, arrays} x carriers {[]any, typed slice, Go array} x {Count, Any, First, Last, AsArray, Index(i) for i in -2..len+2, 0.0, 1.5, Count-1 via path, and positions far out of range (1e30, 1e64, 2^64, 2^64+1, 2^65 … as literals, numeral strings and decimals in the data)}; Select with key / function / filter sub-queries; AnyOf with literal, path and array arguments; Sum over a stepped key vs Select vs direct values (rows spelling their keys in varying letter case). Select with one-key sub-queries over rows holding numeral strings, strings, numbers and booleans (maps, map[string]string, structs); Select flattening []any, typed slices and Go arrays alike. Oracles computed in the harness. Non-trivial = array non-empty; distinct by (query, data).", maxLen)
	kinds := elemKinds()
	for kind, mk := range kinds {
		for n := 0; n <= maxLen; n++ {
			xs := []*D{}
			for i := 0; i < n; i++ {
				xs = append(xs, mk(i))
			}
			carriers := []*D{h.SliceAny(xs...)}
			if n > 0 && kind == "nulls" {
				carriers = append(carriers, &D{Tag: "ar", Ety: "any", Xs: xs}) // null elements live in interface slots only
			} else if n > 0 {
				carriers = append(carriers, h.TypedSlice(xs...), &D{Tag: "ar", Ety: h.TypedSlice(xs...).Ety, Xs: xs})
			}
			for ci, arr := range carriers {
				two64 := new(big.Int).Lsh(big.NewInt(1), 64)
				doc := h.Obj("a", arr, "last", h.FloatD(float64(n-1)), "big0", &D{Tag: "d", Coef: two64, Exp: 0}, "big1", &D{Tag: "d", Coef: new(big.Int).Add(two64, big.NewInt(1)), Exp: 0},
					"big64", &D{Tag: "d", Coef: big.NewInt(1), Exp: 64})
				tag := fmt.Sprintf("%s:carrier%d", kind, ci)
				ec := c.AddEval("$.a.Count()", doc, tag, true, n > 0)
				ec.Check = exactly(big.NewRat(int64(n), 1))
				ec = c.AddEval("$.a.Any()", doc, tag, true, n > 0)
				ec.Check = boolCheck(n > 0)
				ec = c.AddEval("$.a.AsArray().Count()", doc, tag, true, n > 0)
				ec.Check = exactly(big.NewRat(1, 1))
				ec = c.AddEval("$.a.AsArray().First()", doc, tag, true, n > 0)
				ec.Check = sameAbs(arr)
				if n > 0 {
					ec = c.AddEval("$.a.First()", doc, tag, true, true)
					ec.Check = sameAbs(xs[0])
					ec = c.AddEval("$.a.Last()", doc, tag, true, true)
					ec.Check = sameAbs(xs[n-1])
					ec = c.AddEval("$.a.Index($.last)", doc, tag, true, true)
					ec.Check = sameAbs(xs[n-1])
				} else {
					ec = c.AddEval("$.a.First()", doc, tag, true, false)
					ec.Check = mustError
					ec = c.AddEval("$.a.Last()", doc, tag, true, false)
					ec.Check = mustError
				}
				for i := -2; i <= n+2; i++ {
					for _, sp := range []string{fmt.Sprint(i), fmt.Sprintf("%d.0", i)} {
						ec = c.AddEval("$.a.Index("+sp+")", doc, tag, true, n > 0)
						if i >= 0 && i < n {
							ec.Check = sameAbs(xs[i])
						} else {
							ec.Check = mustError
						}
					}
				}
				// positions far beyond every length — also those whose low 64 bits are a valid position
				// (m*2^64+k, multiples of 10^64) — as literals, numeral strings and decimals from the data
				for _, hp := range []string{"1e30", "1e64", "1e100", "1.7976931348623157e308", "18446744073709551616", "18446744073709551617", "36893488147419103232", "4294967296", "9223372036854775808",
					"\"18446744073709551616\"", "\"18446744073709551617\"", "\"1e64\"", "$.big0", "$.big1", "$.big64"} {
					ec = c.AddEval("$.a.Index("+hp+")", doc, tag, true, n > 0)
					ec.Check = mustError
				}
				ec = c.AddEval("$.a.Index(-0.5)", doc, tag, true, n > 0)
				ec.Check = func(o h.Outcome) string { // fractional: unspecified which, but never a panic or an out-of-range element
					if o.Class == "panic" || o.Class == "fatal" {
						return "no panic"
					}
					return ""
				}
				c.AddEval("$.a.Index(1.5)", doc, tag, true, n > 0)
			}
		}
	}
	c.RunEvalCases()

	// Select, AnyOf, aggregates over stepped keys
	nRand := c.N(12000, 150000)
	r := c.Rng
	for it := 0; it < nRand; it++ {
		n := r.Intn(maxLen + 1)
		objs := []*D{}
		var ks []*big.Rat
		var names []string
		var nested [][]int
		for i := 0; i < n; i++ {
			kv := int64(r.Intn(9) - 2)
			tags := []*D{}
			var tg []int
			for j, m := 0, r.Intn(3); j < m; j++ {
				t := r.Intn(5)
				tags = append(tags, h.FloatD(float64(t)))
				tg = append(tg, t)
			}
			// the rows spell their keys in varying letter case (keys are matched without regard to case)
			objs = append(objs, h.Obj(recase("k", r.Intn), h.FloatD(float64(kv)), recase("name", r.Intn), h.Str(fmt.Sprintf("n%d", i)), recase("tags", r.Intn), h.SliceAny(tags...)))
			ks = append(ks, big.NewRat(kv, 1))
			names = append(names, fmt.Sprintf("n%d", i))
			nested = append(nested, tg)
		}
		doc := h.Obj("xs", h.SliceAny(objs...), "pick", h.SliceAny(h.FloatD(1), h.FloatD(5)), "w", h.Str("n1"))
		sum := new(big.Rat)
		for _, k := range ks {
			sum.Add(sum, k)
		}
		switch r.Intn(12) {
		case 11: // Select flattens array results whatever Go type carries them: []any, []string, []float64, [N]any, [][]…
			if n == 0 {
				continue
			}
			var rows, want []*D
			for i := 0; i < n; i++ {
				var tags []*D
				for j, m := 0, r.Intn(3); j < m; j++ {
					if it%2 == 0 {
						tags = append(tags, h.Str(fmt.Sprintf("t%d", r.Intn(4))))
					} else {
						tags = append(tags, h.FloatD(float64(r.Intn(5))))
					}
				}
				want = append(want, tags...)
				var td *D
				switch r.Intn(4) {
				case 0:
					td = h.SliceAny(tags...)
				case 1:
					if len(tags) > 0 {
						td = h.TypedSlice(tags...)
					} else {
						td = h.SliceAny()
					}
				case 2:
					if len(tags) > 0 {
						td = &D{Tag: "ar", Ety: h.TypedSlice(tags...).Ety, Xs: tags}
					} else {
						td = h.SliceAny()
					}
				default:
					td = &D{Tag: "ar", Ety: "any", Xs: tags}
					if len(tags) == 0 {
						td = h.SliceAny()
					}
				}
				row := h.Obj("tags", td, "id", h.FloatD(float64(i)))
				if r.Intn(3) == 0 {
					row = toStruct(h.Obj("Tags", td, "Id", h.FloatD(float64(i))))
				}
				rows = append(rows, row)
			}
			doc2 := h.Obj("xs", h.SliceAny(rows...))
			ec := c.AddEval(`$.xs.Select("$.tags")`, doc2, "select-flatten-typed", true, true)
			if len(want) == 0 {
				ec.Check = func(o h.Outcome) string {
					if o.Class != "ok" || (o.Val.Tag != "sl" && o.Val.Tag != "nil") || len(o.Val.Xs) != 0 {
						return "no results are required"
					}
					return ""
				}
			} else {
				ec.Check = sameAbs(h.SliceAny(want...))
			}
			ec = c.AddEval(`$.xs.Select("$.tags").Count()`, doc2, "select-flatten-typed", true, true)
			ec.Check = exactly(big.NewRat(int64(len(want)), 1))
		case 10: // Select with a one-key sub-query over rows whose values are of every kind — numeral TEXT included:
			// the result of running `$.code` on a row is the stored value (a string stays that string)
			if n == 0 {
				continue
			}
			pool := []*D{h.Str("007"), h.Str("12"), h.Str("1e3"), h.Str(".5"), h.Str("-3"), h.Str("abc"), h.Str(""), h.FloatD(7), h.FloatD(2.5), h.Bool(true), h.Int("int", 12), h.Str("0"), h.Str("12 ")}
			var rows, want []*D
			strOnly := r.Intn(3) == 0
			for i := 0; i < n; i++ {
				v := pool[r.Intn(len(pool))]
				if strOnly {
					v = pool[r.Intn(7)]
				}
				want = append(want, v)
				row := h.Obj(recase("code", r.Intn), v, "id", h.FloatD(float64(i)))
				switch {
				case strOnly && it%2 == 0:
					row = &D{Tag: "m", Kty: "str", Ety: "str", Ks: []*D{h.Str("code")}, Vs: []*D{v}} // map[string]string
				case it%5 == 0:
					row = toStruct(h.Obj("Code", v, "Id", h.FloatD(float64(i))))
				}
				rows = append(rows, row)
			}
			doc2 := h.Obj("xs", h.SliceAny(rows...))
			sub := []string{"$.code", "@.code", "$.CODE", "$.code?"}[r.Intn(4)]
			ec := c.AddEval(`$.xs.Select("`+sub+`")`, doc2, "select-key-mixed-values", true, true)
			ec.Check = sameAbs(h.SliceAny(want...))
			i := r.Intn(n)
			ec = c.AddEval(fmt.Sprintf(`$.xs.Select("%s").Index(%d).AsJSON()`, sub, i), doc2, "select-key-mixed-values", true, true)
		case 9: // Select whose sub-query yields NULL for some elements: one result per element, in order, nulls included
			if n == 0 {
				continue
			}
			var objs2, want []*D
			for i := 0; i < n; i++ {
				var v *D = h.Nil()
				if r.Intn(2) == 0 {
					v = h.FloatD(float64(i + 1))
				}
				objs2 = append(objs2, h.Obj("opt", v, "id", h.FloatD(float64(i))))
				want = append(want, v)
			}
			doc2 := h.Obj("xs", h.SliceAny(objs2...))
			ec := c.AddEval(`$.xs.Select("$.opt")`, doc2, "select-null-results", true, true)
			ec.Check = sameAbs(h.SliceAny(want...))
			ec = c.AddEval(`$.xs.Select("$.opt").Count()`, doc2, "select-null-results", true, true)
			ec.Check = exactly(big.NewRat(int64(n), 1))
			ec = c.AddEval(`$.xs.Select("$.opt").Last()`, doc2, "select-null-results", true, true)
			ec.Check = sameAbs(want[n-1])
		case 0: // Select with a key sub-query: the values in order
			ec := c.AddEval(`$.xs.Select("$.name")`, doc, "select-key", true, n > 0)
			want := names
			ec.Check = func(o h.Outcome) string {
				if o.Class != "ok" || (o.Val.Tag != "sl") || len(o.Val.Xs) != len(want) {
					return fmt.Sprintf("an array of %d results is required", len(want))
				}
				for i, x := range o.Val.Xs {
					if x.Tag != "s" || x.S != want[i] {
						return "results must be the elements' values in order"
					}
				}
				return ""
			}
		case 1: // Select flattening array results
			ec := c.AddEval(`$.xs.Select("$.tags").Count()`, doc, "select-flatten", true, n > 0)
			total := 0
			for _, t := range nested {
				total += len(t)
			}
			ec.Check = exactly(big.NewRat(int64(total), 1))
		case 2: // Select with a function sub-query
			ec := c.AddEval(`$.xs.Select("$.k.Add(1)").Sum()`, doc, "select-function", true, n > 0)
			ec.Check = exactly(new(big.Rat).Add(sum, big.NewRat(int64(n), 1)))
		case 3: // Select with a filter sub-query
			ec := c.AddEval(`$.xs.Select("$.tags[@.Greater(1)]").Count()`, doc, "select-filter", true, n > 0)
			total := 0
			for _, t := range nested {
				for _, v := range t {
					if v > 1 {
						total++
					}
				}
			}
			ec.Check = exactly(big.NewRat(int64(total), 1))
		case 4: // the aggregate identity
			if n == 0 {
				continue
			}
			ec := c.AddEval("$.xs.k.Sum()", doc, "aggregate-stepped", true, true)
			ec.Check = exactly(sum)
			ec = c.AddEval(`$.xs.Select("$.k").Sum()`, doc, "aggregate-select", true, true)
			ec.Check = exactly(sum)
		case 5: // AnyOf with literal, path and array arguments
			if n == 0 {
				continue
			}
			i := r.Intn(n)
			args := []string{"99", "$.pick", fmt.Sprint(r.Intn(9) - 2)}
			r.Shuffle(len(args), func(a, b int) { args[a], args[b] = args[b], args[a] })
			lit, _ := new(big.Rat).SetString(args[indexOfNonPath(args)])
			want := ks[i].Cmp(big.NewRat(1, 1)) == 0 || ks[i].Cmp(big.NewRat(5, 1)) == 0 || ks[i].Cmp(big.NewRat(99, 1)) == 0 || ks[i].Cmp(lit) == 0
			for _, a := range args {
				if a != "$.pick" {
					if v, ok := new(big.Rat).SetString(a); ok && v.Cmp(ks[i]) == 0 {
						want = true
					}
				}
			}
			ec := c.AddEval(fmt.Sprintf("$.xs.Index(%d).k.AnyOf(%s)", i, strings.Join(args, ",")), doc, "anyof", true, true)
			ec.Check = boolCheck(want)
		case 7, 8: // AnyOf on a number with arguments of mixed kinds in every order (strings and bools before the match)
			if n == 0 {
				continue
			}
			i := r.Intn(n)
			pool := []string{"\"x\"", "false", "true", "\"5\"", "$.w", "$.mixed", "99", fmt.Sprint(r.Intn(9) - 2), "$.pick"}
			r.Shuffle(len(pool), func(a, b int) { pool[a], pool[b] = pool[b], pool[a] })
			args := pool[:1+r.Intn(5)]
			want := false
			for _, a := range args {
				var nums []*big.Rat
				switch a {
				case "$.pick":
					nums = []*big.Rat{big.NewRat(1, 1), big.NewRat(5, 1)}
				case "$.mixed":
					nums = []*big.Rat{big.NewRat(3, 1), big.NewRat(0, 1)}
				default:
					if v, ok := new(big.Rat).SetString(a); ok {
						nums = []*big.Rat{v}
					}
				}
				for _, v := range nums {
					if v.Cmp(ks[i]) == 0 {
						want = true
					}
				}
			}
			doc2 := h.Obj("xs", h.SliceAny(objs...), "pick", h.SliceAny(h.FloatD(1), h.FloatD(5)), "w", h.Str("n1"), "mixed", h.SliceAny(h.Str("x"), h.Bool(false), h.FloatD(3), h.Str("y"), h.FloatD(0)))
			ec := c.AddEval(fmt.Sprintf("$.xs.Index(%d).k.AnyOf(%s)", i, strings.Join(args, ",")), doc2, "anyof-mixed-kinds", true, true)
			ec.Check = boolCheck(want)
		case 6: // AnyOf on strings with a spread array of the elements' names
			if n == 0 {
				continue
			}
			ec := c.AddEval("$.w.AnyOf($.xs.name)", doc, "anyof-array", true, true)
			ec.Check = boolCheck(n > 1)
		}
	}
}

func indexOfNonPath(args []string) int {
	for i, a := range args {
		if !strings.HasPrefix(a, "$") {
			return i
		}
	}
	return 0
}
