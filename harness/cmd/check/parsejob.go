package main

import (
	"bytes"
	"crypto/sha256"
	"encoding/hex"
	"encoding/json"
	"errors"
	"fmt"
	"io"
	"math/rand"
	"strings"

	"github.com/machship/mpath"

	"verifharness/h"
)

// The "parse" worker job: one query text through ParseString and through
// ParseReadSeeker with a chunked reader, a reader positioned at an offset and
// a reader that fails part-way; bytes written to the standard streams are
// measured around the calls.
// payload: bytes-hex TAB seed TAB fault-offset (-1 = none)

type parseOut struct {
	Class  string `json:"c"`           // op | err | neither | both | panic
	Sprint string `json:"s,omitempty"` // Sprint(0) of the operation
	User   string `json:"u,omitempty"` // UserString
	Hash   string `json:"h,omitempty"` // hash of json.Marshal(op)
	Known  bool   `json:"k,omitempty"` // only known function names and AND/OR group keywords
	Err    string `json:"e,omitempty"`
}

type parseReply struct {
	Plain     parseOut `json:"plain"`
	Chunked   parseOut `json:"chunked"`
	Offset    parseOut `json:"offset"`
	StdAt     parseOut `json:"stdAt"` // a strings.Reader / bytes.Reader handed over at a position (the end included)
	StdPos    int      `json:"stdPos"`
	NoSeek    parseOut `json:"noSeek"` // a reader whose Seek fails: an error, whatever the error says
	Fault     parseOut `json:"fault"`  // the first delivery mode of the fault that did not yield an error (or the last one)
	FaultMode int      `json:"faultMode"`
	FaultAt   int      `json:"faultAt"`
	Plan      []int    `json:"plan"`
	Streams   int64    `json:"streams"` // bytes written to fd 1/2 during the calls
	// C09
	Reparse  parseOut `json:"reparse"`  // parse of Sprint(op)
	Reparse2 string   `json:"reparse2"` // Sprint of the reparsed operation
	EvalSame bool     `json:"evalSame"` // op and the reparsed op agree on the probe documents
	EvalNote string   `json:"evalNote,omitempty"`
}

func classify(op mpath.Operation, err error) parseOut {
	switch {
	case op != nil && err == nil:
		o := parseOut{Class: "op", Sprint: op.Sprint(0)}
		if us, ok := op.(interface{ UserString() string }); ok {
			o.User = us.UserString()
		}
		if b, merr := json.Marshal(op); merr == nil {
			sum := sha256.Sum256(b)
			o.Hash = hex.EncodeToString(sum[:8])
			var tree any
			if json.Unmarshal(b, &tree) == nil {
				o.Known = knownOnly(tree)
			}
		}
		return o
	case op == nil && err != nil:
		return parseOut{Class: "err", Err: err.Error()}
	case op == nil && err == nil:
		return parseOut{Class: "neither"}
	}
	return parseOut{Class: "both", Err: err.Error()}
}

// knownOnly: no unknown function name and no group keyword other than AND / OR
func knownOnly(t any) bool {
	switch x := t.(type) {
	case map[string]any:
		if _, ok := x["FunctionType"]; ok {
			if inv, _ := x["IsInvalid"].(bool); inv {
				return false
			}
		}
		if lt, ok := x["LogicalOperationType"]; ok {
			if s, _ := lt.(string); s != "And" && s != "Or" {
				return false
			}
		}
		for _, v := range x {
			if !knownOnly(v) {
				return false
			}
		}
	case []any:
		for _, v := range x {
			if !knownOnly(v) {
				return false
			}
		}
	}
	return true
}

func safeParse(f func() (mpath.Operation, error)) (out parseOut) {
	defer func() {
		if r := recover(); r != nil {
			out = parseOut{Class: "panic", Err: fmt.Sprint(r)}
		}
	}()
	return classify(f())
}

// planReader delivers the data in the chunk sizes of plan (0 = an empty read), then EOF;
// failAt >= 0 makes the read that would deliver byte failAt return an error instead.
// mode says how the fault is delivered (io.Reader allows all of them):
//
//	0  the bytes before the fault, then (0, err) on every later Read
//	1  the last readable bytes TOGETHER with the error, then io.EOF
//	2  the last readable bytes together with the error, the error again on every later Read
//	3  (0, err) once, then io.EOF
//	4  like 0 and 5 like 3, the error being io.ErrUnexpectedEOF (an error value of the io package itself)
//	6  like 0 and 7 like 3, the error's text being "invalid char escape" (a message of text/scanner's own)
type planReader struct {
	data   []byte
	pos    int
	plan   []int
	step   int
	failAt int
	mode   int
	failed bool
}

// noSeekReader: every Seek fails
type noSeekReader struct {
	planReader
	err error
}

func (r *noSeekReader) Seek(int64, int) (int64, error) { return 0, r.err }

var errInjected = errors.New("injected read fault")
var errEscapeText = errors.New("invalid char escape")

func (r *planReader) Read(p []byte) (int, error) {
	n := len(p)
	if r.step < len(r.plan) {
		n = r.plan[r.step]
		r.step++
	}
	if n > len(p) {
		n = len(p)
	}
	fault := errInjected
	if r.mode >= 4 {
		fault = io.ErrUnexpectedEOF // the fault is whatever error the reader's source produced: also one of io's own values
	}
	if r.mode >= 6 {
		fault = errEscapeText // … or an error whose text happens to be one of text/scanner's own messages
	}
	if r.failed {
		if r.mode == 1 || r.mode == 3 || r.mode == 5 || r.mode == 7 {
			return 0, io.EOF
		}
		return 0, fault
	}
	if r.failAt >= 0 && r.pos+n > r.failAt {
		k := r.failAt - r.pos
		if k > len(p) {
			k = len(p)
		}
		if k > 0 {
			copy(p, r.data[r.pos:r.pos+k])
			r.pos += k
			if r.mode == 0 || r.mode == 3 || r.mode == 4 || r.mode == 5 || r.mode == 6 || r.mode == 7 || r.pos < r.failAt {
				return k, nil // the fault comes with the next Read
			}
			r.failed = true
			return k, fault
		}
		r.failed = true
		return 0, fault
	}
	if r.pos >= len(r.data) {
		return 0, io.EOF
	}
	if n == 0 {
		return 0, nil
	}
	if r.pos+n > len(r.data) {
		n = len(r.data) - r.pos
	}
	copy(p, r.data[r.pos:r.pos+n])
	r.pos += n
	return n, nil
}

func (r *planReader) Seek(offset int64, whence int) (int64, error) {
	switch whence {
	case io.SeekStart:
		r.pos = int(offset)
	case io.SeekCurrent:
		r.pos += int(offset)
	case io.SeekEnd:
		r.pos = len(r.data) + int(offset)
	}
	r.step = 0
	return int64(r.pos), nil
}

var probeDocs = []any{
	map[string]any{"a": map[string]any{"b": float64(1), "c": "x"}, "b": float64(2), "xs": []any{map[string]any{"k": float64(1)}, map[string]any{"k": float64(3)}}, "s": "hello", "t": true},
	map[string]any{"a": nil, "b": "2", "xs": []any{}, "s": "", "t": false},
	map[string]any{"A": float64(5), "k_1": []any{float64(1), float64(2)}, "n": float64(-1.5)},
	map[string]any{"x": float64(1), "y": float64(1), "a": map[string]any{"b": float64(1)}, "ab": float64(2)},
}

func evalAll(op mpath.Operation) (out string) {
	defer func() {
		if r := recover(); r != nil {
			out = "panic:" + fmt.Sprint(r)
		}
	}()
	var sb strings.Builder
	for _, d := range probeDocs {
		res, err := op.Do(d, d)
		if err != nil {
			sb.WriteString("err;")
			continue
		}
		b, _ := json.Marshal(res)
		sb.Write(b)
		sb.WriteByte(';')
	}
	return sb.String()
}

func parseJob(payload string) string {
	parts := strings.Split(payload, "\t")
	if len(parts) != 3 {
		return "badcase"
	}
	data, err := hex.DecodeString(parts[0])
	if err != nil {
		return "badcase"
	}
	var seed int64
	var faultAt int
	fmt.Sscan(parts[1], &seed)
	fmt.Sscan(parts[2], &faultAt)
	rng := rand.New(rand.NewSource(seed))
	var plan []int
	for rem := len(data); rem > 0; {
		n := rng.Intn(5) // 0..4: empty reads and splits inside multi-byte runes
		if rng.Intn(6) == 0 {
			n = 1 + rng.Intn(64)
		}
		if n > rem {
			n = rem
		}
		plan = append(plan, n)
		rem -= n
	}
	var rep parseReply
	rep.Plan = plan
	if len(rep.Plan) > 40 {
		rep.Plan = rep.Plan[:40]
	}
	before := h.CapturedBytes()
	var plainOp mpath.Operation
	rep.Plain = safeParse(func() (mpath.Operation, error) {
		op, err := mpath.ParseString(string(data))
		plainOp = op
		return op, err
	})
	rep.Chunked = safeParse(func() (mpath.Operation, error) {
		return mpath.ParseReadSeeker(&planReader{data: data, plan: plan, failAt: -1})
	})
	rep.Offset = safeParse(func() (mpath.Operation, error) {
		r := &planReader{data: data, failAt: -1}
		if len(data) > 0 {
			r.pos = 1 + rng.Intn(len(data))
		}
		return mpath.ParseReadSeeker(r)
	})
	for _, pos := range []int{len(data), rng.Intn(len(data) + 1), 0} {
		pos := pos
		rep.StdPos = pos
		rep.StdAt = safeParse(func() (mpath.Operation, error) {
			if rng.Intn(2) == 0 {
				sr := strings.NewReader(string(data))
				sr.Seek(int64(pos), io.SeekStart)
				return mpath.ParseReadSeeker(sr)
			}
			br := bytes.NewReader(data)
			br.Seek(int64(pos), io.SeekStart)
			return mpath.ParseReadSeeker(br)
		})
		if rep.StdAt.Class != rep.Plain.Class || rep.StdAt.Sprint != rep.Plain.Sprint {
			break
		}
	}
	rep.NoSeek = safeParse(func() (mpath.Operation, error) {
		pos := 0
		if len(data) > 0 {
			pos = rng.Intn(len(data) + 1)
		}
		return mpath.ParseReadSeeker(&noSeekReader{planReader{data: data, pos: pos, failAt: -1}, []error{errors.New("seek failed"), fmt.Errorf("cannot rewind: %w", errors.ErrUnsupported), io.ErrClosedPipe}[rng.Intn(3)]})
	})
	rep.FaultAt = faultAt
	if faultAt >= 0 {
		for mode := 0; mode < 8; mode++ {
			rep.Fault = safeParse(func() (mpath.Operation, error) {
				return mpath.ParseReadSeeker(&planReader{data: data, plan: plan, failAt: faultAt, mode: mode})
			})
			rep.FaultMode = mode
			if rep.Fault.Class != "err" {
				break
			}
		}
	}
	// C09: print and parse again
	if rep.Plain.Class == "op" && plainOp != nil {
		var reOp mpath.Operation
		rep.Reparse = safeParse(func() (mpath.Operation, error) {
			op, err := mpath.ParseString(rep.Plain.Sprint)
			reOp = op
			return op, err
		})
		if rep.Reparse.Class == "op" && reOp != nil {
			rep.Reparse2 = reOp.Sprint(0)
			a, b := evalAll(plainOp), evalAll(reOp)
			rep.EvalSame = a == b
			if !rep.EvalSame {
				rep.EvalNote = a + " vs " + b
			}
		}
	}
	rep.Streams = h.CapturedBytes() - before
	b, _ := json.Marshal(rep)
	return hex.EncodeToString(b)
}

func init() { h.Handlers["parse"] = parseJob }

func parseJobOf(data string, seed int64, faultAt int) h.Job {
	return h.Job{Kind: "parse", Payload: fmt.Sprintf("%s\t%d\t%d", hex.EncodeToString([]byte(data)), seed, faultAt)}
}

func decodeParseReply(line string) (parseReply, string) {
	if strings.HasPrefix(line, "fatal") || strings.HasPrefix(line, "hang") {
		return parseReply{}, strings.SplitN(line, "\t", 2)[0]
	}
	b, err := hex.DecodeString(line)
	if err != nil {
		return parseReply{}, "badreply"
	}
	var r parseReply
	if json.Unmarshal(b, &r) != nil {
		return parseReply{}, "badreply"
	}
	return r, ""
}
