package main

import (
	"bytes"
	"fmt"
	"os"
	"os/exec"
	"path/filepath"
	"regexp"
	"strconv"
	"strings"
	"time"
)

// C12 — safe to run concurrently (PARTIAL).
//
// The proof part (Properties/C12.v) is about the action programs regenerated
// from the source: lock discipline and pool ownership for any number of
// threads and any schedule.  The runtime part, which no model here can
// exhibit (the Go memory model below whole-map operations, races inside
// third-party code), is a stress run under the race detector: 2..32
// goroutines x random mixes of parse / evaluate-shared-operation / validate
// with repeated and distinct cache keys, randomised yields, every result
// compared with the sequentially computed one.  The stress program runs as a
// child process (a `concurrent map writes` is fatal, not a panic).
func init() { props["C12"] = c12 }

func c12(c *Ctx) {
	budget := time.Duration(c.N(25, 480)) * time.Second
	c.Rule = "stress under the Go race detector: goroutine counts {2,4,8,16,32} x seeded random mixes of ParseString / Do on shared operations (shared and separate data) / CueValidate with repeated and never-seen cache keys, documents whose keys are spelled in another case per goroutine, randomised yields; the goroutines are released together and each starts with something nobody has done yet in the process (first parse of an unknown function name / first validation of a schema / first evaluation of a regular expression); every concurrent result compared with the same call run alone. evaluations = calls executed concurrently; non-trivial = every call (each is compared); distinct = calls (seeded plans differ per round)."
	bin := filepath.Join(c.Root, "build", "harness", "stress")
	if _, err := os.Stat(bin); err != nil {
		c.Violation("proof", "the race-detector stress binary was not built: "+err.Error(), map[string]any{"kind": "proof", "theorem": "<stress binary>"})
		return
	}
	start := time.Now()
	re := regexp.MustCompile(`RESULT ok calls=(\d+) rounds=(\d+)`)
	gs := []int{2, 4, 8, 16, 32}
	round := 0
	for time.Since(start) < budget {
		g := gs[round%len(gs)]
		seed := c.Seed*1000 + int64(round)
		cmd := exec.Command(bin, "-g", fmt.Sprint(g), "-n", "150", "-seed", fmt.Sprint(seed), "-secs", "3")
		cmd.Env = append(os.Environ(), "GORACE=halt_on_error=1 history_size=2")
		var out, errb bytes.Buffer
		cmd.Stdout, cmd.Stderr = &out, &errb
		done := make(chan error, 1)
		cmd.Start()
		go func() { done <- cmd.Wait() }()
		var err error
		select {
		case err = <-done:
		case <-time.After(120 * time.Second):
			cmd.Process.Kill()
			err = fmt.Errorf("hang: no result within 120s")
		}
		round++
		c.Count(fmt.Sprintf("goroutines:%d", g))
		if m := re.FindStringSubmatch(out.String()); m != nil && err == nil {
			n, _ := strconv.Atoi(m[1])
			c.Evals += n
			for i := 0; i < n; i++ {
				c.Distinct[fmt.Sprintf("%d/%d", seed, i)] = true
			}
			if round <= 3 {
				c.Sample(map[string]any{"goroutines": g, "seed": seed, "result": strings.TrimSpace(out.String())})
			}
			continue
		}
		what := "the stress run failed"
		switch {
		case strings.Contains(errb.String(), "DATA RACE"):
			what = "the race detector reports a data race"
		case strings.Contains(errb.String(), "concurrent map"):
			what = "fatal error: concurrent map access"
		case strings.Contains(out.String(), "MISMATCH"):
			what = "a call returned something else than when run alone"
		case err != nil && strings.Contains(err.Error(), "hang"):
			what = "the stress run hangs (deadlock?)"
		}
		excerpt := errb.String()
		if len(excerpt) > 3000 {
			excerpt = excerpt[:3000]
		}
		c.Violation("relation", fmt.Sprintf("%s with %d goroutines, seed %d: %s", what, g, seed, firstLine(out.String()+excerpt)),
			map[string]any{"kind": "stress", "goroutines": g, "seed": seed, "stdout": out.String(), "stderr": excerpt, "replay_cmd": fmt.Sprintf("build/harness/stress -g %d -n 150 -seed %d -secs 3", g, seed)})
		break
	}
	c.Note("stress_rounds", round)
	c.Note("runtime_part", "race detector + crash isolation + result comparison; the model cannot exhibit the Go memory model below whole-map operations nor races inside cuelang / shopspring")
	c.Assume = append(c.Assume, "the action programs of Generated/Conc.v are read off the source by go/ast: calls through interfaces or function values are not resolved; sync.Mutex and sync.Pool behave as their textbook specifications")
}

func firstLine(s string) string {
	s = strings.TrimSpace(s)
	if i := strings.IndexByte(s, '\n'); i >= 0 {
		s = s[:i]
	}
	if len(s) > 200 {
		s = s[:200]
	}
	return s
}
