package main

import (
	"fmt"
	"strings"

	"verifharness/h"
)

// C03 — logical groups are truth-functional AND / OR.
//
// Exhaustive part: every group tree of depth <= 2 and width <= 2 (quick) or
// width <= 3 over two variables (thorough adds a third variable), every keyword choice
// (AND, OR, omitted) at every group, every truth assignment, each tree placed
// at top level, nested in another group, as a filter body and as a function
// argument.  Random part: deeper trees whose leaves are comparison paths over
// random numbers.
func init() { props["C03"] = c03 }

type gtree struct {
	leaf int // >= 0: variable index; -1: group
	kw   string
	kids []*gtree
}

func (t *gtree) text(varPath func(i int) string) string {
	if t.leaf >= 0 {
		return varPath(t.leaf)
	}
	parts := []string{}
	if t.kw != "" {
		parts = append(parts, t.kw)
	}
	for _, k := range t.kids {
		parts = append(parts, k.text(varPath))
	}
	return "{" + strings.Join(parts, ",") + "}"
}

// value: the truth value of the tree under the assignment (bit i = variable i): AND unless the keyword is OR
func (t *gtree) value(asg int) bool {
	if t.leaf >= 0 {
		return asg&(1<<t.leaf) != 0
	}
	if t.kw == "OR" {
		for _, k := range t.kids {
			if k.value(asg) {
				return true
			}
		}
		return false
	}
	for _, k := range t.kids {
		if !k.value(asg) {
			return false
		}
	}
	return true
}

func (t *gtree) groups() int {
	if t.leaf >= 0 {
		return 0
	}
	n := 1
	for _, k := range t.kids {
		n += k.groups()
	}
	return n
}

func enumTrees(depth, width, nvars int) []*gtree {
	opts := []*gtree{}
	for v := 0; v < nvars; v++ {
		opts = append(opts, &gtree{leaf: v})
	}
	if depth > 1 {
		opts = append(opts, enumTrees(depth-1, width, nvars)...)
	}
	var out []*gtree
	var lists func(n int, cur []*gtree)
	lists = func(n int, cur []*gtree) {
		for _, kw := range []string{"AND", "OR", ""} {
			out = append(out, &gtree{leaf: -1, kw: kw, kids: append([]*gtree{}, cur...)})
		}
		if n == width {
			return
		}
		for _, o := range opts {
			lists(n+1, append(cur, o))
		}
	}
	lists(0, nil)
	return out
}

func c03(c *Ctx) {
	c.Rule = "exhaustive: all group trees of depth<=2, width<=2 (thorough: width<=3) over 2 (thorough: 3) boolean variables x keyword in {AND,OR,omitted} x all truth assignments x 4 placements (top level, nested, filter body, function argument), and once more at top level and as a filter body with every leaf spelled as an operand that is boolean by its data (First / Last / Index of an array of booleans, Equal(true), Not().Not()) against a truth-table oracle, and as a filter body over a null element with null tests as leaves; random: trees of depth<=5 with comparison leaves over random data.; filter bodies over arrays of 2..4 rows with leaves reading the element (@.v0 @.v1) or the root ($.w0 $.w1) in every mixture, four deep, truth-table oracle per row. Non-trivial = the tree has at least one operand; distinct by (query, data)."
	c.Exhaust = true
	nvars, width := 2, 2
	if c.Thorough() {
		nvars, width = 3, 3
	}
	trees := enumTrees(2, width, nvars)
	if c.Thorough() && len(trees) > 60000 {
		// keep every tree with <= 2 groups and a seeded sample of the rest
		keep := trees[:0]
		for _, t := range trees {
			if t.groups() <= 2 || c.Rng.Intn(20) == 0 {
				keep = append(keep, t)
			}
		}
		trees = keep
		c.Exhaust = false
	}
	rootVar := func(i int) string { return fmt.Sprintf("$.v%d", i) }
	elemVar := func(i int) string { return fmt.Sprintf("@.v%d", i) }
	for ti, t := range trees {
		if len(c.Cases) > 150000 {
			c.RunEvalCases() // in batches: the thorough tier enumerates millions of cases
		}
		extras := !c.Thorough() || ti%8 == 0 // the re-spelled operands: every tree in the quick tier, a seeded eighth in the thorough one
		for asg := 0; asg < 1<<nvars; asg++ {
			kv := []any{}
			for v := 0; v < nvars; v++ {
				kv = append(kv, fmt.Sprintf("v%d", v), h.Bool(asg&(1<<v) != 0))
			}
			doc := h.Obj(kv...)
			nontriv := len(t.kids) > 0
			// top level
			c.AddEval(t.text(rootVar), doc, "top", false, nontriv)
			// nested in another group (both keywords)
			c.AddEval("{OR,"+t.text(rootVar)+"}", doc, "nested", false, nontriv)
			// as a function argument: true.Equal({...}) is the group's value
			doc2 := h.Obj(append(kv, "tt", h.Bool(true))...)
			c.AddEval("$.tt.Equal("+t.text(rootVar)+")", doc2, "argument", false, nontriv)
			// as a filter body over a one-element array: kept iff the group is true.
			// A filter body is written with [ ] and its direct operands are @-paths.
			body := t.text(elemVar)
			body = "[" + body[1:len(body)-1] + "]"
			doc3 := h.Obj("arr", h.SliceAny(h.Obj(kv...)))
			c.AddEval("$.arr"+body+".Count()", doc3, "filter-body", false, nontriv)
			// operands that are boolean by their DATA rather than by their last step: First / Last / Index
			// of an array of booleans, a comparison, a double negation — one spelling per leaf, at random
			if nontriv && extras {
				spell := func(root string) func(i int) string {
					return func(i int) string {
						switch c.Rng.Intn(6) {
						case 0:
							return fmt.Sprintf("%s.f%d.First()", root, i)
						case 1:
							return fmt.Sprintf("%s.f%d.Last()", root, i)
						case 2:
							return fmt.Sprintf("%s.f%d.Index(1)", root, i)
						case 3:
							return fmt.Sprintf("%s.v%d.Equal(true)", root, i)
						case 4:
							return fmt.Sprintf("%s.v%d.Not().Not()", root, i)
						}
						return fmt.Sprintf("%s.v%d", root, i)
					}
				}
				kv2 := append([]any{}, kv...)
				for v := 0; v < nvars; v++ {
					b := h.Bool(asg&(1<<v) != 0)
					kv2 = append(kv2, fmt.Sprintf("f%d", v), h.SliceAny(b, b))
				}
				want := t.value(asg)
				check := func(ec *EvalCase, render func(bool) string) {
					ec.Check = func(o h.Outcome) string {
						if o.Class != "ok" || h.Abs(o.Val) != render(want) {
							got := o.Class
							if o.Val != nil {
								got += " " + short(h.Abs(o.Val))
							}
							return fmt.Sprintf("the group is %v under this assignment; got %s", want, got)
						}
						return ""
					}
				}
				// the same tree as the body of a filter over an array whose one element is NULL, every leaf a test
				// that is true (or false) of null without an error
				nullLeaf := func(i int) string {
					if asg&(1<<i) != 0 {
						return []string{"@.IsNull()", "@.zz?.IsNull()", "@.IsNullOrEmpty()"}[c.Rng.Intn(3)]
					}
					return []string{"@.IsNotNull()", "@.zz?.IsNotNull()"}[c.Rng.Intn(2)]
				}
				body3 := t.text(nullLeaf)
				body3 = "[" + body3[1:len(body3)-1] + "]"
				check(c.AddEval("$.arr"+body3+".Count()", h.Obj("arr", h.SliceAny(h.Nil())), "filter-body-over-null-element", false, true), func(b bool) string {
					if b {
						return "n:1e0"
					}
					return "n:0e0"
				})
				check(c.AddEval(t.text(spell("$")), h.Obj(kv2...), "data-boolean-operands:top", false, true), func(b bool) string { return fmt.Sprint(b) })
				body2 := t.text(spell("@"))
				body2 = "[" + body2[1:len(body2)-1] + "]"
				check(c.AddEval("$.arr"+body2+".Count()", h.Obj("arr", h.SliceAny(h.Obj(kv2...))), "data-boolean-operands:filter", false, true), func(b bool) string {
					if b {
						return "n:1e0"
					}
					return "n:0e0"
				})
			}
		}
	}
	c.RunEvalCases()

	// random deeper trees over comparison leaves
	n := c.N(3000, 60000)
	funcs := []string{"Less", "LessOrEqual", "Greater", "GreaterOrEqual", "Equal", "NotEqual"}
	var rnd func(depth int) string
	rnd = func(depth int) string {
		if depth == 0 || c.Rng.Intn(3) == 0 {
			return fmt.Sprintf("$.n%d.%s(%d)", c.Rng.Intn(4), funcs[c.Rng.Intn(len(funcs))], c.Rng.Intn(7)-3)
		}
		parts := []string{}
		switch c.Rng.Intn(3) {
		case 0:
			parts = append(parts, "AND")
		case 1:
			parts = append(parts, "OR")
		}
		for i, w := 0, c.Rng.Intn(5); i < w; i++ {
			parts = append(parts, rnd(depth-1))
		}
		return "{" + strings.Join(parts, ",") + "}"
	}
	for i := 0; i < n; i++ {
		q := rnd(1 + c.Rng.Intn(5))
		if !strings.HasPrefix(q, "{") {
			q = "{" + q + "}"
		}
		kv := []any{}
		for v := 0; v < 4; v++ {
			kv = append(kv, fmt.Sprintf("n%d", v), h.FloatD(float64(c.Rng.Intn(7)-3)))
		}
		c.AddEval(q, h.Obj(kv...), "random", false, true)
	}
	// filter bodies over arrays of 2..4 rows whose leaves read the ELEMENT (`@.v0`, `@.v1`) or the ROOT
	// (`$.w0`, `$.w1`) in every mixture, nested up to four deep: the group is evaluated anew for every row
	// (a group whose own paths all read the root may still hold a sub-group that reads the element)
	{
		r := c.Rng
		var gen func(depth int, top bool) *gtree
		gen = func(depth int, top bool) *gtree {
			g := &gtree{leaf: -1, kw: []string{"AND", "OR", ""}[r.Intn(3)]}
			for i, m := 0, 1+r.Intn(3); i < m; i++ {
				switch {
				case depth > 0 && r.Intn(5) < 2:
					g.kids = append(g.kids, gen(depth-1, false))
				case top:
					g.kids = append(g.kids, &gtree{leaf: r.Intn(2)}) // a direct member of a filter reads the element
				default:
					g.kids = append(g.kids, &gtree{leaf: r.Intn(4)})
				}
			}
			return g
		}
		varPath := func(i int) string {
			if i < 2 {
				return fmt.Sprintf("@.v%d", i)
			}
			return fmt.Sprintf("$.w%d", i-2)
		}
		nmix := c.N(4000, 60000)
		for it := 0; it < nmix; it++ {
			t := gen(3, true)
			w := r.Intn(4)
			nrows := 2 + r.Intn(3)
			var rows []*D
			kept := 0
			for i := 0; i < nrows; i++ {
				a := r.Intn(4)
				rows = append(rows, h.Obj("v0", h.Bool(a&1 != 0), "v1", h.Bool(a&2 != 0), "id", h.FloatD(float64(i))))
				if t.value(a | w<<2) {
					kept += 1 << i
				}
			}
			doc := h.Obj("arr", h.SliceAny(rows...), "w0", h.Bool(w&1 != 0), "w1", h.Bool(w&2 != 0))
			body := t.text(varPath)
			body = "[" + body[1:len(body)-1] + "]"
			ec := c.AddEval("$.arr"+body+".id", doc, "filter-body-mixed-root-element", true, true)
			wantKept := kept
			n := nrows
			ec.Check = func(o h.Outcome) string {
				got := 0
				switch {
				case o.Class == "knf" && wantKept == 0:
					return "" // no row kept: stepping `id` over nothing finds no key
				case o.Class != "ok" || o.Val == nil || o.Val.Tag != "sl":
					if wantKept == 0 {
						return ""
					}
					return fmt.Sprintf("rows %b of %d must be kept; got %s", wantKept, n, o.Class)
				}
				for _, x := range o.Val.Xs {
					if x.Coef == nil {
						return "ids expected"
					}
					got |= 1 << floatOf2(x)
				}
				if got != wantKept {
					return fmt.Sprintf("the group is true exactly for rows %b (bit i = row i); kept %b", wantKept, got)
				}
				return ""
			}
		}
		c.RunEvalCases()
	}
	// one parsed operation reused over a document that is updated in place: every assignment in a random
	// order, for trees placed at top level, nested, in a filter and as a function argument
	{
		var qs []string
		var sts [][]*D
		nReuse := c.N(300, 3000)
		for i := 0; i < nReuse; i++ {
			t := trees[c.Rng.Intn(len(trees))]
			if len(t.kids) == 0 {
				continue
			}
			order := c.Rng.Perm(1 << nvars)
			var states []*D
			for _, asg := range append(order, order[0]) {
				kv := []any{}
				for v := 0; v < nvars; v++ {
					kv = append(kv, fmt.Sprintf("v%d", v), h.Bool(asg&(1<<v) != 0))
				}
				kv = append(kv, "tt", h.Bool(true))
				states = append(states, h.Obj(kv...))
			}
			switch i % 3 {
			case 0:
				qs = append(qs, t.text(rootVar))
			case 1:
				qs = append(qs, "$.tt.Equal("+t.text(rootVar)+")")
			default:
				qs = append(qs, "{OR,"+t.text(rootVar)+",{AND,$.tt.Equal("+t.text(rootVar)+")}}")
			}
			sts = append(sts, states)
		}
		c.runReuse("reuse", qs, sts)
	}
	c.Exhaust = c.Exhaust && false // the random part is not exhaustive; the flag describes the whole run
	c.Note("exhaustive_part", map[string]any{"trees": len(trees), "variables": nvars, "width": width, "depth": 2})
}
