package main

import (
	"fmt"
	"math/big"
	"strings"

	"verifharness/h"
)

// C19 — null tests and `?` propagation behave as a three-valued guard.
//
// Exhaustive: every value kind of the property x the six predicates; every
// path of up to K keys (K = 5 quick, 6 thorough) with every subset of keys
// marked `?` over documents where each key independently exists, is null or
// is absent, followed by each predicate.  The oracle is the small-step
// reading of the property computed here; IsEmpty/IsNotEmpty on null and
// paths that end on an absent `?` key are left unspecified (still compared
// with the model, and never a panic).
func init() { props["C19"] = c19 }

func c19(c *Ctx) {
	maxKeys := c.N(5, 6)
	c.Rule = fmt.Sprintf("exhaustive: 21 value kinds (nil slices and maps of several Go types included) x 6 predicates; every path of 1..%d keys (for <=3 keys also with the query keys in upper case) x every subset of `?` marks x every key-state vector in {present, null, absent}^n x {IsNull, IsNotNull, IsEmpty, IsNotEmpty, IsNullOrEmpty, IsNotNullOrEmpty, no predicate}. Oracle: three-valued guard computed in the harness. The null tests as filter predicates over lists holding null elements beside others. Non-trivial = at least one key is null or absent; distinct by (query, data).", maxKeys)
	type vk struct {
		name        string
		d           *D
		null, empty bool
		emptyUnspec bool
	}
	kinds := []vk{
		{"null", h.Nil(), true, false, true},
		{"nil-pointer", h.NilPtr(), true, false, true},
		{"empty-string", h.Str(""), false, true, false},
		{"string", h.Str("abc"), false, false, false},
		{"blank-string", h.Str(" "), false, false, false},
		{"whitespace-string", h.Str("\t\n"), false, false, false},
		{"nbsp-string", h.Str("\u00a0\u3000"), false, false, false},
		{"zero", h.FloatD(0), false, true, false},
		{"zero-int", h.Int("int", 0), false, true, false},
		{"number", h.FloatD(2.5), false, false, false},
		{"false", h.Bool(false), false, true, false},
		{"true", h.Bool(true), false, false, false},
		{"empty-array", h.SliceAny(), false, true, false},
		{"array", h.SliceAny(h.FloatD(0)), false, false, false},
		{"empty-object", h.Obj(), false, true, false},
		{"object", h.Obj("k", h.Nil()), false, false, false},
		{"zero-struct", &D{Tag: "st", Fs: []h.Field{{Name: "A", Exported: true, V: h.Int("int", 0)}, {Name: "B", Exported: true, V: h.Str("")}}}, false, true, false},
		{"struct", &D{Tag: "st", Fs: []h.Field{{Name: "A", Exported: true, V: h.Int("int", 1)}}}, false, false, false},
		{"nil-slice", &D{Tag: "sl", Ety: "any", IsNil: true, Xs: []*D{}}, true, true, false},
		// nil slices and maps of other Go types (an unset `Tags []string` / `Counts map[string]int` field)
		{"nil-string-slice", &D{Tag: "sl", Ety: "str", IsNil: true, Xs: []*D{}}, true, true, true},
		{"nil-int-slice", &D{Tag: "sl", Ety: "int", IsNil: true, Xs: []*D{}}, true, true, true},
		{"nil-map", &D{Tag: "m", Kty: "str", Ety: "any", IsNil: true}, true, true, true},
		{"nil-int-map", &D{Tag: "m", Kty: "str", Ety: "int", IsNil: true}, true, true, true},
		{"nil-slice-in-struct", &D{Tag: "st", Fs: []h.Field{{Name: "Tags", Exported: true, V: &D{Tag: "sl", Ety: "str", IsNil: true, Xs: []*D{}}}, {Name: "N", Exported: true, V: h.Int("int", 1)}}}, false, false, false},
	}
	preds := []struct {
		name      string
		f         func(null, empty bool) bool
		usesEmpty bool
	}{
		{"IsNull", func(n, e bool) bool { return n }, false},
		{"IsNotNull", func(n, e bool) bool { return !n }, false},
		{"IsEmpty", func(n, e bool) bool { return e }, true},
		{"IsNotEmpty", func(n, e bool) bool { return !e }, true},
		{"IsNullOrEmpty", func(n, e bool) bool { return n || e }, false},
		{"IsNotNullOrEmpty", func(n, e bool) bool { return !(n || e) }, false},
	}
	for _, k := range kinds {
		for _, p := range preds {
			q, doc := "$.v."+p.name+"()", h.Obj("v", k.d)
			if k.name == "nil-slice-in-struct" {
				// the nil slice read out of a struct field: null
				ec := c.AddEval("$.v.Tags."+p.name+"()", doc, "predicates:"+k.name, true, true)
				if !p.usesEmpty {
					ec.Check = boolCheck(p.f(true, true))
				}
			}
			ec := c.AddEval(q, doc, "predicates:"+k.name, true, true)
			if p.usesEmpty && k.emptyUnspec {
				continue // IsEmpty / IsNotEmpty on null: unspecified (the model still has to agree)
			}
			if p.name == "IsNullOrEmpty" && k.emptyUnspec {
				ec.Check = boolCheck(true)
				continue
			}
			if p.name == "IsNotNullOrEmpty" && k.emptyUnspec {
				ec.Check = boolCheck(false)
				continue
			}
			ec.Check = boolCheck(p.f(k.null, k.empty))
		}
	}
	// the null tests as FILTER predicates over lists that hold null elements beside others: an element is
	// kept exactly when the test is true of it — a null element is kept by IsNull / IsNullOrEmpty /
	// `@.k?.IsNull()` and dropped by their negations
	{
		type el struct {
			d           *D
			null, empty bool
			isObj       bool
		}
		pool := []el{{h.Nil(), true, true, false}, {h.FloatD(1), false, false, false}, {h.Str(""), false, true, false}, {h.Str("x"), false, false, false}, {h.FloatD(0), false, true, false},
			{h.Obj("k", h.FloatD(1)), false, false, true}, {h.Obj("k", h.Nil()), false, false, true}, {h.Bool(false), false, true, false}}
		for it, nIt := 0, c.N(600, 6000); it < nIt; it++ {
			var xs []*D
			var els []el
			for i, m := 0, 1+c.Rng.Intn(4); i < m; i++ {
				e := pool[c.Rng.Intn(len(pool))]
				if c.Rng.Intn(3) == 0 {
					e = pool[0]
				}
				xs, els = append(xs, e.d), append(els, e)
			}
			doc := h.Obj("xs", h.SliceAny(xs...))
			for _, p := range preds {
				if p.usesEmpty {
					continue
				}
				want := 0
				for _, e := range els {
					if p.f(e.null, e.empty) {
						want++
					}
				}
				ec := c.AddEval("$.xs[@."+p.name+"()].Count()", doc, "null-elements-in-filter", true, true)
				sure := true // the emptiness of zero values is the model's to say; the harness oracle speaks where it is plain
				for _, e := range els {
					if e.empty && !e.null {
						sure = false
					}
				}
				if sure || p.name == "IsNull" || p.name == "IsNotNull" {
					ec.Check = exactly(big.NewRat(int64(want), 1))
				}
			}
			// `@.k?.IsNull()`: true of a null element, of an object whose k is null; objects only besides nulls
			allObj := true
			wantK := 0
			for _, e := range els {
				if !e.null && !e.isObj {
					allObj = false
				}
				if e.null || (e.isObj && e.d.Vs[0].Tag == "nil") {
					wantK++
				}
			}
			if allObj {
				ec := c.AddEval("$.xs[@.k?.IsNull()].Count()", doc, "null-elements-in-filter", true, true)
				ec.Check = exactly(big.NewRat(int64(wantK), 1))
				ec = c.AddEval("$.xs[@.k?.IsNotNull()].Count()", doc, "null-elements-in-filter", true, true)
				ec.Check = exactly(big.NewRat(int64(len(els)-wantK), 1))
			}
		}
	}
	c.RunEvalCases()

	// paths x marks x key states
	names := []string{"a", "b", "c", "d", "e", "f"}
	for n := 1; n <= maxKeys; n++ {
		states := 1
		for i := 0; i < n; i++ {
			states *= 3
		}
		for st := 0; st < states; st++ {
			// state i: 0 present, 1 null, 2 absent; a key below a null/absent one does not exist
			sv := make([]int, n)
			x := st
			canon := true
			seenStop := false
			for i := 0; i < n; i++ {
				sv[i] = x % 3
				x /= 3
				if seenStop && sv[i] != 0 {
					canon = false // below a null/absent key nothing exists: one representative (all "present" = irrelevant)
				}
				if sv[i] != 0 {
					seenStop = true
				}
			}
			if !canon {
				continue
			}
			// build the document
			var build func(i int) *D
			build = func(i int) *D {
				if i == n {
					return h.Str("leaf")
				}
				switch sv[i] {
				case 1:
					return h.Obj(names[i], h.Nil(), "other", h.FloatD(1))
				case 2:
					return h.Obj("other", h.FloatD(1))
				}
				return h.Obj(names[i], build(i+1), "other", h.FloatD(1))
			}
			doc := build(0)
			for marks := 0; marks < 1<<n; marks++ {
				parts := []string{}
				for i := 0; i < n; i++ {
					k := names[i]
					if marks&(1<<i) != 0 {
						k += "?"
					}
					parts = append(parts, k)
				}
				path := "$." + strings.Join(parts, ".")
				// the same path with its keys spelled in upper case (keys are matched without regard to letter
				// case; the oracle is the same) — for paths of up to 3 keys
				paths := []string{path}
				if n <= 3 {
					paths = append(paths, "$."+strings.ToUpper(strings.Join(parts, ".")))
				}
				// oracle: walk
				//   value present: continue; at a null or absent key i:
				//   absent & unmarked -> KeyNotFound;  null & unmarked & more keys follow -> error (nil access);
				//   marked: following keys must be marked to propagate, else error; the function receives null
				res := "value" // value | null | knf | err | unspecified
				for i := 0; i < n; i++ {
					marked := marks&(1<<i) != 0
					if sv[i] == 0 {
						continue
					}
					if sv[i] == 2 && !marked {
						res = "knf"
						break
					}
					// null (marked or not) or absent-marked: the rest of the keys receive null
					res = "null"
					if sv[i] == 2 && i == n-1 {
						res = "unspecified-end" // the path ends on an absent marked key
					}
					prevMarked := marked
					for j := i + 1; j < n; j++ {
						if !prevMarked {
							res = "err"
							break
						}
						mj := marks&(1<<j) != 0
						if !mj {
							res = "knf-or-err" // an unmarked key applied to the propagated null: it fails (which error is not specified)
							break
						}
						prevMarked = mj
						if j == n-1 {
							res = "unspecified-end"
						}
					}
					break
				}
				nontriv := seenStop
				for _, path := range paths {
					for _, p := range preds {
						ec := c.AddEval(path+"."+p.name+"()", doc, fmt.Sprintf("guard:%d-keys:%s", n, res), true, nontriv)
						switch res {
						case "value":
							ec.Check = boolCheck(p.f(false, false))
						case "null":
							if !p.usesEmpty {
								ec.Check = boolCheck(p.f(true, true))
							}
						case "knf":
							ec.Check = func(o h.Outcome) string {
								if o.Class != "knf" {
									return "an absent unmarked key must fail with ErrKeyNotFound; got " + o.Class
								}
								return ""
							}
						case "err", "knf-or-err":
							ec.Check = mustError
						case "unspecified-end":
							// the function still receives null after a trailing absent marked key
							if !p.usesEmpty {
								ec.Check = boolCheck(p.f(true, true))
							}
						}
					}
					// the same guard as a filter predicate over a one-element array: an unmarked absent key still
					// fails the whole query; otherwise the element is kept iff the predicate is true
					if n <= 3 && strings.HasPrefix(path, "$.") {
						for _, p := range preds {
							if p.usesEmpty {
								continue
							}
							ecf := c.AddEval("$.w[@."+strings.TrimPrefix(path, "$.")+"."+p.name+"()].Count()", h.Obj("w", h.SliceAny(doc)), fmt.Sprintf("guard-in-filter:%d-keys:%s", n, res), true, nontriv)
							switch res {
							case "value":
								ecf.Check = exactly(big.NewRat(map[bool]int64{true: 1, false: 0}[p.f(false, false)], 1))
							case "null", "unspecified-end":
								ecf.Check = exactly(big.NewRat(map[bool]int64{true: 1, false: 0}[p.f(true, true)], 1))
							case "knf":
								ecf.Check = func(o h.Outcome) string {
									if o.Class != "knf" {
										return "an absent unmarked key must fail with ErrKeyNotFound, in a filter predicate too; got " + o.Class
									}
									return ""
								}
							case "err", "knf-or-err":
								ecf.Check = mustError
							}
						}
					}
					// the bare path
					ec := c.AddEval(path, doc, fmt.Sprintf("guard-bare:%d-keys:%s", n, res), true, nontriv)
					switch res {
					case "value":
						ec.Check = strCheck("leaf")
					case "knf":
						ec.Check = func(o h.Outcome) string {
							if o.Class != "knf" {
								return "an absent unmarked key must fail with ErrKeyNotFound; got " + o.Class
							}
							return ""
						}
					case "err", "knf-or-err":
						ec.Check = mustError
					}
				} // paths
			}
		}
	}
}
