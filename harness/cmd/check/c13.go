package main

import (
	"fmt"
	"strings"

	"verifharness/h"
)

// C13 — CueValidate accepts a key path iff the schema declares it, with its kind.
//
// Schemas: nested closed structs (depth <= 3 quick, 4 thorough) whose fields
// are string / bytes / bool / int / float / number / _ , lists of those,
// lists of structs, in every field form (regular, optional `?`, required `!`,
// quoted, hidden `_x`, typed by a definition), plus open structs; for each
// schema every declared path and every path mutated by one undeclared or
// misplaced key; with and without a current step.  The verdict (accept /
// reject) and the reported type are compared with the model of
// findValueAtPath + Validate and with Spec.walk re-implemented here.
func init() { props["C13"] = c13 }

type cty struct {
	kind   string // str bytes bool int float number top list struct
	open   bool
	elem   *cty
	fields []cfield
}

type cfield struct {
	name   string // label text without quotes / marks (with the _ of hidden fields)
	form   string // reg opt req quoted hidden def
	ty     *cty
	viaDef bool // rendered as a reference to a definition of that type
}

func (t *cty) sexp() string {
	switch t.kind {
	case "list":
		o := "closed"
		if t.open {
			o = "open"
		}
		return "(list " + o + " " + t.elem.sexp() + ")"
	case "struct":
		o := "closed"
		if t.open {
			o = "open"
		}
		parts := []string{"struct", o}
		for _, f := range t.fields {
			parts = append(parts, "("+f.form+" "+hexs(f.name)+" "+f.ty.sexp()+")")
		}
		return "(" + strings.Join(parts, " ") + ")"
	}
	return t.kind
}

// cue renders the type; definitions used by fields are collected in defs.
func (t *cty) cue(ind string, defs *[]string) string {
	switch t.kind {
	case "str":
		return "string"
	case "top":
		return "_"
	case "list":
		if t.open {
			return "[..." + t.elem.cue(ind, defs) + "]"
		}
		return "[" + t.elem.cue(ind, defs) + "]"
	case "struct":
		var sb strings.Builder
		sb.WriteString("{\n")
		for _, f := range t.fields {
			label := f.name
			switch f.form {
			case "opt":
				label += "?"
			case "req":
				label += "!"
			case "quoted":
				label = "\"" + f.name + "\""
			}
			ty := f.ty.cue(ind+"  ", defs)
			if f.viaDef {
				name := fmt.Sprintf("#D%d", len(*defs))
				*defs = append(*defs, name+": "+f.ty.cue("", defs))
				ty = name
			}
			sb.WriteString(ind + "  " + label + ": " + ty + "\n")
		}
		if t.open {
			sb.WriteString(ind + "  ...\n")
		}
		sb.WriteString(ind + "}")
		return sb.String()
	}
	return t.kind
}

func (t *cty) file() string {
	var defs []string
	var sb strings.Builder
	for _, f := range t.fields {
		label := f.name
		switch f.form {
		case "opt":
			label += "?"
		case "req":
			label += "!"
		case "quoted":
			label = "\"" + f.name + "\""
		}
		ty := f.ty.cue("", &defs)
		if f.viaDef {
			name := fmt.Sprintf("#D%d", len(defs))
			defs = append(defs, name+": "+f.ty.cue("", &defs))
			ty = name
		}
		sb.WriteString(label + ": " + ty + "\n")
	}
	for _, d := range defs {
		sb.WriteString(d + "\n")
	}
	return sb.String()
}

// Spec.walk, re-implemented from the property text
type walkRes struct {
	accept bool
	ptype  string
	io     string
	why    string
}

func kindOf(t *cty) (string, string) {
	switch t.kind {
	case "str", "bytes":
		return "String", "Single"
	case "bool":
		return "Boolean", "Single"
	case "int", "float", "number":
		return "Number", "Single"
	case "struct":
		return "Object", "Single"
	case "top":
		return "Any", "Single"
	case "list":
		p, _ := kindOf(t.elem)
		return p, "Array"
	}
	return "?", "?"
}

func specWalk(t *cty, keys []string) walkRes {
	cur := t
	anyForever := false
	for _, k := range keys {
		if anyForever {
			continue
		}
		switch cur.kind {
		case "struct":
			var hit *cty
			for i := range cur.fields {
				f := &cur.fields[i]
				if f.form != "def" && f.name == k {
					hit = f.ty
				}
			}
			if hit == nil {
				if cur.open {
					anyForever = true
					continue
				}
				return walkRes{why: "undeclared"}
			}
			cur = hit
		case "top":
			anyForever = true
		case "list":
			return walkRes{why: "across-list"}
		default:
			return walkRes{why: "into-primitive"}
		}
	}
	if anyForever {
		return walkRes{accept: true, ptype: "Any", io: "Single"}
	}
	p, io := kindOf(cur)
	return walkRes{accept: true, ptype: p, io: io}
}

type c13gen struct{ c *Ctx }

var primKinds = []string{"str", "bytes", "bool", "int", "float", "number", "top"}

func (g *c13gen) leaf() *cty {
	r := g.c.Rng
	switch r.Intn(10) {
	case 0:
		return &cty{kind: "list", open: true, elem: &cty{kind: primKinds[r.Intn(7)]}} // lists of `_` included
	case 1:
		return &cty{kind: "list", open: r.Intn(3) != 0, elem: &cty{kind: "struct", fields: []cfield{{name: "k", form: "reg", ty: &cty{kind: "int"}}, {name: "name", form: "opt", ty: &cty{kind: "str"}}}}}
	}
	return &cty{kind: primKinds[r.Intn(len(primKinds))]}
}

var labelPool = []string{"a", "b", "cc", "d1", "e_f", "Key", "zed", "s2", "s1"} // s1 / s2: nested fields named like the steps of the with-step half

func (g *c13gen) structOf(depth int, allowOpen bool) *cty {
	r := g.c.Rng
	t := &cty{kind: "struct"}
	n := 1 + r.Intn(4)
	used := map[string]bool{}
	for i := 0; i < n; i++ {
		name := labelPool[r.Intn(len(labelPool))]
		form := []string{"reg", "reg", "opt", "req", "quoted", "hidden"}[r.Intn(6)]
		switch form {
		case "quoted":
			name = []string{"x-y", "with space", "_q", "a.b"}[r.Intn(4)]
		case "hidden":
			name = "_" + name
		}
		if used[strings.ToLower(name)] {
			continue
		}
		used[strings.ToLower(name)] = true
		var ty *cty
		if depth > 0 && r.Intn(2) == 0 {
			ty = g.structOf(depth-1, true)
		} else {
			ty = g.leaf()
		}
		f := cfield{name: name, form: form, ty: ty}
		if ty.kind == "struct" && r.Intn(4) == 0 {
			f.viaDef = true
		}
		t.fields = append(t.fields, f)
		// now and then a sibling that differs from this field only in letter case, with another type:
		// both are declared, each is addressed by its exact spelling
		if (form == "reg" || form == "opt") && r.Intn(6) == 0 {
			variant := strings.ToUpper(name)
			if variant == name {
				variant = strings.ToLower(name)
			}
			if r.Intn(2) == 0 && len(name) > 1 {
				variant = strings.ToUpper(name[:1]) + name[1:]
				if variant == name {
					variant = strings.ToLower(name[:1]) + name[1:]
				}
			}
			if variant != name {
				var ty2 *cty
				if ty.kind == "struct" {
					ty2 = g.leaf()
				} else if depth > 0 {
					ty2 = g.structOf(depth-1, false)
				} else {
					ty2 = &cty{kind: "list", open: true, elem: &cty{kind: "bool"}}
				}
				t.fields = append(t.fields, cfield{name: variant, form: "reg", ty: ty2})
			}
		}
	}
	if allowOpen && r.Intn(6) == 0 {
		t.open = true
	}
	return t
}

// declared paths (to fields), to depth
func declaredPaths(t *cty, prefix []string, out *[][]string) {
	if t.kind != "struct" {
		return
	}
	for _, f := range t.fields {
		if f.form == "def" {
			continue
		}
		p := append(append([]string{}, prefix...), f.name)
		*out = append(*out, p)
		declaredPaths(f.ty, p, out)
	}
}

func keyText(k string) string { return k }

func c13(c *Ctx) {
	nSchemas := c.N(400, 8000)
	depth := c.N(3, 4)
	c.Rule = fmt.Sprintf("%d generated schemas of nested closed structs (depth <=%d; fields string/bytes/bool/int/float/number/_, lists of those, lists of structs; regular, optional, required, quoted, hidden and definition-typed fields; some open structs) x every declared path x every path mutated by one undeclared or misplaced key (never a case-only variant; hidden fields never marked ?/!); half of the schemas also with a current step. Verdict and reported type compared with the model (Model/Cue.v, Model/Validate.v) and with Spec.walk re-implemented in the harness. Non-trivial = path of >=2 keys; distinct by (schema, path, step).", nSchemas, depth)
	g := &c13gen{c}
	r := c.Rng
	type vcase struct {
		schema *cty
		text   string
		keys   []string
		cur    string
		want   walkRes
		q      string
	}
	var cases []vcase
	for i := 0; i < nSchemas; i++ {
		root := g.structOf(depth-1, false)
		// steps wrapper for the "with a current step" half: the struct lives under step s1 and the current step s2 depends on s1
		withStep := i%2 == 1
		var file *cty
		prefix := []string{}
		cur := ""
		if withStep {
			s1 := &cty{kind: "struct", fields: append([]cfield{{name: "_dependencies", form: "deps"}}, root.fields...)}
			file = &cty{kind: "struct", fields: []cfield{{name: "s1", form: "reg", ty: s1}, {name: "s2", form: "reg", ty: &cty{kind: "struct", fields: []cfield{{name: "_dependencies", form: "deps1"}, {name: "result", form: "reg", ty: &cty{kind: "str"}}}}}}}
			prefix = []string{"s1"}
			cur = "s2"
		} else {
			file = root
		}
		var paths [][]string
		declaredPaths(root, nil, &paths)
		var all [][]string
		for _, p := range paths {
			all = append(all, p)
			// one-key mutations: replace a key by an undeclared one, append an undeclared key, swap in a sibling's child key
			m := append([]string{}, p...)
			m[r.Intn(len(m))] = "nosuch"
			all = append(all, m, append(append([]string{}, p...), "extra"))
			if len(p) >= 2 {
				all = append(all, append(append([]string{}, p[:len(p)-2]...), p[len(p)-1])) // a misplaced key: a child applied one level up
			}
		}
		if len(all) > 40 {
			r.Shuffle(len(all), func(a, b int) { all[a], all[b] = all[b], all[a] })
			all = all[:40]
		}
		text := fileText(file)
		for _, p := range all {
			full := append(append([]string{}, prefix...), p...)
			want := specWalk(root, p)
			if !identLike(p) {
				continue
			}
			cases = append(cases, vcase{file, text, full, cur, want, "$." + strings.Join(full, ".")})
		}
	}
	jobs := make([]h.Job, len(cases))
	lines := make([]string, len(cases))
	for i, vc := range cases {
		jobs[i] = valJob(vc.q, vc.text, vc.cur)
		step := "x"
		if vc.cur != "" {
			step = hexs(vc.cur)
		}
		lines[i] = "validate\t" + hexs(vc.q) + "\t" + fileSexp(vc.schema) + "\t" + step + "\t" + h.UniTable(vc.q)
	}
	h.CaseTimeout = 30e9
	replies := h.RunJobs(jobs, 12)
	var model []string
	if c.Proofs.ModelBuilt {
		var err error
		model, err = h.RunModel(c.Driver, lines)
		c.CrossAll(lines, model)
		if err != nil {
			fmt.Println(err)
			model = nil
		}
	}
	for i, vc := range cases {
		rv := parseVal(replies[i])
		c.Evals++
		if len(vc.keys) >= 2 {
			c.Distinct[vc.text+"|"+vc.q+"|"+vc.cur] = true
		}
		verdict := "accept"
		if rv.Class != "ok" || rv.HasErrors {
			verdict = "reject"
		}
		if rv.Class == "panic" || rv.Class == "fatal" || rv.Class == "hang" || rv.Class == "neither" {
			verdict = rv.Class
		}
		c.Count("impl:" + verdict)
		cs := map[string]any{"kind": "validate", "query": vc.q, "schema": vc.text, "schema_sexp": fileSexp(vc.schema), "current": vc.cur, "implementation": verdict, "impl_type": rv.RetType + "/" + rv.RetIO, "impl_errors": rv.Errors, "impl_err": rv.Err}
		wantV := "reject"
		if vc.want.accept {
			wantV = "accept"
		}
		c.Count("spec:" + wantV + ":" + vc.want.why)
		if verdict != wantV {
			c.Violation("relation", fmt.Sprintf("query %q against the schema: the schema %s this path (%s), CueValidate says %s %v", vc.q, map[bool]string{true: "declares", false: "does not declare"}[vc.want.accept], vc.want.why, verdict, rv.Errors), cs)
		} else if vc.want.accept && (rv.RetType != vc.want.ptype || rv.RetIO != vc.want.io) {
			c.Violation("relation", fmt.Sprintf("query %q: the schema gives the final field the kind %s/%s, CueValidate reports %s/%s", vc.q, vc.want.ptype, vc.want.io, rv.RetType, rv.RetIO), cs)
		}
		if model != nil {
			m := model[i]
			f := strings.Fields(m)
			c.Count("model:" + f[0])
			if f[0] == "declined" || f[0] == "fuel" || f[0] == "badcase" {
				c.Declined++
				if f[0] == "badcase" && c.Declined < 3 {
					fmt.Println("model badcase:", lines[i])
				}
				continue
			}
			mv := "reject"
			mt := ""
			if len(f) >= 4 && (f[0] == "ok" || f[0] == "err") {
				if f[0] == "ok" && f[1] == "0" {
					mv = "accept"
				}
				mt = strings.ReplaceAll(f[2]+"/"+f[3], "-", "")
			}
			it := rv.RetType + "/" + rv.RetIO
			if mv != verdict || (mv == "accept" && mt != it) {
				cs2 := map[string]any{}
				for k, v := range cs {
					cs2[k] = v
				}
				cs2["model"] = m
				c.Violation("mismatch", fmt.Sprintf("query %q: implementation %s %s, model/spec %s %s", vc.q, verdict, it, mv, mt), cs2)
			}
		}
		if i%(len(cases)/8+1) == 0 {
			c.Sample(map[string]any{"schema": vc.text, "query": vc.q, "current": vc.cur, "verdict": verdict, "type": rv.RetType + "/" + rv.RetIO})
		}
	}
}

func identLike(p []string) bool {
	for _, k := range p {
		if k == "" || strings.ContainsAny(k, " .\"") {
			return false // keys that are not single identifier tokens cannot be written in a query
		}
	}
	return true
}

// the file-level rendering handles the pseudo-forms deps / deps1 used for `_dependencies`
func fileText(t *cty) string {
	var defs []string
	var sb strings.Builder
	var render func(t *cty, ind string) string
	render = func(t *cty, ind string) string {
		if t.kind != "struct" {
			return t.cue(ind, &defs)
		}
		var b strings.Builder
		b.WriteString("{\n")
		for _, f := range t.fields {
			switch f.form {
			case "deps":
				b.WriteString(ind + "  _dependencies: []\n")
				continue
			case "deps1":
				b.WriteString(ind + "  _dependencies: [\"s1\"]\n")
				continue
			}
			label := f.name
			switch f.form {
			case "opt":
				label += "?"
			case "req":
				label += "!"
			case "quoted":
				label = "\"" + f.name + "\""
			}
			ty := render(f.ty, ind+"  ")
			if f.viaDef {
				name := fmt.Sprintf("#D%d", len(defs))
				defs = append(defs, name+": "+ty)
				ty = name
			}
			b.WriteString(ind + "  " + label + ": " + ty + "\n")
		}
		if t.open {
			b.WriteString(ind + "  ...\n")
		}
		b.WriteString(ind + "}")
		return b.String()
	}
	body := render(t, "")
	body = strings.TrimSuffix(strings.TrimPrefix(body, "{\n"), "}")
	sb.WriteString(body)
	for _, d := range defs {
		sb.WriteString(d + "\n")
	}
	return sb.String()
}

func fileSexp(t *cty) string {
	var render func(t *cty) string
	render = func(t *cty) string {
		if t.kind != "struct" {
			return t.sexp()
		}
		o := "closed"
		if t.open {
			o = "open"
		}
		parts := []string{"struct", o}
		for _, f := range t.fields {
			switch f.form {
			case "deps":
				parts = append(parts, "(hidden "+hexs("_dependencies")+" (deps))")
			case "deps1":
				parts = append(parts, "(hidden "+hexs("_dependencies")+" (deps "+hexs("s1")+"))")
			default:
				parts = append(parts, "("+f.form+" "+hexs(f.name)+" "+render(f.ty)+")")
			}
		}
		return "(" + strings.Join(parts, " ") + ")"
	}
	return render(t)
}
