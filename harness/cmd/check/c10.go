package main

import (
	"encoding/json"
	"fmt"
	"math/rand"
	"os"
	"regexp"
	"strings"

	"gopkg.in/yaml.v3"

	"verifharness/h"
)

// C10 — results do not depend on the Go types that carry the data.
//
// Each generated (query, rectangular document) is rendered in every carrier:
// JSON-decoded maps/slices; structs with exported fields; typed slices and Go
// arrays where homogeneous; typed maps (map[string]T, map[NString]any,
// map[any]any); pointer-wrapped; named types over string / bool / numerics;
// integral numbers as int / int64 / uint8 / decimal; and as JSON / YAML text
// re-parsed inside the query.  Level P: the results, after forgetting the
// carrier (keys case-folded, numbers by value), are equal ACROSS renderings
// (the relation of the property, evaluated on the implementation's own
// outputs) and equal to the model's.
func init() {
	props["C10"] = c10
	// known findings are identified by the rendering in which the carrier defect shows (known_findings.txt)
	classifiers["C10"] = func(v Violation) string {
		q, _ := v.Case["baseline_query"].(string)
		// a recorded carrier defect is one the faithful model reproduces (each class has its `_refuted`
		// lemma in Coq): a deviation in one of these renderings that the model does NOT predict is new
		// (when the model could not be built at all the run reports that; the classes are then told by
		// the rendering alone so that the recorded findings do not mask the broken build step)
		if ok, _ := v.Case["model_predicts"].(bool); !ok {
			if absent, _ := v.Case["model_absent"].(bool); !absent {
				return ""
			}
		}
		switch v.Case["rendering"] {
		case "named-strings-bools":
			return "named-string-or-bool-values"
		case "pointers":
			return "pointer-inside-interface-slot"
		case "structs", "structs-shuffled", "typed-structs", "pointer-to-struct-with-arrays":
			if wholeObjectQuery.MatchString(q) {
				return "struct-vs-map-whole-object"
			}
		case "struct-pointer-fields":
			return "pointer-to-container"
		case "nil-containers":
			return "nil-vs-empty-container"
		}
		return ""
	}
}

// queries that apply a whole-object function (aggregate, Select, RemoveKeys, Any, IsEmpty, First) to an object
var wholeObjectQuery = regexp.MustCompile(`^\$\.(o|z)\.(Sum|Average|Minimum|Maximum|Select|RemoveKeysBy|Any|IsEmpty|IsNotEmpty|IsNullOrEmpty|First)`)

type rendering struct {
	name string
	f    func(d *D) *D
}

func mapD(d *D, f func(*D) *D) *D {
	// bottom-up rewrite
	n := *d
	switch d.Tag {
	case "m":
		n.Vs = nil
		for _, v := range d.Vs {
			n.Vs = append(n.Vs, mapD(v, f))
		}
	case "sl", "ar":
		n.Xs = []*D{}
		for _, v := range d.Xs {
			n.Xs = append(n.Xs, mapD(v, f))
		}
	case "st":
		n.Fs = nil
		for _, fl := range d.Fs {
			n.Fs = append(n.Fs, h.Field{Name: fl.Name, Exported: fl.Exported, Iface: fl.Iface, V: mapD(fl.V, f)})
		}
	case "p":
		if d.Ptr != nil {
			n.Ptr = mapD(d.Ptr, f)
		}
	}
	return f(&n)
}

func homogeneous(xs []*D) (string, bool) {
	if len(xs) == 0 {
		return "", false
	}
	t := xs[0].Tag
	for _, x := range xs {
		if x.Tag != t || (t == "f" && x.F != "") {
			return "", false
		}
	}
	return t, true
}

// shuffleFields permutes the fields of every struct in d (the order of declaration is not part of the
// object): documents of one run then carry the same key at different field positions
func shuffleFields(d *D, rng *rand.Rand) *D {
	return mapD(d, func(x *D) *D {
		if x.Tag == "st" && len(x.Fs) > 1 {
			n := *x
			n.Fs = append([]h.Field{}, x.Fs...)
			rng.Shuffle(len(n.Fs), func(i, j int) { n.Fs[i], n.Fs[j] = n.Fs[j], n.Fs[i] })
			return &n
		}
		return x
	})
}

func renderingsC10(rng *rand.Rand) []rendering {
	isIntegral := func(d *D) bool { return d.Tag == "f" && d.F == "" && d.Exp >= 0 && d.Coef.IsInt64() }
	intVal := func(d *D) int64 {
		v := d.Coef.Int64()
		for e := d.Exp; e > 0; e-- {
			v *= 10
		}
		return v
	}
	return []rendering{
		{"json", func(d *D) *D { return d }},
		{"structs", func(d *D) *D { return toStruct(d) }},
		{"structs-shuffled", func(d *D) *D { return shuffleFields(toStruct(d), rng) }},
		{"typed-structs", func(d *D) *D {
			// structs whose scalar fields are declared with their own type (float64, string, bool), not `any`
			return mapD(toStruct(d), func(x *D) *D {
				if x.Tag == "st" {
					n := *x
					n.Fs = append([]h.Field{}, x.Fs...)
					for i := range n.Fs {
						if t := n.Fs[i].V.Tag; t == "f" || t == "s" || t == "b" {
							n.Fs[i].Iface = false
						}
					}
					return &n
				}
				return x
			})
		}},
		{"pointer-to-struct-with-arrays", func(d *D) *D {
			// the document as a POINTER to a struct whose list-valued fields are Go arrays
			arr := mapD(toStruct(d), func(x *D) *D {
				if x.Tag == "sl" && len(x.Xs) > 0 {
					return &D{Tag: "ar", Ety: "any", Xs: x.Xs}
				}
				if x.Tag == "st" { // the array fields are declared with their array type, not as `any`
					n := *x
					n.Fs = append([]h.Field{}, x.Fs...)
					for i := range n.Fs {
						if n.Fs[i].V.Tag == "ar" {
							n.Fs[i].Iface = false
						}
					}
					return &n
				}
				return x
			})
			return h.PtrTo(arr)
		}},
		{"unexported-twins", func(d *D) *D {
			// the object `tw` as a struct that also has UNEXPORTED fields differing from the exported ones
			// only in letter case (they are not part of the document)
			return mapD(d, func(x *D) *D {
				if x.Tag == "m" && len(x.Ks) == 2 && x.Ks[0].S == "Name" && x.Ks[1].S == "ID" {
					return &D{Tag: "st", Fs: []h.Field{{Name: "name", Exported: false, Iface: true, V: h.Str("hidden")}, {Name: "Name", Exported: true, Iface: true, V: x.Vs[0]},
						{Name: "ID", Exported: true, Iface: true, V: x.Vs[1]}, {Name: "id", Exported: false, Iface: true, V: h.FloatD(-1)}}}
				}
				return x
			})
		}},
		{"typed-slices", func(d *D) *D {
			return mapD(d, func(x *D) *D {
				if x.Tag == "sl" {
					if t, ok := homogeneous(x.Xs); ok && (t == "f" || t == "s" || t == "b" || t == "m") {
						return h.TypedSlice(x.Xs...)
					}
				}
				return x
			})
		}},
		{"arrays", func(d *D) *D {
			return mapD(d, func(x *D) *D {
				if x.Tag == "sl" && len(x.Xs) > 0 {
					return &D{Tag: "ar", Ety: "any", Xs: x.Xs}
				}
				return x
			})
		}},
		{"typed-maps", func(d *D) *D {
			return mapD(d, func(x *D) *D {
				if x.Tag == "m" && len(x.Vs) > 0 {
					if t, ok := homogeneous(x.Vs); ok && (t == "f" || t == "s") {
						n := *x
						n.Ety = h.TypedSlice(x.Vs...).Ety
						return &n
					}
				}
				return x
			})
		}},
		{"named-string-keys", func(d *D) *D {
			return mapD(d, func(x *D) *D {
				if x.Tag == "m" && len(x.Ks) > 0 {
					n := *x
					n.Kty = "nstr"
					n.Ks = nil
					for _, k := range x.Ks {
						n.Ks = append(n.Ks, h.NStr(k.S))
					}
					return &n
				}
				return x
			})
		}},
		{"interface-keys", func(d *D) *D {
			return mapD(d, func(x *D) *D {
				if x.Tag == "m" && len(x.Ks) > 0 {
					n := *x
					n.Kty = "any"
					return &n
				}
				return x
			})
		}},
		{"pointers", func(d *D) *D {
			// objects and arrays reached through pointers
			first := true
			return mapD(d, func(x *D) *D {
				if (x.Tag == "m" || x.Tag == "sl") && !first {
					return h.PtrTo(x)
				}
				first = false
				return x
			})
		}},
		{"root-pointer", func(d *D) *D { return h.PtrTo(d) }},
		{"ints", func(d *D) *D {
			return mapD(d, func(x *D) *D {
				if isIntegral(x) {
					return h.Int("int", intVal(x))
				}
				return x
			})
		}},
		{"int64-uint8-decimal", func(d *D) *D {
			i := 0
			return mapD(d, func(x *D) *D {
				if isIntegral(x) {
					i++
					v := intVal(x)
					switch {
					case i%3 == 0:
						return h.Dec(v*100, -2)
					case v >= 0 && v < 256 && i%3 == 1:
						return h.Int("uint8", v)
					}
					return h.Int("int64", v)
				}
				return x
			})
		}},
		{"struct-pointer-fields", func(d *D) *D {
			// the root as a struct whose slice- and map-valued fields are POINTERS to them (typed fields)
			st := &D{Tag: "st"}
			for i, k := range d.Ks {
				v := d.Vs[i]
				if v.Tag == "sl" || v.Tag == "m" {
					st.Fs = append(st.Fs, h.Field{Name: upperFirst(k.S), Exported: true, Iface: false, V: h.PtrTo(v)})
				} else {
					st.Fs = append(st.Fs, h.Field{Name: upperFirst(k.S), Exported: true, Iface: true, V: v})
				}
			}
			return st
		}},
		{"nil-containers", func(d *D) *D {
			first := true
			return mapD(d, func(x *D) *D {
				if x.Tag == "sl" && len(x.Xs) == 0 {
					n := *x
					n.IsNil = true
					return &n
				}
				if x.Tag == "m" && len(x.Ks) == 0 && !first {
					n := *x
					n.IsNil = true
					return &n
				}
				first = false
				return x
			})
		}},
		{"named-numerics", func(d *D) *D {
			return mapD(d, func(x *D) *D {
				if x.Tag == "f" && x.F == "" {
					n := *x
					n.Named = true
					return &n
				}
				return x
			})
		}},
		{"named-strings-bools", func(d *D) *D {
			return mapD(d, func(x *D) *D {
				if x.Tag == "s" || x.Tag == "b" {
					n := *x
					n.Named = true
					return &n
				}
				return x
			})
		}},
	}
}

// c10gen: rectangular documents and queries over the function set F10
type c10gen struct{ c *Ctx }

var c10Strs = []string{"", "a", "abc", "hello world", "x-y", "Ab", "tag"}

func (g *c10gen) num() *D {
	r := g.c.Rng
	switch r.Intn(4) {
	case 0:
		return h.FloatD(float64(r.Intn(9) - 2))
	case 1:
		return h.FloatD(float64(r.Intn(400)-200) / 8)
	}
	return h.FloatD(float64(r.Intn(50)))
}

func (g *c10gen) scalar() *D {
	r := g.c.Rng
	switch r.Intn(5) {
	case 0:
		return h.Bool(r.Intn(2) == 0)
	case 1, 2:
		return g.num()
	}
	return h.Str(c10Strs[r.Intn(len(c10Strs))])
}

func (g *c10gen) doc() *D {
	r := g.c.Rng
	rows := []*D{}
	nr := r.Intn(4)
	for i := 0; i < nr; i++ {
		tags := []*D{}
		for j, m := 0, r.Intn(3); j < m; j++ {
			tags = append(tags, h.Str(c10Strs[r.Intn(len(c10Strs))]))
		}
		if r.Intn(5) == 0 {
			// a row whose leaves are all zero values
			rows = append(rows, h.Obj("k", h.FloatD(0), "name", h.Str(""), "on", h.Bool(false), "tags", h.SliceAny()))
			continue
		}
		rows = append(rows, h.Obj("k", g.num(), "name", h.Str(c10Strs[1+r.Intn(len(c10Strs)-1)]), "on", h.Bool(r.Intn(2) == 0), "tags", h.SliceAny(tags...)))
	}
	nums := []*D{}
	for i, m := 0, r.Intn(5); i < m; i++ {
		nums = append(nums, g.num())
	}
	strs := []*D{}
	for i, m := 0, r.Intn(4); i < m; i++ {
		strs = append(strs, h.Str(c10Strs[r.Intn(len(c10Strs))]))
	}
	return h.Obj("rows", h.SliceAny(rows...), "nums", h.SliceAny(nums...), "strs", h.SliceAny(strs...),
		"o", h.Obj("a", g.num(), "b", g.num()), "z", h.Obj("p", h.FloatD(0), "q", h.Str("")), "none", h.SliceAny(), "s", h.Str(c10Strs[r.Intn(len(c10Strs))]), "n", g.num(), "t", h.Bool(true), "limits", h.Obj("lo", h.FloatD(1), "hi", h.FloatD(5)),
		"tw", h.Obj("Name", h.Str(c10Strs[1+r.Intn(len(c10Strs)-1)]), "ID", g.num()),
		"ma\u017fs", g.num()) // a key with the long s: MASS, mass and maſs are the same key
}

func (g *c10gen) query() string {
	r := g.c.Rng
	qs := []string{
		"$.rows.k", "$.rows.name", "$.rows.Count()", "$.rows.First().name", "$.rows.Last().k", "$.rows.Index(1).on",
		"$.rows[@.k.Greater(1)].name", "$.rows[@.on].Count()", "$.rows[@.name.Contains(\"a\"),@.k.LessOrEqual($.limits.hi)].k.Sum()",
		"$.rows[OR,@.on,@.k.Equal(0)].Count()", "$.rows.Select(\"$.k\").Sum()", "$.rows.Select(\"$.tags\").Count()", "$.rows.k.Maximum()", "$.rows.k.Average(2)",
		"$.nums.Sum()", "$.nums.Minimum()", "$.nums.Count()", "$.nums.First()", "$.nums[@.Greater(2)]", "$.nums.Any()", "$.nums.Sum(1,\"2\")",
		"$.strs.First()", "$.strs[@.Prefix(\"a\")].Count()", "$.strs.Count()", "$.s.AnyOf($.strs)", "$.n.AnyOf($.nums)", "$.n.AnyOf(1,2,$.rows.k)",
		"$.o.a.Add($.o.b)", "$.o.A.Multiply(2)", "$.o.a.Less($.o.b)", "$.O.b.Equal($.o.B)", "$.n.Divide(4)", "$.n.Modulo(3)", "$.n.Subtract($.nums.First())",
		"$.s.Contains(\"a\")", "$.s.Left(2)", "$.s.Equal(\"abc\")", "$.s.ReplaceAll(\"a\",\"b\")", "$.s.IsEmpty()", "$.s.NotEqual($.strs.Last())",
		"$.t.Not()", "$.t.Equal(true)", "{$.t,$.n.GreaterOrEqual(0)}", "{OR,$.s.Equal(\"zz\"),$.rows.Any()}", "$.t.Equal({$.n.Less(100)})",
		"$.missing?.IsNull()", "$.o.zz?.IsNull()", "$.rows.Index(0).tags.Count()", "$.o.IsNull()", "$.rows.IsEmpty()", "$.nums.IsNotEmpty()", "$.o[@.a.GreaterOrEqual($.o.b)]", "$.o[@.a.Equal($.o.a)].b", "$.o[@.a.Less(0)]",
		"$.o.Sum()", "$.o.Maximum()", "$.o.Select(\"$\").Count()", "$.o.RemoveKeysByPrefix(\"a\")", "$.z.IsEmpty()", "$.z.Any()", "$.o.IsEmpty()", "$.none.IsNull()", "$.none.Count()", "$.none.zz?.IsNull()", "$.strs.IsNull()",
		"$.z.p", "$.z.q.IsEmpty()", "$.z.p.Equal(0)", "$.z.P.Add($.z.p)", "$.rows[@.k.Equal(0)].Count()", "$.rows[@.name.IsEmpty()].k", "$.rows.on",
		"$.tw.name", "$.tw.id.Add(1)", "$.tw.ID", "$.tw.NAME.Contains(\"a\")",
		"$.MASS", "$.mass.Add(1)", "$.Ma\u017fS.Equal($.MASS)",
		"$.rows.AsArray().Count()", "$.n.AsArray().First()", "$.limits.hi.Subtract($.limits.lo)", "$.rows[@.tags.Any()].name", "$.rows[@.tags[@.Equal(\"tag\")].Any()].k",
	}
	return qs[r.Intn(len(qs))]
}

func jsonOf(d *D) any {
	switch d.Tag {
	case "nil":
		return nil
	case "b":
		return d.B
	case "f":
		f, _ := ratCE(d.Coef, d.Exp).Float64()
		return f
	case "s":
		return d.S
	case "sl":
		out := []any{}
		for _, x := range d.Xs {
			out = append(out, jsonOf(x))
		}
		return out
	case "m":
		out := map[string]any{}
		for i, k := range d.Ks {
			out[k.S] = jsonOf(d.Vs[i])
		}
		return out
	}
	return nil
}

func c10(c *Ctx) {
	n := c.N(2000, 40000)
	rends := renderingsC10(c.Rng)
	c.Rule = fmt.Sprintf("random (query over the function set F10, rectangular document) pairs x %d renderings of the document (%s) + the document as JSON and YAML text re-parsed by the query; results compared across renderings after forgetting the carrier, and with the model. Non-trivial = the baseline evaluation succeeds; distinct by (query, data).", len(rends), func() string {
		ns := []string{}
		for _, r := range rends {
			ns = append(ns, r.name)
		}
		return strings.Join(ns, ", ")
	}())
	g := &c10gen{c}
	type grp struct {
		q     string
		cases []*EvalCase
		names []string
	}
	var groups []*grp
	for i := 0; i < n; i++ {
		doc := g.doc()
		q := g.query()
		gr := &grp{q: q}
		for _, r := range rends {
			rd := r.f(doc)
			ec := c.AddEval(q, rd, "carrier:"+r.name, true, true)
			if strings.Contains(strings.ToLower(q), "mass") || strings.Contains(q, "\u017f") {
				ec.Proj = func(o h.Outcome) string { return "" } // the model folds ASCII letters only: compared across carriers, not with the model
			}
			gr.cases = append(gr.cases, ec)
			gr.names = append(gr.names, r.name)
		}
		// the document as text, re-parsed inside the query
		if strings.HasPrefix(q, "$.") {
			jb, _ := json.Marshal(jsonOf(doc))
			yb, _ := yaml.Marshal(jsonOf(doc))
			for _, tx := range []struct{ fn, text string }{{"ParseJSON", string(jb)}, {"ParseYAML", string(yb)}} {
				q2 := "$.doc." + tx.fn + "()." + strings.TrimPrefix(q, "$.")
				if strings.Contains(strings.TrimPrefix(q, "$."), "$") || strings.HasPrefix(q, "{") {
					continue // other `$` paths in the query would still read the outer document
				}
				ec := c.AddEval(q2, h.Obj("doc", h.Str(tx.text)), "text:"+tx.fn, true, true)
				ec.Proj = func(o h.Outcome) string { return "" } // the decoders are engine parameters of the model: not compared with it here
				gr.cases = append(gr.cases, ec)
				gr.names = append(gr.names, tx.fn)
			}
		}
		groups = append(groups, gr)
	}
	c.RunEvalCases()
	for _, gr := range groups {
		base := obs(gr.cases[0].Impl, true)
		for i, ec := range gr.cases[1:] {
			got := obs(ec.Impl, true)
			if got != base {
				c.Count("differs:" + gr.names[i+1])
				if os.Getenv("VERIF_DEBUG") != "" && c.Dist["differs:"+gr.names[i+1]] <= 6 {
					fmt.Fprintf(os.Stderr, "DEBUG %s | %s | got %s (%s) | base %s\n", gr.names[i+1], gr.q, short(got), ec.Impl.Note, short(base))
				}
				c.Violation("relation", fmt.Sprintf("query %q: the %s rendering of the same document gives %s, the JSON rendering gives %s", gr.q, gr.names[i+1], short(got), short(base)),
					map[string]any{"kind": "eval", "query": ec.Query, "data": ec.Data.String(), "err_class": true, "baseline_query": gr.q, "baseline_data": gr.cases[0].Data.String(),
						"implementation": ec.Impl.String(), "impl_note": ec.Impl.Note, "baseline": gr.cases[0].Impl.String(), "rendering": gr.names[i+1],
						"model_predicts": ec.Model.Class != "declined" && obs(ec.Model, true) == got, "model_absent": ec.ModelLine == ""})
			}
		}
	}
}
