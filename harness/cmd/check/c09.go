package main

import (
	"fmt"
	"strings"

	"verifharness/h"
)

// C09 — printing a parsed query and parsing it again changes nothing.
//
// Queries from the grammar (paths, `?` marks, all functions with literal,
// path and group arguments, filters, nested groups; string literals over
// printable ASCII, quotes, backslashes, escapes and non-ASCII runes; numbers
// negative, fractional, exponent-form, up to 15 digits), exhaustive over a
// small grammar and random for large sizes, plus every accepted token string
// of the C08 enumeration.  On the implementation's own outputs: Sprint
// parses again; the reparsed operation prints identically (fixed point) and
// evaluates to the same results on three probe documents; UserString equals
// the text for whitespace-free input.  Level D: Sprint / UserString vs the model.
func init() {
	props["C09"] = c09
	classifiers["C09"] = func(v Violation) string {
		if v.Case["stream"] == "lenient-arguments" {
			return "lenient-argument-tokens-merge"
		}
		return ""
	}
}

func c09(c *Ctx) {
	c.Rule = "grammar-generated queries: exhaustive over a small grammar (paths of 1..3 keys with `?` marks x a function with each literal kind / a path / a group argument x optional filter), random composite queries to depth 3 with string literals (ASCII, quotes, escapes \\n \\t \\\", backslashes, non-ASCII), numeric literals (negative, fractional, exponent form, <=15 digits), plus all accepted token strings of length <=4 of the C08 alphabet; a separate `lenient-arguments` stream (whitespace or skipped tokens inside nested path arguments) exercises the recorded finding. Non-trivial = the query parses; distinct by query text."
	var qs []string
	stream := map[string]string{}
	add := func(q, s string) {
		if _, ok := stream[q]; !ok {
			stream[q] = s
			qs = append(qs, q)
		}
	}
	// small grammar, exhaustive
	keys := []string{"a", "b?", "Ab", "k_1?"}
	lits := []string{"1", "-1.5", "1e3", "0.000001", "999999999999999", "\"\"", "\"a b\"", "\"q\\\"q\"", "\"tab\\there\"", "\"nl\\nx\"", "\"back\\\\slash\"", "\"é日\"", "true", "false", "$.b.c", "@.a", "{$.t}", "{OR,$.a.Equal(1),$.b?.IsNull()}"}
	fns := []string{"Equal", "AnyOf", "Contains", "Add", "Sum"}
	var paths []string
	for _, k1 := range keys {
		paths = append(paths, "$."+k1)
		for _, k2 := range keys {
			paths = append(paths, "$."+k1+"."+k2)
		}
	}
	for _, p := range paths {
		add(p, "grammar")
		for _, f := range fns {
			for _, l := range lits {
				add(p+"."+f+"("+l+")", "grammar")
			}
		}
		add(p+"[@.x.Equal(1)]", "grammar")
		add(p+"[OR,@.x.Equal(\"s\"),{@.y.IsNull(),$.t}].name", "grammar")
		add("{AND,"+p+".IsNull(),{OR,"+p+".Equal(2)}}", "grammar")
		add(p+".AnyOf(1,\"a\",true,$.b)", "grammar")
		add(p+".Select(\"$.k.Add(1)\")", "grammar")
	}
	// accepted token strings of the C08 alphabet (length <= 4)
	var gen func(n int, cur []string)
	gen = func(n int, cur []string) {
		if len(cur) > 0 {
			var sb strings.Builder
			for i, t := range cur {
				if i > 0 && isWordTok(cur[i-1]) && isWordTok(t) {
					sb.WriteByte(' ')
				}
				sb.WriteString(t)
			}
			s := sb.String()
			if strings.HasPrefix(s, "$") || strings.HasPrefix(s, "@") || strings.HasPrefix(s, "{") {
				add(s, "token-strings")
			}
		}
		if n == 4 {
			return
		}
		for _, t := range tokAlphabet {
			gen(n+1, append(cur, t))
		}
	}
	gen(0, nil)
	// random composite queries
	g := &qgen{c: c}
	strs := []string{"", "a", "a b", "q\\\"q", "x\\ny", "t\\tt", "\\\\", "é", "日本語", "😀", "a/b", "it's", "50%", "\\d+", "a\\\\nb"}
	nRand := c.N(20000, 300000)
	for i := 0; i < nRand; i++ {
		q := g.randQuery(3)
		// sprinkle richer literals
		switch c.Rng.Intn(4) {
		case 0:
			q = strings.Replace(q, "\"a\"", "\""+strs[c.Rng.Intn(len(strs))]+"\"", 1)
		case 1:
			// a literal assembled from pieces: plain characters, every backslash sequence (the eight
			// known escapes, the escaped quote, unknown ones such as \d \' \\), apostrophes, non-ASCII
			var sb strings.Builder
			for k, n := 0, c.Rng.Intn(5); k < n; k++ {
				sb.WriteString(litPieces[c.Rng.Intn(len(litPieces))])
			}
			q = strings.Replace(q, "\"a\"", "\""+sb.String()+"\"", 1)
		}
		if c.Rng.Intn(3) == 0 {
			q = strings.Replace(q, "(1)", "("+[]string{"-0.5", "1e-3", "2.50", "123456789012345", "1E2", "+3", "0.1", "0.30000000000000004", "9007199254740993", "1.7976931348623157e308", "123456789.12345678", "1e21", "0.000001", "1e-7"}[c.Rng.Intn(14)]+")", 1)
		}
		add(q, "random")
	}
	// the lenient stream: whitespace / skipped tokens inside nested path arguments
	for _, q := range []string{"$.x.Equal($.a b)", "$.x.Equal($.y.Add(1;2))", "$.x.AnyOf($.a .b)", "$.x.Equal({$.a b.IsNull()})", "$.x.Equal($.a\t.b, 1)"} {
		add(q, "lenient-arguments")
	}
	jobs := make([]h.Job, len(qs))
	lines := make([]string, len(qs))
	for i, q := range qs {
		jobs[i] = parseJobOf(q, c.Seed+int64(i), -1)
		lines[i] = "parse\t" + hexs(q) + "\t" + h.UniTable(q)
	}
	replies := h.RunJobs(jobs, 12)
	var model []string
	if c.Proofs.ModelBuilt {
		var err error
		model, err = h.RunModel(c.Driver, lines)
		c.CrossAll(lines, model)
		if err != nil {
			fmt.Println(err)
			model = nil
		}
	}
	for i, q := range qs {
		rep, bad := decodeParseReply(replies[i])
		c.Evals++
		st := stream[q]
		c.Count("stream:" + st)
		cs := func(extra map[string]any) map[string]any {
			m := map[string]any{"kind": "parse", "input_hex": hexs(q), "input": q, "stream": st, "seed": c.Seed + int64(i), "fault_at": -1}
			for k, v := range extra {
				m[k] = v
			}
			return m
		}
		if bad != "" {
			c.Violation("relation", fmt.Sprintf("query %q: the parser %s", q, bad), cs(nil))
			continue
		}
		c.Count("impl:" + rep.Plain.Class)
		if rep.Plain.Class != "op" {
			continue
		}
		if !rep.Plain.Known {
			c.Count("outside-domain:unknown-name-or-keyword")
			continue
		}
		c.Distinct[q] = true
		unknownName := strings.Contains(rep.Plain.Sprint, "(") && false
		_ = unknownName
		// only known function names and AND/OR keywords are in the property's domain: the generators use those only
		switch {
		case rep.Reparse.Class != "op":
			c.Violation("relation", fmt.Sprintf("query %q: its Sprint text %q does not parse again: %s", q, short(rep.Plain.Sprint), rep.Reparse.Err), cs(map[string]any{"sprint": rep.Plain.Sprint, "reparse": rep.Reparse}))
		case rep.Reparse2 != rep.Plain.Sprint:
			c.Violation("relation", fmt.Sprintf("query %q: Sprint is not a fixed point: %q then %q", q, short(rep.Plain.Sprint), short(rep.Reparse2)), cs(map[string]any{"sprint": rep.Plain.Sprint, "sprint2": rep.Reparse2}))
		case rep.Reparse.Hash != rep.Plain.Hash && false:
			// json.Marshal of the operation includes the user string: compared through Sprint and evaluation instead
		case !rep.EvalSame:
			c.Violation("relation", fmt.Sprintf("query %q: the reparsed Sprint text evaluates differently: %s", q, short(rep.EvalNote)), cs(map[string]any{"sprint": rep.Plain.Sprint, "eval": rep.EvalNote}))
		}
		if !strings.ContainsAny(q, " \t\n") && !strings.Contains(q, "/*") && !strings.Contains(q, "//") && rep.Plain.User != "" && rep.Plain.User != q && st != "token-strings" && st != "lenient-arguments" {
			c.Violation("relation", fmt.Sprintf("query %q: UserString is %q", q, short(rep.Plain.User)), cs(map[string]any{"user_string": rep.Plain.User}))
		}
		if model != nil {
			m := model[i]
			f := strings.Fields(m)
			c.Count("model:" + f[0])
			switch {
			case f[0] == "declined" || f[0] == "driver-stack-overflow":
				c.Declined++
			case f[0] != "ok":
				c.DriftN++
				if len(c.Drift) < 3 {
					c.Drift = append(c.Drift, short(fmt.Sprintf("query %q: implementation parses, model %s", q, f[0])))
				}
			case len(f) >= 3 && (f[1] != hexs(rep.Plain.Sprint) || (rep.Plain.User != "" && f[2] != hexs(rep.Plain.User))):
				c.DriftN++
				if len(c.Drift) < 3 {
					c.Drift = append(c.Drift, short(fmt.Sprintf("query %q: Sprint or UserString differs from the model's", q)))
				}
			}
		}
		if i%(len(qs)/8+1) == 0 {
			c.Sample(map[string]any{"query": q, "sprint": rep.Plain.Sprint, "user_string": rep.Plain.User, "reparse": rep.Reparse.Class})
		}
	}
}

// pieces of string literals as written in a query: plain characters, every backslash sequence (the
// eight known escapes, the escaped quote, unknown ones such as \d \' \\), apostrophes, non-ASCII
var litPieces = []string{"a", "b", " ", "'", "%", "$", "é", `\"`, `\a`, `\b`, `\f`, `\n`, `\r`, `\t`, `\v`, `\d`, `\'`, `\\`, `\.`, `\s`, `\0`, "n", "t", `\w+`, `\u005c`, `\u0041`, `\u00e9`, `\u0022`, `\x41`, "u", "0"}
