package main

import (
	"fmt"
	"math/big"
	"strings"

	"verifharness/h"
)

// C04 — arithmetic is exact decimal arithmetic.
//
// Exhaustive part: the boundary grid of the property (0, ±1, ±0.1, ±0.2,
// 1e-9, 999999999999999, .5 fractions, values differing in scale) squared x
// {Add, Subtract, Multiply, Divide, Modulo} x supply routes of the argument
// (literal, numeric string, path to a data number, path to a numeric string)
// and of the receiver (float64, decimal, int where integral, numeric string);
// aggregates over lists of 0..8 grid values.  Random part: decimals of up to
// 15 significant digits with exponents in -12..12.  Ground truth is math/big
// (Rat) computed here, independently of mpath and of the Coq model.
func init() { props["C04"] = c04 }

var gridC04 = []string{"0", "1", "-1", "0.1", "-0.1", "0.2", "-0.2", "0.000000001", "999999999999999", "0.5", "1.5", "-2.5",
	"10", "10.0", "100", "0.25", "3", "7", "-7", "0.3", "123.456", "1000000", "0.01", "2"}

// receiver renderings of a decimal text
func receiversFor(txt string) []*D {
	r := ratStr(txt)
	out := []*D{}
	f, _ := new(big.Float).SetRat(r).Float64()
	out = append(out, h.FloatD(f)) // as encoding/json would decode it
	out = append(out, decOfText(txt))
	if r.IsInt() && r.Num().IsInt64() {
		out = append(out, h.Int("int", r.Num().Int64()), h.Int("int64", r.Num().Int64()))
	}
	out = append(out, h.Str(txt))
	return out
}

func decOfText(txt string) *D {
	neg := strings.HasPrefix(txt, "-")
	t := strings.TrimPrefix(txt, "-")
	ip, fp, _ := strings.Cut(t, ".")
	c, _ := new(big.Int).SetString(ip+fp, 10)
	if neg {
		c.Neg(c)
	}
	return &D{Tag: "d", Coef: c, Exp: -int64(len(fp))}
}

func c04(c *Ctx) {
	c.Rule = fmt.Sprintf("exhaustive: grid of %d boundary values squared x {Add,Subtract,Multiply,Divide,Modulo} x argument supplied as literal / numeric string / path to number / path to numeric string, receiver as float64 / decimal / int / numeric string; the same literals under other legal spellings (leading / trailing zeros, shifted mantissa with exponent, E+0); Sum, Average, Minimum, Maximum over lists of 0..8 grid values (as array receiver, as arguments, mixed); random: decimals of <=15 significant digits, exponents -12..12. Coefficient lengths: every pair of lengths 1..20 x leading-digit patterns (nines, 10^k, 2^63-1, 2^64, random) x exponent offsets for Add / Subtract / Multiply / Divide (Modulo up to 15 digits); numeric strings under every spelling decimal.NewFromString accepts (+, e+, E, leading / trailing point, zero-padded). Oracle: math/big.Rat (exact; half a unit of the 16th place for Divide/Average; a-b*trunc(a/b) for Modulo). Non-trivial = both operands non-zero; distinct by (query, data).", len(gridC04))
	type bin struct {
		name string
		f    func(a, b *big.Rat) (want *big.Rat, approx bool, ok bool)
	}
	bins := []bin{
		{"Add", func(a, b *big.Rat) (*big.Rat, bool, bool) { return new(big.Rat).Add(a, b), false, true }},
		{"Subtract", func(a, b *big.Rat) (*big.Rat, bool, bool) { return new(big.Rat).Sub(a, b), false, true }},
		{"Multiply", func(a, b *big.Rat) (*big.Rat, bool, bool) { return new(big.Rat).Mul(a, b), false, true }},
		{"Divide", func(a, b *big.Rat) (*big.Rat, bool, bool) {
			if b.Sign() == 0 {
				return nil, false, false
			}
			return new(big.Rat).Quo(a, b), true, true
		}},
		{"Modulo", func(a, b *big.Rat) (*big.Rat, bool, bool) {
			if b.Sign() == 0 {
				return nil, false, false
			}
			q := new(big.Rat).Quo(a, b)
			t := new(big.Rat).SetInt(truncRat(q))
			return new(big.Rat).Sub(a, t.Mul(t, b)), false, true
		}},
	}
	addBin := func(fn bin, recv *D, aTxt string, a *big.Rat, argText string, b *big.Rat, doc *D, tag string) {
		want, approx, ok := fn.f(a, b)
		ec := c.AddEval("$.x."+fn.name+"("+argText+")", doc, tag, false, a.Sign() != 0 && b.Sign() != 0)
		switch {
		case !ok:
			ec.Check = func(o h.Outcome) string {
				if o.Class == "ok" || o.Class == "panic" {
					return "a zero divisor must give an error"
				}
				return ""
			}
		case approx:
			ec.Check = withinHalfUnit(want)
		default:
			ec.Check = exactly(want)
		}
	}
	for _, at := range gridC04 {
		a := ratStr(at)
		for ri, recv := range receiversFor(at) {
			for _, bt := range gridC04 {
				if ri > 0 && c.Rng.Intn(3) != 0 {
					continue // every pair with the float64 receiver; a seeded third with each other carrier
				}
				b := ratStr(bt)
				bf, _ := new(big.Float).SetRat(b).Float64()
				doc := h.Obj("x", recv, "y", h.FloatD(bf), "ys", h.Str(bt))
				for _, fn := range bins {
					addBin(fn, recv, at, a, bt, b, doc, "binary:literal")
					addBin(fn, recv, at, a, "\""+bt+"\"", b, doc, "binary:numeric-string")
					addBin(fn, recv, at, a, "$.y", b, doc, "binary:path")
					addBin(fn, recv, at, a, "$.ys", b, doc, "binary:path-to-string")
				}
			}
		}
	}
	// the same numbers under other legal spellings of the literal: leading zeros, trailing zeros, a
	// shifted mantissa with an exponent, upper-case E, an explicit plus in the exponent
	{
		type sp struct {
			text string
			val  *big.Rat
		}
		var spells []sp
		for _, base := range []string{"8", "10", "64", "15", "7.5", "100", "0.5", "777", "12", "9"} {
			v := ratStr(base)
			for _, neg := range []bool{false, true} {
				sign, val := "", v
				if neg {
					sign, val = "-", new(big.Rat).Neg(v)
				}
				ip, fp, hasFrac := strings.Cut(base, ".")
				frac := ""
				if hasFrac {
					frac = "." + fp
				}
				spells = append(spells, sp{sign + "0" + base, val}, sp{sign + "00" + base, val}, sp{sign + base + "e0", val}, sp{sign + base + "E+0", val}, sp{sign + "0" + base + "e0", val})
				if !hasFrac {
					spells = append(spells, sp{sign + base + ".0", val}, sp{sign + base + ".00", val}, sp{sign + "0" + base + ".0", val}, sp{sign + base + "0e-1", val}, sp{sign + "0." + base + "e" + fmt.Sprint(len(base)), val})
				} else {
					spells = append(spells, sp{sign + ip + frac + "0", val}, sp{sign + ip + fp + "e-" + fmt.Sprint(len(fp)), val})
				}
			}
		}
		doc := h.Obj("x", h.FloatD(3), "xs", h.SliceAny(h.FloatD(1), h.FloatD(2)))
		three := big.NewRat(3, 1)
		// numeric STRINGS under the spellings decimal.NewFromString accepts: an explicit plus sign, an
		// exponent with a plus, upper-case E, a leading point — as a literal string, as data, as the receiver
		for _, ns := range []sp{{"+2.5", big.NewRat(5, 2)}, {"1e+3", big.NewRat(1000, 1)}, {"2.5E+2", big.NewRat(250, 1)}, {"+7", big.NewRat(7, 1)}, {".5", big.NewRat(1, 2)}, {"-.5", big.NewRat(-1, 2)},
			{"5.", big.NewRat(5, 1)}, {"1E2", big.NewRat(100, 1)}, {"+0", new(big.Rat)}, {"1e-2", big.NewRat(1, 100)}, {"007", big.NewRat(7, 1)}} {
			sdoc := h.Obj("x", h.FloatD(3), "xs", h.SliceAny(h.FloatD(1), h.FloatD(2)), "s", h.Str(ns.text), "ss", h.SliceAny(h.Str(ns.text), h.FloatD(1)))
			for _, fn := range bins[:3] {
				addBin(fn, h.FloatD(3), "3", three, "\""+ns.text+"\"", ns.val, sdoc, "numeric-string-spellings")
				addBin(fn, h.FloatD(3), "3", three, "$.s", ns.val, sdoc, "numeric-string-spellings")
				want, _, _ := fn.f(ns.val, three)
				ec := c.AddEval("$.s."+fn.name+"(3)", sdoc, "numeric-string-spellings", false, true)
				ec.Check = exactly(want)
			}
			for _, q := range []string{"$.xs.Sum(\"" + ns.text + "\")", "$.xs.Sum($.s)"} {
				ec := c.AddEval(q, sdoc, "numeric-string-spellings", false, true)
				ec.Check = exactly(new(big.Rat).Add(big.NewRat(3, 1), ns.val))
			}
			ec := c.AddEval("$.ss.Sum()", sdoc, "numeric-string-spellings", false, true)
			ec.Check = exactly(new(big.Rat).Add(big.NewRat(1, 1), ns.val))
			mx := ns.val
			if mx.Cmp(big.NewRat(2, 1)) < 0 {
				mx = big.NewRat(2, 1)
			}
			ec = c.AddEval("$.xs.Maximum(\""+ns.text+"\")", sdoc, "numeric-string-spellings", false, true)
			ec.Check = exactly(mx)
		}
		for _, s := range spells {
			for _, fn := range bins {
				addBin(fn, h.FloatD(3), "3", three, s.text, s.val, doc, "literal-spellings")
			}
			ec := c.AddEval("$.xs.Sum("+s.text+")", doc, "literal-spellings", false, true)
			ec.Check = exactly(new(big.Rat).Add(big.NewRat(3, 1), s.val))
		}
	}
	c.RunEvalCases()

	// aggregates
	aggCheck := func(vals []*big.Rat, name string) func(h.Outcome) string {
		sum := new(big.Rat)
		for _, v := range vals {
			sum.Add(sum, v)
		}
		switch name {
		case "Sum":
			return exactly(sum)
		case "Average":
			if len(vals) == 0 {
				return exactly(new(big.Rat))
			}
			return withinHalfUnit(new(big.Rat).Quo(sum, big.NewRat(int64(len(vals)), 1)))
		case "Minimum", "Maximum":
			if len(vals) == 0 {
				return exactly(new(big.Rat))
			}
			best := vals[0]
			for _, v := range vals[1:] {
				if (name == "Minimum" && v.Cmp(best) < 0) || (name == "Maximum" && v.Cmp(best) > 0) {
					best = v
				}
			}
			return exactly(best)
		}
		return nil
	}
	nAgg := c.N(5000, 60000)
	for i := 0; i < nAgg; i++ {
		n := c.Rng.Intn(9)
		var vals []*big.Rat
		var elems []*D
		for j := 0; j < n; j++ {
			t := gridC04[c.Rng.Intn(len(gridC04))]
			vals = append(vals, ratStr(t))
			rs := receiversFor(t)
			elems = append(elems, rs[c.Rng.Intn(len(rs))])
		}
		// some of the values go in as arguments
		k := 0
		if n > 0 {
			k = c.Rng.Intn(n + 1)
		}
		args := []string{}
		var argElems []*D
		for j := k; j < n; j++ {
			argElems = append(argElems, elems[j])
		}
		for j := k; j < n; j++ {
			t := vals[j].FloatString(12)
			t = strings.TrimRight(strings.TrimRight(t, "0"), ".")
			if t == "" || t == "-" {
				t = "0"
			}
			if c.Rng.Intn(3) == 0 {
				t = "\"" + t + "\""
			}
			args = append(args, t)
		}
		if i%25 == 0 && n > 0 {
			// now and then a call that is refused half-way (a non-number after some numbers): it must
			// fail, and must leave nothing behind for the calls that follow in the same process
			bad := h.Obj("xs", h.SliceAny(append(append([]*D{}, elems...), h.Str("abc"), h.FloatD(7))...))
			for _, name := range []string{"Sum", "Minimum"} {
				ec := c.AddEval("$.xs."+name+"(1)", bad, "aggregate-refused", false, true)
				ec.Check = mustError
			}
		}
		doc := h.Obj("xs", h.SliceAny(elems[:k]...))
		for _, name := range []string{"Sum", "Average", "Minimum", "Maximum"} {
			ec := c.AddEval("$.xs."+name+"("+strings.Join(args, ",")+")", doc, "aggregate", false, n > 1)
			ec.Check = aggCheck(vals, name)
		}
		// the same numbers in homogeneous typed carriers: []float64, [N]float64, []decimal.Decimal, []int where integral, map values
		if k > 0 {
			var fl, de, in []*D
			allInt := true
			for j := 0; j < k; j++ {
				f, _ := new(big.Float).SetRat(vals[j]).Float64()
				fl = append(fl, h.FloatD(f))
				fr := h.FloatD(f)
				de = append(de, &D{Tag: "d", Coef: fr.Coef, Exp: fr.Exp})
				if vals[j].IsInt() && vals[j].Num().IsInt64() {
					in = append(in, h.Int("int", vals[j].Num().Int64()))
				} else {
					allInt = false
				}
			}
			carriers := map[string]*D{"[]float64": h.TypedSlice(fl...), "[N]float64": {Tag: "ar", Ety: "f64", Xs: fl}, "[]decimal": h.TypedSlice(de...)}
			if allInt {
				carriers["[]int"] = h.TypedSlice(in...)
			}
			mkv := []any{}
			for j, x := range fl {
				mkv = append(mkv, fmt.Sprintf("k%d", j), x)
			}
			carriers["map"] = h.Obj(mkv...)
			for cn, cd := range carriers {
				for _, name := range []string{"Sum", "Average", "Minimum", "Maximum"} {
					ec := c.AddEval("$.xs."+name+"("+strings.Join(args, ",")+")", h.Obj("xs", cd), "aggregate:"+cn, false, n > 1)
					ec.Check = aggCheck(vals, name)
				}
			}
		}
		// the same values stepped across objects: `$.os.v.Sum()`
		if k == n && n > 0 {
			objs := []*D{}
			for _, e := range elems {
				objs = append(objs, h.Obj("v", e))
			}
			ec := c.AddEval("$.os.v.Sum()", h.Obj("os", h.SliceAny(objs...)), "aggregate-projected", false, n > 1)
			ec.Check = aggCheck(vals, "Sum")
		}
	}
	c.RunEvalCases()

	// coefficient lengths: every pair of lengths 1..20 x leading-digit patterns (all nines, a one followed
	// by zeros, the digits of 2^63-1 and of 2^64, random digits) x exponent offsets: sums, differences and
	// products whose exact coefficient has 18, 19, 20 digits lie on either side of the machine-word limits
	{
		r := c.Rng
		pat := func(kind, n int) *big.Int {
			var t string
			switch kind {
			case 0:
				t = strings.Repeat("9", n)
			case 1:
				t = "1" + strings.Repeat("0", n-1)
			case 2:
				t = ("9223372036854775807" + strings.Repeat("9", n))[:n]
			case 3:
				t = ("18446744073709551615" + strings.Repeat("9", n))[:n]
			default:
				var sb strings.Builder
				sb.WriteByte(byte('1' + r.Intn(9)))
				for i := 1; i < n; i++ {
					sb.WriteByte(byte('0' + r.Intn(10)))
				}
				t = sb.String()
			}
			z, _ := new(big.Int).SetString(t, 10)
			return z
		}
		offs := []int64{0, 0, -1, -5, -18, 3}
		maxL := 20
		for la := 1; la <= maxL; la++ {
			for lb := 1; lb <= maxL; lb++ {
				rounds := c.N(3, 12)
				for k := 0; k < rounds; k++ {
					ca, cb := pat(r.Intn(5), la), pat(r.Intn(5), lb)
					if k == 0 {
						ca, cb = pat(0, la), pat(0, lb) // the all-nines pair of every pair of lengths, always
					}
					if r.Intn(3) == 0 {
						ca.Neg(ca)
					}
					if r.Intn(3) == 0 {
						cb.Neg(cb)
					}
					ea := int64(r.Intn(7) - 3)
					eb := ea + offs[r.Intn(len(offs))]
					ad, bd := &D{Tag: "d", Coef: ca, Exp: ea}, &D{Tag: "d", Coef: cb, Exp: eb}
					a, b := ratCE(ca, ea), ratCE(cb, eb)
					doc := h.Obj("x", ad, "y", bd)
					for _, fn := range bins[:3] {
						addBin(fn, ad, "", a, "$.y", b, doc, "coefficient-lengths:"+fn.name)
					}
					fn := bins[3] // Divide for every length; Modulo = a - b*trunc(a/b) is claimed (and proved: C04_mod_trunc_15, refuted beyond) for <= 15 digits
					if la <= 15 && lb <= 15 && r.Intn(2) == 0 {
						fn = bins[4]
					}
					addBin(fn, ad, "", a, "$.y", b, doc, "coefficient-lengths:"+fn.name)
				}
			}
		}
		c.RunEvalCases()
	}

	// random decimals with <= 15 significant digits, exponents -12..12
	nRand := c.N(15000, 300000)
	randDec := func() (string, *big.Rat, *D) {
		digits := 1 + c.Rng.Intn(15)
		var sb strings.Builder
		for i := 0; i < digits; i++ {
			dg := c.Rng.Intn(10)
			if i == 0 && dg == 0 {
				dg = 1
			}
			sb.WriteByte(byte('0' + dg))
		}
		coef, _ := new(big.Int).SetString(sb.String(), 10)
		if c.Rng.Intn(2) == 0 {
			coef.Neg(coef)
		}
		e := int64(c.Rng.Intn(25) - 12)
		d := &D{Tag: "d", Coef: coef, Exp: e}
		return fmt.Sprintf("%se%d", coef.String(), e), ratCE(coef, e), d
	}
	for i := 0; i < nRand; i++ {
		at, a, ad := randDec()
		bt, b, bd := randDec()
		_ = at
		fn := bins[c.Rng.Intn(len(bins))]
		doc := h.Obj("x", ad, "y", bd)
		arg := "$.y"
		if c.Rng.Intn(2) == 0 {
			arg = bt // exponent-form literal, <= 15 significant digits
		}
		addBin(fn, ad, "", a, arg, b, doc, "random:"+fn.name)
	}
}
