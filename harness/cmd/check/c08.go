package main

import (
	"encoding/hex"
	"encoding/json"
	"fmt"
	"strings"

	"verifharness/h"
)

// C08 — parsing is total and honours its (operation, error) contract.
//
// Exhaustive part: all token strings of length <= L (L = 4 quick, 5 thorough)
// over the DSL's token alphabet.  Random part: byte strings up to 4 KiB
// (thorough 64 KiB) including invalid UTF-8, NUL, unterminated literals,
// NaN/Inf spellings, whitespace- and comment-only input, and nesting to depth
// 1000.  Every input is parsed with ParseString and with ParseReadSeeker over
// a randomly chunked reader (empty reads, splits inside runes), a reader
// positioned at a non-zero offset, and (for a share of the inputs, every
// offset of the short ones) a reader failing at a byte offset; each input
// occurs at two random places of the stream so that it is parsed after two
// different histories in the long-lived worker; bytes written to fd 1/2 are
// measured.  Level P: exactly one of operation/error, nothing on the standard
// streams, the same outcome for every delivery and history, a fault is an
// error.  Level D (drift): accept/reject and Sprint text vs the model.
func init() { props["C08"] = c08 }

var tokAlphabet = []string{"$", "@", ".", ",", "(", ")", "[", "]", "{", "}", "?", "a", "Equal", "1", "\"s\"", "AND", "OR"}

func c08(c *Ctx) {
	maxLen := c.N(4, 5)
	c.Rule = fmt.Sprintf("exhaustive: all token strings of length <=%d over %v (tokens joined without spaces; adjacent identifier-like tokens are separated by one space); random: byte strings (printable, UTF-8, invalid UTF-8, NUL, quotes, comments), grammar-generated queries, nesting to depth 1000, NaN/Inf spellings, whitespace/comment-only; each parsed plain, chunked, at an offset, twice at different points of the worker's history, and with a read fault delivered in 4 ways (error after the bytes / together with the last bytes, sticky / followed by EOF; every offset for inputs <=24 bytes, a random offset otherwise); probe queries parsed before and after histories of 20..60 other parses, half of them rejected nestings 50..1000 deep, on the pooled scanners with the collector held off. Non-trivial = the input parses to an operation; distinct by input bytes.", maxLen, tokAlphabet)
	var inputs []string
	var gen func(n int, cur []string)
	gen = func(n int, cur []string) {
		if len(cur) > 0 {
			var sb strings.Builder
			for i, t := range cur {
				if i > 0 && isWordTok(cur[i-1]) && isWordTok(t) {
					sb.WriteByte(' ')
				}
				sb.WriteString(t)
			}
			inputs = append(inputs, sb.String())
		}
		if n == maxLen {
			return
		}
		for _, t := range tokAlphabet {
			gen(n+1, append(cur, t))
		}
	}
	gen(0, nil)
	exhaustive := len(inputs)
	// random and special inputs
	r := c.Rng
	special := []string{"", " ", "\n\t", "// c", "/* c */", "/* open", "$.a /* c */", "$.a // c\n", "\"open", "'x", "$.a.Equal(\"x", "$.a.Equal(NaN)", "$.a.Equal(Inf)", "$.a.Equal(-Inf)", "$.a.Equal(infinity)", "$.a.Equal(nan)", "$.a.Equal(1e400)", "$.a.Equal(0x1p-2)", "$.a.Equal(1_0)",
		"\x00", "$.a\x00", "$.\xff", "\xef\xbb\xbf$.a", "$.a.Equal(\"\\d\")", "$.a.Equal(\"\\\")", "$.é", "$.日本.Equal(\"語\")", "$.a.Equal('c')", "$.a.Equal('cc')", "$\u00a0.a", "$.a\u2028",
		// a backslash pair followed by a letter that also forms an escape with the second backslash
		"$.a.Equal(\"C:\\\\temp\")", "$.a.Equal(\"\\\\n\")", "$.a.Equal(\"a\\\\tb\\\\\\\"c\")", "$.a.Equal(\"\\\\\\\\r\\\\v\")", "$.s.ReplaceAll(\"\\\\a\",\"\\\\b\")"}
	inputs = append(inputs, special...)
	deep := strings.Repeat("{", 1000) + "$.a" + strings.Repeat("}", 1000)
	inputs = append(inputs, deep, strings.Repeat("$.a[@.b", 300)+strings.Repeat("]", 300), "$.a"+strings.Repeat(".Equal($.a", 500)+strings.Repeat(")", 500))
	g := &qgen{c: c}
	nRand := c.N(6000, 120000)
	maxBytes := c.N(4096, 65536)
	pieces := []string{"$", "@", ".", ",", "(", ")", "[", "]", "{", "}", "?", "a", "b1", "Equal", "AND", "OR", "\"", "'", "\\", "/", "*", " ", "\n", "1", "-1.5", "1e3", "é", "日", "\x00", "\xff", "\xc3", "\xe2\x82", "\xf0\x9f", "true", "//", "/*", "*/", "Select(\"$.a\")"}
	for i := 0; i < nRand; i++ {
		switch r.Intn(4) {
		case 0:
			inputs = append(inputs, g.randQuery(3))
		case 1: // a valid query with one mutation
			q := []byte(g.randQuery(3))
			if len(q) > 0 {
				p := r.Intn(len(q))
				switch r.Intn(3) {
				case 0:
					q = append(q[:p], q[p+1:]...)
				case 1:
					q[p] = byte(r.Intn(256))
				default:
					q = append(q[:p], append([]byte(pieces[r.Intn(len(pieces))]), q[p:]...)...)
				}
			}
			inputs = append(inputs, string(q))
		default:
			var sb strings.Builder
			n := 1 + r.Intn(24)
			if r.Intn(40) == 0 {
				n = r.Intn(maxBytes / 3)
			}
			for j := 0; j < n && sb.Len() < maxBytes; j++ {
				sb.WriteString(pieces[r.Intn(len(pieces))])
			}
			inputs = append(inputs, sb.String())
		}
	}
	// the job stream: every input twice, at random positions (two histories); faults
	type jobRef struct {
		input   int
		faultAt int
	}
	var refs []jobRef
	for i, in := range inputs {
		refs = append(refs, jobRef{i, -1})
		fa := -1
		if len(in) > 0 {
			fa = r.Intn(len(in) + 1)
		}
		refs = append(refs, jobRef{i, fa})
		if len(in) <= 24 && i >= exhaustive {
			for k := 0; k <= len(in); k++ {
				refs = append(refs, jobRef{i, k})
			}
		}
	}
	r.Shuffle(len(refs), func(a, b int) { refs[a], refs[b] = refs[b], refs[a] })
	jobs := make([]h.Job, len(refs))
	for j, rf := range refs {
		jobs[j] = parseJobOf(inputs[rf.input], c.Seed*7919+int64(j), rf.faultAt)
	}
	replies := h.RunJobs(jobs, 12)
	// the model: accept/reject and Sprint, for drift only (and the chunk-reader model on a sample)
	var model []string
	if c.Proofs.ModelBuilt {
		// the model is compared for drift only: every input up to 300,000, beyond that (and never for inputs over 2 KiB: the extracted lexer is quadratic in the length) every input that is
		// not one of the exhaustive token strings plus a seeded sample of those (the extracted lexer
		// needs about a millisecond per input)
		lines := make([]string, len(inputs))
		keepEvery := 1
		if len(inputs) > 300000 {
			keepEvery = len(inputs)/200000 + 1
		}
		for i, in := range inputs {
			if keepEvery > 1 && i < exhaustive && i%keepEvery != 0 || len(in) > 2048 {
				lines[i] = "parse\t" + hexs("") + "\t" + h.UniTable("") // placeholder, not compared
				continue
			}
			lines[i] = "parse\t" + hexs(in) + "\t" + h.UniTable(in)
		}
		skipModel := func(i int) bool { return keepEvery > 1 && i < exhaustive && i%keepEvery != 0 || len(inputs[i]) > 2048 }
		var err error
		model, err = h.RunModel(c.Driver, lines)
		c.CrossAll(lines, model) // (line, answer) pairs as the driver gave them, placeholders included
		for i := range model {
			if skipModel(i) {
				model[i] = "declined sampled-out"
			}
		}
		if err != nil {
			fmt.Println(err)
			model = nil
		}
	}
	first := map[int]parseOut{}
	same := func(a, b parseOut) bool { return a.Class == b.Class && a.Sprint == b.Sprint && a.Hash == b.Hash }
	for j, rf := range refs {
		in := inputs[rf.input]
		rep, bad := decodeParseReply(replies[j])
		c.Evals++
		cs := func(extra map[string]any) map[string]any {
			m := map[string]any{"kind": "parse", "input_hex": hexs(in), "input": short(fmt.Sprintf("%q", in)), "seed": c.Seed*7919 + int64(j), "fault_at": rf.faultAt}
			for k, v := range extra {
				m[k] = v
			}
			return m
		}
		if bad != "" {
			c.Count("impl:" + bad)
			c.Violation("relation", fmt.Sprintf("input %s: the parser %s", short(fmt.Sprintf("%q", in)), map[string]string{"fatal": "crashed the process (stack overflow or fatal error)", "hang": "did not terminate", "badreply": "worker reply unreadable"}[bad]), cs(nil))
			continue
		}
		c.Count("impl:" + rep.Plain.Class)
		if rep.Plain.Class == "op" {
			c.Distinct[in] = true
		}
		for name, o := range map[string]parseOut{"ParseString": rep.Plain, "chunked reader": rep.Chunked, "reader at an offset": rep.Offset} {
			if o.Class != "op" && o.Class != "err" {
				c.Violation("relation", fmt.Sprintf("input %s (%s): %s instead of exactly one of operation / error: %s", short(fmt.Sprintf("%q", in)), name, o.Class, o.Err), cs(map[string]any{"variant": name, "outcome": o}))
			}
		}
		if rep.Streams != 0 {
			c.Violation("relation", fmt.Sprintf("input %s: %d bytes were written to the standard streams", short(fmt.Sprintf("%q", in)), rep.Streams), cs(map[string]any{"streams": rep.Streams}))
		}
		if !same(rep.Plain, rep.Chunked) {
			c.Violation("relation", fmt.Sprintf("input %s: chunked delivery %v gives %s, ParseString gives %s", short(fmt.Sprintf("%q", in)), rep.Plan, rep.Chunked.Class, rep.Plain.Class), cs(map[string]any{"plan": rep.Plan, "plain": rep.Plain, "chunked": rep.Chunked}))
		}
		if !same(rep.Plain, rep.Offset) {
			c.Violation("relation", fmt.Sprintf("input %s: a reader positioned at a non-zero offset gives %s, ParseString gives %s", short(fmt.Sprintf("%q", in)), rep.Offset.Class, rep.Plain.Class), cs(map[string]any{"plain": rep.Plain, "offset": rep.Offset}))
		}
		if !same(rep.Plain, rep.StdAt) {
			c.Violation("relation", fmt.Sprintf("input %s: a strings.Reader / bytes.Reader handed over at position %d gives %s, ParseString gives %s", short(fmt.Sprintf("%q", in)), rep.StdPos, rep.StdAt.Class, rep.Plain.Class), cs(map[string]any{"plain": rep.Plain, "std_at": rep.StdAt, "position": rep.StdPos}))
		}
		if rep.NoSeek.Class != "err" {
			c.Violation("relation", fmt.Sprintf("input %s: a reader that cannot be rewound (Seek fails) yields %s, not an error", short(fmt.Sprintf("%q", in)), rep.NoSeek.Class), cs(map[string]any{"no_seek": rep.NoSeek}))
		}
		if rf.faultAt >= 0 && rep.Fault.Class != "err" {
			c.Violation("relation", fmt.Sprintf("input %s: a read fault at byte %d (delivery mode %d: %s) yields %s, not an error", short(fmt.Sprintf("%q", in)), rf.faultAt, rep.FaultMode, faultModes[rep.FaultMode], rep.Fault.Class), cs(map[string]any{"fault": rep.Fault, "fault_mode": rep.FaultMode}))
		}
		if prev, ok := first[rf.input]; ok {
			if !same(prev, rep.Plain) {
				c.Violation("relation", fmt.Sprintf("input %s: parsed twice in the same process with different histories: %s then %s", short(fmt.Sprintf("%q", in)), prev.Class, rep.Plain.Class), cs(map[string]any{"first": prev, "second": rep.Plain}))
			}
		} else {
			first[rf.input] = rep.Plain
			if model != nil {
				m := model[rf.input]
				mc := strings.SplitN(m, " ", 2)[0]
				c.Count("model:" + mc)
				switch {
				case m == "declined sampled-out":
					c.Count("model:sampled-out")
				case mc == "declined" || mc == "driver-stack-overflow":
					c.Declined++
				case (mc == "ok") != (rep.Plain.Class == "op"):
					c.DriftN++
					if len(c.Drift) < 3 {
						c.Drift = append(c.Drift, short(fmt.Sprintf("input %q: implementation %s, model %s", in, rep.Plain.Class, mc)))
					}
				case mc == "ok":
					f := strings.Fields(m)
					if len(f) >= 2 && f[1] != hexs(rep.Plain.Sprint) {
						c.DriftN++
						if len(c.Drift) < 3 {
							c.Drift = append(c.Drift, short(fmt.Sprintf("input %q: Sprint differs from the model's", in)))
						}
					}
				}
			}
		}
		if j%(len(refs)/8+1) == 0 {
			c.Sample(map[string]any{"input": short(fmt.Sprintf("%q", in)), "plain": rep.Plain.Class, "plan": rep.Plan, "fault_at": rf.faultAt, "fault": rep.Fault.Class})
		}
	}
	// histories: probes parsed before and after long runs of other parses (rejected deep nestings, random
	// inputs) on the pooled scanners, the collector held off so that the pool keeps its scanners
	nHist := c.N(60, 800)
	probesFixed := []string{"$.a.Equal(1)", "$.a.b", "{OR,$.a,$.b.Not()}", "$.xs[@.k.Greater(1)].name", "$.a.Equal({$.b,$.c.Less(2)})", "$", "$.a.Equal(", "$.a]", "{$.a", "$.a.Equal(\"x\").Not()", deep}
	deepRejected := func() string {
		d := 50 + r.Intn(451)
		if r.Intn(10) == 0 {
			d = 1000
		}
		switch r.Intn(5) {
		case 0:
			return strings.Repeat("{", d) + ")"
		case 1:
			return strings.Repeat("$.f.Equal(", d) + "]"
		case 2:
			return strings.Repeat("$.a[@.b", d) + "}"
		case 3:
			return strings.Repeat("{$.a.Equal(", d) + "\"open"
		}
		return strings.Repeat("{", d) + "$.a" + strings.Repeat("}", d-1) // one bracket short
	}
	var hjobs []h.Job
	var hprobes [][]string
	for i := 0; i < nHist; i++ {
		var hist, probes []string
		for k, n := 0, 20+r.Intn(41); k < n; k++ {
			if r.Intn(2) == 0 {
				hist = append(hist, hex.EncodeToString([]byte(deepRejected())))
			} else {
				in := inputs[r.Intn(len(inputs))]
				if len(in) > 4096 {
					in = in[:4096] // long inputs are parsed in the main stream; a history is many parses
				}
				hist = append(hist, hex.EncodeToString([]byte(in)))
			}
		}
		ps := append([]string{}, probesFixed...)
		for k := 0; k < 4; k++ {
			ps = append(ps, inputs[exhaustive+r.Intn(len(inputs)-exhaustive)])
		}
		for _, p := range ps {
			probes = append(probes, hex.EncodeToString([]byte(p)))
		}
		hprobes = append(hprobes, ps)
		hjobs = append(hjobs, h.Job{Kind: "parsehist", Payload: strings.Join(hist, ",") + ";" + strings.Join(probes, ",")})
	}
	byInput := map[string]parseOut{}
	for in, o := range first {
		byInput[inputs[in]] = o
	}
	savedTimeout := h.CaseTimeout
	h.CaseTimeout = 180e9 // a history is 40..120 parses, some of them deep: not a single case
	histReplies := h.RunJobs(hjobs, 12)
	h.CaseTimeout = savedTimeout
	for i, line := range histReplies {
		cs := map[string]any{"kind": "parsehist", "payload": hjobs[i].Payload}
		b, err := hex.DecodeString(line)
		var rep parseHistReply
		if err != nil || json.Unmarshal(b, &rep) != nil || len(rep.Before) != len(hprobes[i]) || len(rep.After) != len(hprobes[i]) {
			c.Violation("relation", "a history of parses: the process "+short(line), cs)
			continue
		}
		for k, p := range hprobes[i] {
			c.Evals += 2
			c.Count("history-probe:" + rep.After[k].Class)
			want, ok := byInput[p]
			if !ok {
				want = rep.Before[k]
				byInput[p] = want
			}
			for when, got := range map[string]parseOut{"before": rep.Before[k], "after": rep.After[k]} {
				if !same(got, want) {
					c.Violation("relation", fmt.Sprintf("input %s: parsed %s a history of %d other parses it gives %s %s, elsewhere %s %s", short(fmt.Sprintf("%q", p)), when, strings.Count(hjobs[i].Payload[:strings.Index(hjobs[i].Payload, ";")], ",")+1, got.Class, short(got.Err), want.Class, short(want.Err)),
						map[string]any{"kind": "parsehist", "payload": hjobs[i].Payload, "probe": p, "when": when, "got": got, "want": want})
					break
				}
			}
		}
	}
	c.Note("parse_histories", nHist)
	c.Note("inputs", len(inputs))
	c.Note("exhaustive_token_strings", exhaustive)
	c.Note("parses", len(refs)*4)
}

var faultModes = []string{"bytes, then the error on every later Read", "the last bytes together with the error, then EOF", "the last bytes together with the error, the error again later", "the error once, then EOF",
	"bytes, then io.ErrUnexpectedEOF on every later Read", "io.ErrUnexpectedEOF once, then EOF",
	"bytes, then an error reading \"invalid char escape\" on every later Read", "an error reading \"invalid char escape\" once, then EOF"}

func isWordTok(t string) bool {
	ch := t[0]
	return ch == '?' || ch == '_' || ch >= '0' && ch <= '9' || ch >= 'a' && ch <= 'z' || ch >= 'A' && ch <= 'Z'
}
