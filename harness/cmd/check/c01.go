package main

import (
	"fmt"
	"math/big"
	"strings"
	"unicode"

	"verifharness/h"
)

// C01 — a path returns exactly the value stored at that path.
//
// Exhaustive part: every document with at most N nodes (N = 4 quick, 5
// thorough) built from objects over the key alphabet {a, b, Ab, k_1}, arrays,
// null, true, a number and a non-numeral string; for each, every key path
// that walks existing keys (under two re-casings) plus one absent key at each
// level, to depth 4; each document as JSON maps/slices and as Go structs.
// Rows part: arrays of objects whose elements spell a key in different letter
// case and are carried by different Go types.
// Random part: larger and deeper documents with key-only paths of depth 1..6.
// The observable is Found(value, numbers by value) / KeyNotFound / other
// error; it is compared with the model and with an independent
// implementation of the specification (oracle.go: specLookup).
func init() { props["C01"] = c01 }

var keysC01 = []string{"a", "b", "Ab", "k_1"}

func leavesC01() []*D {
	return []*D{h.Nil(), h.Bool(true), h.FloatD(1.5), h.Str("s")}
}

// docsOfSize enumerates all values with exactly n nodes.
func docsOfSize(n int, memo map[int][]*D) []*D {
	if v, ok := memo[n]; ok {
		return v
	}
	var out []*D
	if n == 1 {
		out = append(out, leavesC01()...)
		out = append(out, h.SliceAny()) // empty array
		out = append(out, h.Obj())      // empty object
	} else {
		// arrays with 1 or 2 elements
		for _, x := range docsOfSize(n-1, memo) {
			out = append(out, h.SliceAny(x))
		}
		for i := 1; i <= n-2; i++ {
			for _, x := range docsOfSize(i, memo) {
				for _, y := range docsOfSize(n-1-i, memo) {
					out = append(out, h.SliceAny(x, y))
				}
			}
		}
		// objects with 1 or 2 keys
		for _, k := range keysC01 {
			for _, x := range docsOfSize(n-1, memo) {
				out = append(out, h.Obj(k, x))
			}
		}
		for ki := 0; ki < len(keysC01); ki++ {
			for kj := ki + 1; kj < len(keysC01); kj++ {
				if strings.EqualFold(keysC01[ki], keysC01[kj]) {
					continue
				}
				for i := 1; i <= n-2; i++ {
					for _, x := range docsOfSize(i, memo) {
						for _, y := range docsOfSize(n-1-i, memo) {
							out = append(out, h.Obj(keysC01[ki], x, keysC01[kj], y))
						}
					}
				}
			}
		}
	}
	memo[n] = out
	return out
}

func upperFirst(s string) string {
	if s == "" {
		return s
	}
	return strings.ToUpper(s[:1]) + s[1:]
}

// toStruct renders every object of the document as a Go struct with exported fields.
func toStruct(d *D) *D {
	switch d.Tag {
	case "m":
		if len(d.Ks) == 0 {
			return &D{Tag: "st"}
		}
		st := &D{Tag: "st"}
		for i, k := range d.Ks {
			st.Fs = append(st.Fs, h.Field{Name: upperFirst(k.S), Exported: true, Iface: true, V: toStruct(d.Vs[i])})
		}
		return st
	case "sl":
		xs := []*D{}
		for _, x := range d.Xs {
			xs = append(xs, toStruct(x))
		}
		return &D{Tag: "sl", Ety: d.Ety, IsNil: d.IsNil, Xs: xs}
	}
	return d
}

// pathsFor walks the document and yields key paths: existing keys (re-cased) and one absent key per level.
func pathsFor(d *D, depth int, prefix []string, out *[][]string) {
	if depth == 0 {
		return
	}
	cands := map[string]*D{}
	add := func(k string, v *D) {
		if _, ok := cands[k]; !ok {
			cands[k] = v
		}
	}
	switch {
	case d != nil && d.Tag == "m":
		for i, k := range d.Ks {
			add(k.S, d.Vs[i])
		}
	case d != nil && d.Tag == "sl":
		for _, e := range d.Xs {
			if e.Tag == "m" {
				for i, k := range e.Ks {
					add(k.S, e.Vs[i])
				}
			}
		}
	}
	for k, v := range cands {
		for _, variant := range []string{k, strings.ToUpper(k), strings.ToLower(k)} {
			p := append(append([]string{}, prefix...), variant)
			*out = append(*out, p)
			if variant == k {
				pathsFor(v, depth-1, p, out)
			}
		}
	}
	// an absent key, and a key of the alphabet that may or may not be present
	*out = append(*out, append(append([]string{}, prefix...), "zz"))
	if len(prefix) < 2 {
		pz := append(append([]string{}, prefix...), "zz")
		*out = append(*out, append(pz, "a")) // a key after an absent key
	}
}

// f32D describes a float32 (by the float64 it converts to)
func f32D(f float32) *D {
	d := h.FloatD(float64(f))
	d.Is32 = true
	return d
}

func c01(c *Ctx) {
	maxNodes := c.N(4, 5)
	c.Rule = fmt.Sprintf("exhaustive: every document of <=%d nodes over objects (key alphabet %v, sibling keys distinct under folding), arrays of <=2 elements, null, true, 1.5, \"s\"; every key path walking existing keys in three casings plus an absent key per level, depth<=4; each document as map/slice values and as Go structs; rows: arrays of 1..4 objects whose elements spell the same key in different letter case, lack it or hold null / scalars / objects, each element in a Go carrier of its own (map[string]any, struct, named-key map, interface-key map, typed map), read with `$.rows.key` and `$.rows.key.sub`; random: documents of depth<=4 from the generator with key-only paths of depth 1..6 in random casing.; number leaves of every magnitude and Go kind (whole floats beyond 2^63, 2^53+1, denormals, float32, the integer limits, wide decimals) at depth 1..3, across an array, in maps and structs. Non-trivial = the path has >=1 key that exists at its level; distinct by (query, data).", maxNodes, keysC01)
	memo := map[int][]*D{}
	seenQ := map[string]bool{}
	for n := 1; n <= maxNodes; n++ {
		for _, doc := range docsOfSize(n, memo) {
			if doc.Tag != "m" {
				continue // the root of a document is an object (or struct)
			}
			var paths [][]string
			pathsFor(doc, 4, nil, &paths)
			sdoc := toStruct(doc)
			for _, p := range paths {
				q := "$." + strings.Join(p, ".")
				key := q + "\x00" + doc.String()
				if seenQ[key] {
					continue
				}
				seenQ[key] = true
				want := specLookup(doc, p)
				nontriv := objField(doc, p[0]) != nil
				for ci, dd := range []*D{doc, sdoc} {
					if ci == 1 && len(doc.Ks) == 0 {
						continue
					}
					ec := c.AddEval(q, dd, fmt.Sprintf("exhaustive:carrier%d:%s", ci, want.kind), true, nontriv)
					w := want
					ec.Check = func(o h.Outcome) string { return checkLookup(o, w) }
				}
			}
		}
	}
	c.RunEvalCases()
	rowsStreamC01(c)
	c.RunEvalCases()
	unicodeStreamC01(c)
	c.RunEvalCases()
	// number leaves of every magnitude and Go kind, at depth 1..3, across an array, in map and struct
	// carriers: the value stored there comes back, by value (whole floats beyond 2^63, 2^53+1, denormals,
	// the limits of the integer kinds)
	{
		two63 := new(big.Int).Lsh(big.NewInt(1), 63)
		maxU := new(big.Int).Sub(new(big.Int).Lsh(big.NewInt(1), 64), big.NewInt(1))
		nums := []*D{h.FloatD(1e19), h.FloatD(9223372036854775808), h.FloatD(-9223372036854775808), h.FloatD(9223372036854777856), h.FloatD(-1e19), h.FloatD(1e100), h.FloatD(1.5e300),
			h.FloatD(9007199254740993), h.FloatD(4294967296), h.FloatD(0.1), h.FloatD(1e-7), h.FloatD(5e-324), h.FloatD(-0.5), h.FloatD(123456789012345680000), h.FloatD(18446744073709551616),
			f32D(1e19), f32D(0.25), f32D(16777216),
			h.Int("int64", 9223372036854775807), h.Int("int64", -9223372036854775808), h.IntBig("uint64", maxU), h.IntBig("uint64", two63), h.Int("int8", -128), h.Int("uint8", 255), h.Int("int32", -2147483648),
			{Tag: "d", Coef: new(big.Int).Mul(two63, big.NewInt(10)), Exp: 0}, {Tag: "d", Coef: big.NewInt(1), Exp: 30}, {Tag: "d", Coef: big.NewInt(-15), Exp: -25}}
		for _, nv := range nums {
			doc := h.Obj("n", nv, "a", h.Obj("b", nv, "c", h.Obj("d", nv)), "xs", h.SliceAny(h.Obj("v", nv), h.Obj("w", h.FloatD(1)), h.Obj("V", nv)))
			for ci, dd := range []*D{doc, toStruct(doc)} {
				for _, q := range []struct {
					q    string
					want *D
				}{{"$.n", nv}, {"$.N", nv}, {"$.a.b", nv}, {"$.A.c.D", nv}, {"$.xs.v", h.SliceAny(nv, nv)}} {
					ec := c.AddEval(q.q, dd, fmt.Sprintf("number-leaves:carrier%d", ci), true, true)
					w := lres{kind: "found", val: h.Abs(q.want)}
					ec.Check = func(o h.Outcome) string { return checkLookup(o, w) }
				}
			}
		}
		c.RunEvalCases()
	}
	// a struct with an exported field and an UNEXPORTED twin that differs only in letter case: the
	// unexported field is not part of the document, the exported one is found under every casing
	{
		twin := &D{Tag: "st", Fs: []h.Field{{Name: "name", Exported: false, Iface: true, V: h.Str("hidden")}, {Name: "Name", Exported: true, Iface: true, V: h.Str("shown")},
			{Name: "ID", Exported: true, Iface: true, V: h.FloatD(7)}, {Name: "id", Exported: false, Iface: true, V: h.FloatD(-1)}}}
		for _, q := range []struct {
			q    string
			want *D
		}{{"$.t.name", h.Str("shown")}, {"$.t.Name", h.Str("shown")}, {"$.t.NAME", h.Str("shown")}, {"$.t.id", h.FloatD(7)}, {"$.t.ID", h.FloatD(7)}, {"$.ts.Id", h.SliceAny(h.FloatD(7), h.FloatD(7))}, {"$.ts.nAME", h.SliceAny(h.Str("shown"), h.Str("shown"))}} {
			ec := c.AddEval(q.q, h.Obj("t", twin, "ts", h.SliceAny(twin, twin)), "unexported-twin-field", true, true)
			w := lres{kind: "found", val: h.Abs(q.want)}
			ec.Check = func(o h.Outcome) string { return checkLookup(o, w) }
		}
		c.RunEvalCases()
	}

	// random larger documents
	n := c.N(6000, 200000)
	g := &qgen{c: c}
	for i := 0; i < n; i++ {
		doc := g.randDoc(4)
		if !numeralFree(doc) {
			continue
		}
		// walk a random path, mostly along existing keys
		var p []string
		cur := doc
		for d, depth := 0, 1+c.Rng.Intn(6); d < depth; d++ {
			var keys []string
			var vals []*D
			collect := func(o *D) {
				for j, k := range o.Ks {
					keys = append(keys, k.S)
					vals = append(vals, o.Vs[j])
				}
			}
			if cur != nil && cur.Tag == "m" {
				collect(cur)
			} else if cur != nil && cur.Tag == "sl" {
				for _, e := range cur.Xs {
					if e.Tag == "m" {
						collect(e)
					}
				}
			}
			if len(keys) == 0 || c.Rng.Intn(12) == 0 {
				p = append(p, genKeys[c.Rng.Intn(len(genKeys))])
				cur = nil
				continue
			}
			j := c.Rng.Intn(len(keys))
			p = append(p, recase(keys[j], c.Rng.Intn))
			cur = vals[j]
		}
		want := specLookup(doc, p)
		ec := c.AddEval("$."+strings.Join(p, "."), doc, "random:"+want.kind, true, true)
		ec.Check = func(o h.Outcome) string { return checkLookup(o, want) }
	}
}

// rowsStreamC01: arrays of objects whose elements spell the same key in different letter case and are
// carried by different Go types (map[string]any, struct, map with named / interface keys, typed map):
// the key is collected from every element that has it, in order, whatever its spelling or carrier
func rowsStreamC01(c *Ctx) {
	r := c.Rng
	n := c.N(4000, 80000)
	pool := []string{"name", "qty", "k_1", "ab", "x", "0", "1", "10"} // keys made of digits are keys like any other
	for i := 0; i < n; i++ {
		keys := append([]string{}, pool...)
		r.Shuffle(len(keys), func(a, b int) { keys[a], keys[b] = keys[b], keys[a] })
		keys = keys[:1+r.Intn(3)]
		leaf := func() *D {
			switch r.Intn(5) {
			case 0:
				return h.Nil()
			case 1:
				return h.Bool(r.Intn(2) == 0)
			case 2:
				return h.FloatD(float64(r.Intn(9)))
			case 3:
				return h.Obj("x", h.FloatD(float64(r.Intn(5))), "y", h.Str("s"))
			}
			return h.Str([]string{"s", "abc", "", "p q"}[r.Intn(4)])
		}
		var rows, rendered []*D
		for j, m := 0, 1+r.Intn(4); j < m; j++ {
			var kv []any
			allStr := true
			for _, k := range keys {
				if r.Intn(4) == 0 {
					continue // this row lacks the key
				}
				v := leaf()
				allStr = allStr && v.Tag == "s"
				kv = append(kv, k, v)
			}
			row := h.Obj(kv...)
			rows = append(rows, row)
			// the same row with its keys re-cased, in a carrier of its own
			rr := &D{Tag: "m", Kty: "str", Ety: "any"}
			for x, k := range row.Ks {
				rr.Ks = append(rr.Ks, h.Str(recase(k.S, r.Intn)))
				rr.Vs = append(rr.Vs, row.Vs[x])
			}
			switch r.Intn(6) {
			case 0:
				identKeys := len(rr.Ks) > 0
				for _, k := range rr.Ks {
					identKeys = identKeys && k.S[0] >= 'A' // a field name cannot begin with a digit
				}
				if identKeys {
					rr = toStruct(rr)
				}
			case 1:
				nk := *rr
				nk.Kty = "nstr"
				nk.Ks = nil
				for _, k := range rr.Ks {
					nk.Ks = append(nk.Ks, h.NStr(k.S))
				}
				rr = &nk
			case 2:
				nk := *rr
				nk.Kty = "any"
				rr = &nk
			case 3:
				if allStr && len(rr.Vs) > 0 {
					nk := *rr
					nk.Ety = h.TypedSlice(rr.Vs...).Ety
					rr = &nk
				}
			}
			rendered = append(rendered, rr)
		}
		doc := h.Obj("rows", h.SliceAny(rows...), "n", h.FloatD(1))
		rdoc := h.Obj("rows", h.SliceAny(rendered...), "n", h.FloatD(1))
		p := []string{"rows", recase(keys[r.Intn(len(keys))], r.Intn)}
		if r.Intn(3) == 0 {
			p = append(p, []string{"x", "X", "y", "zz"}[r.Intn(4)])
		}
		want := specLookup(doc, p)
		ec := c.AddEval("$."+strings.Join(p, "."), rdoc, "rows:"+want.kind, true, want.kind == "found")
		ec.Check = func(o h.Outcome) string { return checkLookup(o, want) }
	}
}

// unicodeStreamC01: keys with letters outside ASCII, the query spelling them in another letter case —
// including case pairs whose UTF-8 encodings differ in length (k / Kelvin sign, s / long s, U+2C65 /
// U+023A).  The model folds ASCII only (DESIGN §3.4), so this stream is judged on the implementation
// with the oracle (strings.EqualFold) alone.
func unicodeStreamC01(c *Ctx) {
	r := c.Rng
	n := c.N(1500, 30000)
	pairs := [][]string{{"é", "É"}, {"σ", "Σ"}, {"k", "K", "\u212a"}, {"s", "S", "\u017f"}, {"\u2c65", "\u023a"}, {"\u2c66", "\u023e"}, {"å", "Å", "\u212b"}, {"ж", "Ж"}, {"a", "A"}}
	word := func() [2]string { // a key and another casing of it
		var a, b strings.Builder
		for i, m := 0, 1+r.Intn(3); i < m; i++ {
			p := pairs[r.Intn(len(pairs))]
			a.WriteString(p[r.Intn(len(p))])
			b.WriteString(p[r.Intn(len(p))])
		}
		return [2]string{a.String(), b.String()}
	}
	for i := 0; i < n; i++ {
		w := word()
		if !strings.EqualFold(w[0], w[1]) {
			continue
		}
		leaf := h.FloatD(float64(r.Intn(9)))
		inner := h.Obj(w[0], leaf, "other", h.Str("o"))
		var doc *D
		var p []string
		switch r.Intn(4) {
		case 0:
			doc, p = h.Obj("top", inner), []string{"top", w[1]}
		case 1:
			doc, p = h.Obj("rows", h.SliceAny(inner, h.Obj("other", h.Str("x")), h.Obj(w[1], h.Str("second")))), []string{"rows", w[1]}
		case 2:
			if u := []rune(w[0]); unicode.IsUpper(u[0]) { // a struct field must be exported
				st := &D{Tag: "st", Fs: []h.Field{{Name: w[0], Exported: true, Iface: true, V: leaf}, {Name: "Other", Exported: true, Iface: true, V: h.Str("o")}}}
				doc, p = h.Obj("top", st), []string{"top", w[1]}
			} else {
				doc, p = h.Obj(w[0], inner), []string{w[1], w[1]}
			}
		default:
			doc, p = inner, []string{w[1]}
		}
		base := doc
		if doc.Tag == "m" && len(doc.Ks) == 1 && doc.Vs[0].Tag == "st" {
			base = h.Obj("top", h.Obj(w[0], leaf, "Other", h.Str("o")))
		}
		want := specLookup(base, p)
		ec := c.AddEval("$."+strings.Join(p, "."), doc, "unicode-keys:"+want.kind, true, want.kind == "found")
		ec.Proj = func(o h.Outcome) string { return "" } // not compared with the model (ASCII folding only)
		ec.Check = func(o h.Outcome) string { return checkLookup(o, want) }
	}
}

func checkLookup(o h.Outcome, want lres) string {
	switch want.kind {
	case "found":
		if o.Class != "ok" {
			return fmt.Sprintf("the stored value %s is required; got %s", short(want.val), o.Class)
		}
		if got := h.Abs(o.Val); got != want.val {
			return fmt.Sprintf("the stored value is %s, got %s", short(want.val), short(got))
		}
	case "knf":
		if o.Class != "knf" {
			return "a missing key must give ErrKeyNotFound and no value; got " + o.Class
		}
	case "onnull":
		if o.Class != "other" && o.Class != "knf" {
			return "a key applied to null must give an error and no value; got " + o.Class
		}
	}
	return ""
}

// numeralFree: no string in the document is a numeral (the property's domain)
func numeralFree(d *D) bool {
	switch d.Tag {
	case "s":
		return ratOf(d) == nil
	case "m":
		for _, v := range d.Vs {
			if !numeralFree(v) {
				return false
			}
		}
	case "sl", "ar":
		for _, v := range d.Xs {
			if !numeralFree(v) {
				return false
			}
		}
	}
	return true
}
