package main

import (
	"fmt"
	"strings"

	"verifharness/h"
)

// C02 — a filter keeps exactly the matching elements, in order.
//
// Exhaustive part: arrays of 0..L objects (L = 3 quick, 4 thorough), each with
// two boolean fields under every truth assignment (4^len), x a pool of filter
// shapes (AND / OR / default / chained / nested groups / nested filters /
// `$`-reading arguments) x three carriers of the array; the kept elements are
// identified by a unique id and compared with the model AND with an oracle
// computed here from the shape's truth function.  Single objects with the
// predicate true / false.  Random part: random filter queries on random data.
func init() { props["C02"] = c02 }

type fshape struct {
	text string
	keep func(id int, a, b bool) bool
}

var shapesC02 = []fshape{
	{"[@.a]", func(_ int, a, b bool) bool { return a }},
	{"[@.a,@.b]", func(_ int, a, b bool) bool { return a && b }},
	{"[AND,@.a,@.b]", func(_ int, a, b bool) bool { return a && b }},
	{"[OR,@.a,@.b]", func(_ int, a, b bool) bool { return a || b }},
	{"[@.a][@.b]", func(_ int, a, b bool) bool { return a && b }},
	{"[OR,@.a][@.b]", func(_ int, a, b bool) bool { return a && b }},
	{"[OR,@.a,@.b][@.a]", func(_ int, a, b bool) bool { return a }},
	{"[@.a][OR,@.b,@.id.Less(1)]", func(id int, a, b bool) bool { return a && (b || id < 1) }},
	{"[@.b][OR,@.a,@.id.GreaterOrEqual(2)][@.id.Less(3)]", func(id int, a, b bool) bool { return b && (a || id >= 2) && id < 3 }},
	{"[@.id.Less(3),@.b][OR,@.a,@.id.Equal(0)]", func(id int, a, b bool) bool { return id < 3 && b && (a || id == 0) }},
	{"[{OR,@.a,@.b}]", func(_ int, a, b bool) bool { return a || b }},
	{"[@.a,{OR,@.b,@.a}]", func(_ int, a, b bool) bool { return a }},
	{"[OR,{AND,@.a,@.b},{AND,@.b}]", func(_ int, a, b bool) bool { return b }},
	{"[AND]", func(_ int, a, b bool) bool { return true }},
	{"[OR]", func(_ int, a, b bool) bool { return false }},
	{"[@.a.Equal($.t)]", func(_ int, a, b bool) bool { return a }},
	{"[@.a.Equal({$.t,$.u})]", func(_ int, a, b bool) bool { return !a }},
	{"[@.a.NotEqual($.t),@.b]", func(_ int, a, b bool) bool { return !a && b }},
	{"[@.id.Less($.lim)]", func(id int, a, b bool) bool { return id < 2 }},
	{"[OR,@.id.GreaterOrEqual($.lim),@.a]", func(id int, a, b bool) bool { return id >= 2 || a }},
	{"[@.tags[@.Equal(\"x\")].Any()]", func(_ int, a, b bool) bool { return a }},
	{"[@.tags[@.Equal(\"x\")].Count().Equal(1),@.b]", func(_ int, a, b bool) bool { return a && b }},
	{"[@.s.Contains(\"x\")]", func(_ int, a, b bool) bool { return b }},
	{"[{$.t,@.a}]", func(_ int, a, b bool) bool { return a }},
	{"[@.a.IsNotEmpty()]", func(_ int, a, b bool) bool { return a }},
}

func elemC02(id int, a, b bool) *D {
	tag := "y"
	if a {
		tag = "x"
	}
	s := "plain"
	if b {
		s = "with x"
	}
	return h.Obj("id", h.FloatD(float64(id)), "a", h.Bool(a), "b", h.Bool(b), "tags", h.SliceAny(h.Str(tag)), "s", h.Str(s))
}

func idsOf(d *D) ([]int, bool) {
	if d == nil || (d.Tag != "sl" && d.Tag != "ar") {
		return nil, false
	}
	out := []int{}
	for _, x := range d.Xs {
		if x.Tag != "m" {
			return nil, false
		}
		found := false
		for i, k := range x.Ks {
			if k.S == "id" && x.Vs[i].Coef != nil {
				f := floatOf2(x.Vs[i])
				out = append(out, f)
				found = true
			}
		}
		if !found {
			return nil, false
		}
	}
	return out, true
}

func floatOf2(d *D) int {
	// ids are small integers stored as float64 (coef * 10^exp)
	v := d.Coef.Int64()
	for e := d.Exp; e > 0; e-- {
		v *= 10
	}
	return int(v)
}

func c02(c *Ctx) {
	maxLen := c.N(4, 5)
	c.Rule = fmt.Sprintf("exhaustive: arrays of 0..%d objects x every truth assignment of two boolean fields per element x %d filter shapes (AND/OR/default/chained/nested groups/nested filters/`$`-reading arguments) x 3 carriers of the array ([]any, []map[string]any, [N]any), plus single objects with the predicate true/false, arrays of primitives, and arrays of 1..3 objects whose two boolean fields are each true / false / null / absent under 8 shapes (alone, AND, chained, nested group, `?`-marked): null is not true; random: filter queries from the grammar on random documents. Predicate trees: random groups nested up to three deep (member-less groups included) whose leaves read the element or the root in every mixture, over arrays of 2..5 elements, oracle evaluated per element. Kept elements are identified by unique ids and compared with the model and with an oracle computed from the shape's truth function. Non-trivial = the array is non-empty; distinct by (query, data).", maxLen, len(shapesC02))
	for n := 0; n <= maxLen; n++ {
		for asg := 0; asg < 1<<(2*n); asg++ {
			elems := []*D{}
			as, bs := []bool{}, []bool{}
			for i := 0; i < n; i++ {
				a, b := asg&(1<<(2*i)) != 0, asg&(1<<(2*i+1)) != 0
				as, bs = append(as, a), append(bs, b)
				elems = append(elems, elemC02(i, a, b))
			}
			carriers := []*D{h.SliceAny(elems...)}
			if n > 0 {
				carriers = append(carriers, h.TypedSlice(elems...), &D{Tag: "ar", Ety: "any", Xs: elems})
			}
			for ci, arr := range carriers {
				doc := h.Obj("xs", arr, "t", h.Bool(true), "u", h.Bool(false), "lim", h.FloatD(2))
				for _, sh := range shapesC02 {
					want := []int{}
					for i := 0; i < n; i++ {
						if sh.keep(i, as[i], bs[i]) {
							want = append(want, i)
						}
					}
					ec := c.AddEval("$.xs"+sh.text, doc, fmt.Sprintf("array:carrier%d", ci), true, n > 0)
					w := want
					ec.Check = func(o h.Outcome) string {
						if o.Class != "ok" {
							return "filter over an array must succeed; got " + o.Class
						}
						got, ok := idsOf(o.Val)
						if !ok {
							return "result is not an array of the input's elements"
						}
						if fmt.Sprint(got) != fmt.Sprint(w) {
							return fmt.Sprintf("kept elements %v, the predicate is true exactly for %v", got, w)
						}
						return ""
					}
				}
			}
		}
	}
	// single objects
	for _, a := range []bool{false, true} {
		for _, b := range []bool{false, true} {
			for _, sh := range shapesC02 {
				if strings.Contains(sh.text, "][") {
					continue // a second filter applied to the null left by the first is not specified by the property
				}
				obj := elemC02(1, a, b)
				doc := h.Obj("o", obj, "t", h.Bool(true), "u", h.Bool(false), "lim", h.FloatD(2))
				want := sh.keep(1, a, b)
				ec := c.AddEval("$.o"+sh.text, doc, "object", true, true)
				ec.Check = func(o h.Outcome) string {
					if o.Class != "ok" {
						return "filter over an object must succeed; got " + o.Class
					}
					if want && h.Abs(o.Val) != h.Abs(obj) {
						return "predicate true: the object itself is required"
					}
					if !want && o.Val.Tag != "nil" {
						return "predicate false: null is required"
					}
					return ""
				}
				// struct carrier of the same object
				st := &D{Tag: "st", Fs: []h.Field{{Name: "Id", Exported: true, Iface: true, V: h.FloatD(1)}, {Name: "A", Exported: true, V: h.Bool(a)}, {Name: "B", Exported: true, Iface: true, V: h.Bool(b)},
					{Name: "Tags", Exported: true, Iface: true, V: obj.Vs[3]}, {Name: "S", Exported: true, V: obj.Vs[4]}}}
				doc2 := h.Obj("o", st, "t", h.Bool(true), "u", h.Bool(false), "lim", h.FloatD(2))
				ec2 := c.AddEval("$.o"+sh.text, doc2, "struct", true, true)
				ec2.Check = func(o h.Outcome) string {
					if o.Class != "ok" {
						return "filter over a struct must succeed; got " + o.Class
					}
					if want != (o.Val.Tag != "nil") {
						return fmt.Sprintf("predicate %v: object-or-null mismatch", want)
					}
					return ""
				}
			}
		}
	}
	// predicates that yield null without an error on some elements (a boolean field holding null, a
	// `?`-marked key that is absent): such an element is not one "for which the predicate is true" —
	// alone, in an AND and in a chain (an OR with a null operand is left out: the property does not
	// say what null OR true is)
	{
		tri := []*D{h.Bool(true), h.Bool(false), h.Nil(), nil} // nil = the field is absent (read under `?`)
		isTrue := func(d *D) bool { return d != nil && d.Tag == "b" && d.B }
		notNull := func(d *D) bool { return d != nil && d.Tag != "nil" }
		nullShapes := []struct {
			text     string
			usesB    bool
			optional bool // every key read is `?`-marked and followed by a function: an absent key is no error
			keep     func(a, b *D) bool
		}{{"[@.a]", false, false, func(a, b *D) bool { return isTrue(a) }}, {"[@.a,@.b]", true, false, func(a, b *D) bool { return isTrue(a) && isTrue(b) }},
			{"[AND,@.b,@.a]", true, false, func(a, b *D) bool { return isTrue(a) && isTrue(b) }}, {"[@.b][@.a]", true, false, func(a, b *D) bool { return isTrue(a) && isTrue(b) }},
			{"[{AND,@.a,@.b}]", true, false, func(a, b *D) bool { return isTrue(a) && isTrue(b) }},
			{"[@.a?.Equal(true)]", false, true, func(a, b *D) bool { return isTrue(a) }},
			{"[@.a?.IsNotNull()]", false, true, func(a, b *D) bool { return notNull(a) }},
			{"[@.a?.IsNotNull(),@.b?.IsNull()]", true, true, func(a, b *D) bool { return notNull(a) && !notNull(b) }}}
		maxN := c.N(3, 3)
		for n := 1; n <= maxN; n++ {
			total := 1
			for i := 0; i < 2*n; i++ {
				total *= 4
			}
			for asg := 0; asg < total; asg++ {
				x := asg
				var av, bv []*D
				for i := 0; i < n; i++ {
					av, bv = append(av, tri[x%4]), append(bv, tri[(x/4)%4])
					x /= 16
				}
				for _, sh := range nullShapes {
					elems := []*D{}
					want := []int{}
					skip := false
					for i := 0; i < n; i++ {
						kv := []any{"id", h.FloatD(float64(i))}
						if av[i] != nil {
							kv = append(kv, "a", av[i])
						}
						if bv[i] != nil {
							kv = append(kv, "b", bv[i])
						}
						if !sh.optional && (av[i] == nil || sh.usesB && bv[i] == nil) {
							skip = true // an absent key without `?` is an error: outside the property's domain
						}
						elems = append(elems, h.Obj(kv...))
						if sh.keep(av[i], bv[i]) {
							want = append(want, i)
						}
					}
					if skip {
						continue
					}
					ec := c.AddEval("$.xs"+sh.text, h.Obj("xs", h.SliceAny(elems...)), "null-predicates", true, true)
					w := want
					ec.Check = func(o h.Outcome) string {
						if o.Class != "ok" {
							return "a predicate that is null on some element raises no error: the filter must succeed; got " + o.Class
						}
						got, ok := idsOf(o.Val)
						if !ok {
							return "result is not an array of the input's elements"
						}
						if fmt.Sprint(got) != fmt.Sprint(w) {
							return fmt.Sprintf("kept elements %v, the predicate is true exactly for %v (null is not true)", got, w)
						}
						return ""
					}
				}
			}
		}
		// arrays that hold null ELEMENTS, with predicates that are true on null without an error
		for _, sh := range []struct {
			text string
			keep func(isNull bool, k int) bool
		}{{"[@.IsNull()]", func(n bool, k int) bool { return n }}, {"[OR,@.IsNull(),@.k?.Equal(1)]", func(n bool, k int) bool { return n || k == 1 }},
			{"[@.IsNotNull()]", func(n bool, k int) bool { return !n }}, {"[@.k?.IsNull()]", func(n bool, k int) bool { return n }}} {
			for pat := 0; pat < 27; pat++ {
				elems := []*D{}
				want := []string{}
				x := pat
				for i := 0; i < 3; i++ {
					switch x % 3 {
					case 0:
						elems = append(elems, h.Nil())
						if sh.keep(true, 0) {
							want = append(want, "null")
						}
					default:
						k := x % 3
						elems = append(elems, h.Obj("id", h.FloatD(float64(i)), "k", h.FloatD(float64(k))))
						if sh.keep(false, k) {
							want = append(want, fmt.Sprint(i))
						}
					}
					x /= 3
				}
				ec := c.AddEval("$.xs"+sh.text, h.Obj("xs", h.SliceAny(elems...)), "null-elements", true, true)
				w := want
				ec.Check = func(o h.Outcome) string {
					if o.Class != "ok" || o.Val.Tag != "sl" {
						return "the filter must succeed; got " + o.Class
					}
					got := []string{}
					for _, e := range o.Val.Xs {
						if e.Tag == "nil" {
							got = append(got, "null")
						} else if ids, ok := idsOf(h.SliceAny(e)); ok {
							got = append(got, fmt.Sprint(ids[0]))
						}
					}
					if fmt.Sprint(got) != fmt.Sprint(w) {
						return fmt.Sprintf("kept %v, the predicate is true exactly for %v", got, w)
					}
					return ""
				}
			}
		}
		// a single object all of whose fields are objects is still a single object
		for _, tc := range []struct {
			q    string
			keep bool
		}{{"$.o[@.home.city.Equal(\"x\")]", true}, {"$.o[@.home.city.Equal(\"y\")]", false}, {"$.o[@.work.n.Greater(1)]", true}, {"$.o[{OR,$.t}]", true}, {"$.o[@.home.zip?.IsNull()]", true}, {"$.w[@.only.n.Equal(2)]", true}} {
			obj := h.Obj("home", h.Obj("city", h.Str("x")), "work", h.Obj("n", h.FloatD(2)))
			doc := h.Obj("o", obj, "w", h.Obj("only", h.Obj("n", h.FloatD(2))), "t", h.Bool(true))
			ec := c.AddEval(tc.q, doc, "object-of-objects", true, true)
			keep, isW := tc.keep, strings.HasPrefix(tc.q, "$.w")
			ec.Check = func(o h.Outcome) string {
				if o.Class != "ok" {
					return "filter over an object must succeed; got " + o.Class
				}
				want := obj
				if isW {
					want = h.Obj("only", h.Obj("n", h.FloatD(2)))
				}
				if keep && h.Abs(o.Val) != h.Abs(want) {
					return "predicate true: the object itself is required, got " + short(h.Abs(o.Val))
				}
				if !keep && o.Val.Tag != "nil" {
					return "predicate false: null is required"
				}
				return ""
			}
		}
		// a single object whose predicate is null: null, not the object
		for _, sh := range []string{"[@.a]", "[@.a,@.b]", "[@.zz?.Equal(true)]"} {
			ec := c.AddEval("$.o"+sh, h.Obj("o", h.Obj("id", h.FloatD(1), "a", h.Nil(), "b", h.Bool(true))), "null-predicates-object", true, true)
			ec.Check = func(o h.Outcome) string {
				if o.Class != "ok" || o.Val.Tag != "nil" {
					got := ""
					if o.Val != nil {
						got = short(h.Abs(o.Val))
					}
					return "the predicate is null, not true: null is required, got " + o.Class + " " + got
				}
				return ""
			}
		}
	}
	// arrays of primitives
	prims := []struct {
		q    string
		data *D
	}{
		{"$.v[@.Greater(1)]", h.SliceAny(h.FloatD(0), h.FloatD(2), h.FloatD(1), h.FloatD(3))},
		{"$.v[@.Greater(1)][@.Less(3)]", h.SliceAny(h.FloatD(0), h.FloatD(2), h.FloatD(1), h.FloatD(3))},
		{"$.v[OR,@.Equal(0),@.Equal(3)]", h.Slice("f64", h.FloatD(0), h.FloatD(2), h.FloatD(1), h.FloatD(3))},
		{"$.v[@.Prefix(\"a\")]", h.SliceAny(h.Str("ab"), h.Str("b"), h.Str("a"))},
		{"$.v[@.Prefix(\"a\")]", h.Slice("str", h.Str("ab"), h.Str("b"), h.Str("a"))},
		{"$.v[@.Equal(true)]", h.SliceAny(h.Bool(true), h.Bool(false), h.Bool(true))},
		{"$.v[@.Equal(true)]", h.Slice("bool", h.Bool(true), h.Bool(false), h.Bool(true))},
		{"$.v[@.Greater(1)]", h.SliceAny()},
		{"$.v[@.Greater(1)].Count()", h.Slice("int", h.Int("int", 5), h.Int("int", 0))},
	}
	for _, p := range prims {
		c.AddEval(p.q, h.Obj("v", p.data), "primitives", true, len(p.data.Xs) > 0)
	}
	c.RunEvalCases()

	// predicate trees: random groups nested up to three deep whose leaves read the element (`@.a`, `@.b`,
	// `@.id.Less(k)`) or the root (`$.t`, `$.u`, `$.lim.Greater(k)`), in every mixture — a group that reads
	// only the root with a sub-group that reads the element, and the other way round — over arrays of
	// 2..5 elements; the oracle evaluates the tree per element
	{
		r := c.Rng
		type node struct {
			leaf func(id int, a, b bool) bool
			text string
			op   string // "", "AND", "OR" (a group)
			kids []*node
		}
		leaves := func(top bool) *node {
			k := r.Intn(4)
			m := 8
			if top {
				m = 3 // a `$` path is not accepted as a direct member of a filter (a parse error): the root is read in nested groups and in arguments
			}
			switch r.Intn(m) {
			case 0:
				return &node{text: "@.a", leaf: func(_ int, a, b bool) bool { return a }}
			case 1:
				return &node{text: "@.b", leaf: func(_ int, a, b bool) bool { return b }}
			case 2:
				return &node{text: fmt.Sprintf("@.id.Less(%d)", k), leaf: func(id int, a, b bool) bool { return id < k }}
			case 3:
				return &node{text: "$.t", leaf: func(_ int, a, b bool) bool { return true }}
			case 4:
				return &node{text: "$.u", leaf: func(_ int, a, b bool) bool { return false }}
			case 5:
				return &node{text: fmt.Sprintf("$.lim.Greater(%d)", k), leaf: func(_ int, a, b bool) bool { return 2 > k }}
			case 6:
				return &node{text: "@.a.Equal($.u)", leaf: func(_ int, a, b bool) bool { return !a }}
			}
			return &node{text: "@.b.NotEqual($.t)", leaf: func(_ int, a, b bool) bool { return !b }}
		}
		var gen func(depth int, top bool) *node
		gen = func(depth int, top bool) *node {
			g := &node{op: []string{"", "AND", "OR"}[r.Intn(3)]}
			m := 1 + r.Intn(3)
			if !top && r.Intn(6) == 0 {
				m = 0 // a group without members: `{}` and `{AND}` are true, `{OR}` is false
			}
			for i := 0; i < m; i++ {
				if depth > 0 && r.Intn(5) < 2 {
					g.kids = append(g.kids, gen(depth-1, false))
				} else {
					g.kids = append(g.kids, leaves(top))
				}
			}
			return g
		}
		var eval func(n *node, id int, a, b bool) bool
		eval = func(n *node, id int, a, b bool) bool {
			if n.leaf != nil {
				return n.leaf(id, a, b)
			}
			for _, k := range n.kids {
				v := eval(k, id, a, b)
				if n.op == "OR" && v {
					return true
				}
				if n.op != "OR" && !v {
					return false
				}
			}
			return n.op != "OR"
		}
		var render func(n *node, open, close string) string
		render = func(n *node, open, close string) string {
			if n.leaf != nil {
				return n.text
			}
			parts := []string{}
			if n.op != "" {
				parts = append(parts, n.op)
			}
			for _, k := range n.kids {
				parts = append(parts, render(k, "{", "}"))
			}
			return open + strings.Join(parts, ",") + close
		}
		nt := c.N(4000, 80000)
		for it := 0; it < nt; it++ {
			tree := gen(3, true)
			n := 2 + r.Intn(4)
			elems := []*D{}
			want := []int{}
			for i := 0; i < n; i++ {
				a, b := r.Intn(2) == 0, r.Intn(2) == 0
				elems = append(elems, elemC02(i, a, b))
				if eval(tree, i, a, b) {
					want = append(want, i)
				}
			}
			doc := h.Obj("xs", h.SliceAny(elems...), "t", h.Bool(true), "u", h.Bool(false), "lim", h.FloatD(2))
			ec := c.AddEval("$.xs"+render(tree, "[", "]"), doc, "predicate-trees", true, true)
			w := want
			ec.Check = func(o h.Outcome) string {
				if o.Class != "ok" {
					return "filter over an array must succeed; got " + o.Class
				}
				got, ok := idsOf(o.Val)
				if !ok {
					return "result is not an array of the input's elements"
				}
				if fmt.Sprint(got) != fmt.Sprint(w) {
					return fmt.Sprintf("kept elements %v, the predicate is true exactly for %v", got, w)
				}
				return ""
			}
		}
		c.RunEvalCases()
	}

	// random
	n := c.N(12000, 200000)
	g := &qgen{c: c}
	made := 0
	for made < n {
		q := g.randPath("$", 2, true)
		if !strings.Contains(q, "[") {
			continue
		}
		made++
		c.AddEval(q, g.randDoc(3), "random", true, true)
	}
}
