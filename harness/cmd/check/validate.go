package main

import (
	"crypto/sha256"
	"encoding/hex"
	"encoding/json"
	"fmt"
	"regexp"
	"strings"

	"github.com/machship/mpath"

	"verifharness/h"
)

// The "validate" worker job: one CueValidate call (or a history of them).
// payload: query-hex TAB schema-hex TAB current-step-hex
// reply: compact JSON, hex-encoded.

type valResult struct {
	Class     string   `json:"class"` // ok | err | panic
	Err       string   `json:"err,omitempty"`
	HasErrors bool     `json:"hasErrors"`
	Errors    []string `json:"errors,omitempty"`
	Offered   []string `json:"offered,omitempty"` // fields offered at the root part
	RetType   string   `json:"retType,omitempty"`
	RetIO     string   `json:"retIO,omitempty"`
	TreeHash  string   `json:"treeHash,omitempty"` // sha256 of the id-stripped marshalled tree
	Tree      string   `json:"-"`
}

var idRe = regexp.MustCompile(`"id":"[0-9a-f-]{36}"`)

func stripIDs(b []byte) string { return idRe.ReplaceAllString(string(b), `"id":""`) }

func validateOnce(q, schema, cur string) (res valResult) {
	defer func() {
		if r := recover(); r != nil {
			res = valResult{Class: "panic", Err: fmt.Sprint(r)}
		}
	}()
	tc, err := mpath.CueValidate(q, schema, cur)
	return summarise(tc, err)
}

func summarise(tc mpath.CanBeAPart, err error) (res valResult) {
	res.Class = "ok"
	if err != nil {
		res.Class = "err"
		res.Err = err.Error()
	}
	if tc != nil {
		res.HasErrors = tc.HasErrors()
		if e := tc.GetErrors(); e != "" {
			res.Errors = []string{e}
		}
		rt := tc.ReturnType()
		res.RetType, res.RetIO = string(rt.Type), string(rt.IOType)
		b, merr := json.Marshal(tc)
		if merr == nil {
			s := stripIDs(b)
			res.Tree = s
			var tree map[string]any
			if json.Unmarshal([]byte(s), &tree) == nil {
				// the root echoes the query text as given: not part of the comparison across re-spellings
				delete(tree, "string")
				nb, _ := json.Marshal(tree)
				sum := sha256.Sum256(nb)
				res.TreeHash = hex.EncodeToString(sum[:8])
				if parts, ok := tree["parts"].([]any); ok && len(parts) > 0 {
					if p0, ok := parts[0].(map[string]any); ok {
						if av, ok := p0["available"].(map[string]any); ok {
							if fs, ok := av["fields"].([]any); ok {
								for _, f := range fs {
									res.Offered = append(res.Offered, fmt.Sprint(f))
								}
							}
						}
					}
				}
			}
		}
	} else if err == nil {
		res.Class = "neither"
	}
	return res
}

func validateJob(payload string) string {
	parts := strings.Split(payload, "\t")
	if len(parts) != 3 {
		return "badcase"
	}
	var f [3]string
	for i, p := range parts {
		b, err := hex.DecodeString(p)
		if err != nil {
			return "badcase"
		}
		f[i] = string(b)
	}
	r := validateOnce(f[0], f[1], f[2])
	b, _ := json.Marshal(r)
	return hex.EncodeToString(b)
}

// The "valhist" job: a history of calls in one process; every returned tree
// is kept and marshalled again after the whole history has run.
// payload: call;call;…  with call = query-hex,schema-hex,current-hex
// reply: hex(JSON {results: [...], stable: bool})
type histReply struct {
	Results []valResult `json:"results"`
	Stable  bool        `json:"stable"`
	Note    string      `json:"note,omitempty"`
}

func valhistJob(payload string) string {
	var rep histReply
	rep.Stable = true
	type kept struct {
		tc    mpath.CanBeAPart
		first string
	}
	var keep []kept
	for _, cs := range strings.Split(payload, ";") {
		f := strings.Split(cs, ",")
		if len(f) != 3 {
			return "badcase"
		}
		var a [3]string
		for i := range f {
			b, err := hex.DecodeString(f[i])
			if err != nil {
				return "badcase"
			}
			a[i] = string(b)
		}
		r, tc := validateKeep(a[0], a[1], a[2])
		rep.Results = append(rep.Results, r)
		if tc != nil {
			keep = append(keep, kept{tc, r.Tree})
		}
	}
	for _, k := range keep {
		func() {
			defer func() {
				if r := recover(); r != nil {
					rep.Stable = false
					rep.Note = fmt.Sprint(r)
				}
			}()
			b, err := json.Marshal(k.tc)
			if err != nil || stripIDs(b) != k.first {
				rep.Stable = false
				rep.Note = "a tree returned earlier marshals differently after later calls"
			}
		}()
	}
	b, _ := json.Marshal(rep)
	return hex.EncodeToString(b)
}

func validateKeep(q, schema, cur string) (res valResult, tc mpath.CanBeAPart) {
	defer func() {
		if r := recover(); r != nil {
			res = valResult{Class: "panic", Err: fmt.Sprint(r)}
			tc = nil
		}
	}()
	var err error
	tc, err = mpath.CueValidate(q, schema, cur)
	res = summarise(tc, err)
	return res, tc
}

func init() {
	h.Handlers["validate"] = validateJob
	h.Handlers["valhist"] = valhistJob
}

func valJob(q, schema, cur string) h.Job {
	return h.Job{Kind: "validate", Payload: hex.EncodeToString([]byte(q)) + "\t" + hex.EncodeToString([]byte(schema)) + "\t" + hex.EncodeToString([]byte(cur))}
}

func parseVal(line string) valResult {
	if strings.HasPrefix(line, "fatal") || strings.HasPrefix(line, "hang") {
		return valResult{Class: strings.SplitN(line, "\t", 2)[0]}
	}
	b, err := hex.DecodeString(line)
	if err != nil {
		return valResult{Class: "badreply", Err: line}
	}
	var r valResult
	if json.Unmarshal(b, &r) != nil {
		return valResult{Class: "badreply", Err: line}
	}
	return r
}
