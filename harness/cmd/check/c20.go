package main

import (
	"encoding/hex"
	"fmt"
	"sort"
	"strings"

	"github.com/machship/mpath"

	"verifharness/h"
)

// C20 — the static read-set analyses cover everything a query reads.
//
// Every generated query (1..4 leading keys, filters with 1..3 predicates,
// nested groups, functions whose arguments are paths, groups and nested
// calls; every `$` path and every top-level `@` path begins with a key) goes
// through the real GetRootFieldsAccessed / AddressedPaths and through the
// model's root_fields / addressed_paths.  On the implementation's own output
// the harness checks: the list is sorted and duplicate-free; the query's
// result on random documents is unchanged by deleting, replacing or adding
// any root field not in the list (names compared case-insensitively);
// AddressedPaths has no duplicates and no empty path.
func init() {
	props["C20"] = c20
	h.Handlers["analysis"] = analysisJob
}

// payload: one query in hex, or several separated by commas: they are analysed in that order in this
// process (a history) and the answers are joined by " || "
func analysisJob(payload string) string {
	var outs []string
	for _, a := range strings.Split(payload, ",") {
		outs = append(outs, analyseOne(a))
	}
	return strings.Join(outs, " || ")
}

func analyseOne(payload string) (out string) {
	defer func() {
		if r := recover(); r != nil {
			out = "panic " + hex.EncodeToString([]byte(fmt.Sprint(r)))
		}
	}()
	qb, err := hex.DecodeString(payload)
	if err != nil {
		return "badcase"
	}
	op, perr := mpath.ParseString(string(qb))
	if perr != nil || op == nil {
		return "parse-err"
	}
	rf := mpath.GetRootFieldsAccessed(op)
	ap := mpath.AddressedPaths(op)
	// independence of the returned slices: overwriting one must not change another
	snapshot := fmt.Sprint(ap)
	indep := "1"
	for i := range ap {
		cp := append([]string{}, ap[i]...)
		for j := range ap[i] {
			ap[i][j] = "\x00clobbered"
		}
		for k := range ap {
			if k != i && strings.Contains(fmt.Sprint(ap[k]), "clobbered") {
				indep = "0"
			}
		}
		copy(ap[i], cp)
	}
	// ... and BUILDING on one (append) must not overwrite another
	for i := range ap {
		ext := append(ap[i], "\x00built", "\x00built", "\x00built")
		for k := range ap {
			if k != i && strings.Contains(fmt.Sprint(ap[k]), "built") {
				indep = "0"
			}
		}
		_ = ext
		if fmt.Sprint(ap) != snapshot {
			indep = "0"
		}
	}
	hx := func(s string) string { return "x" + hex.EncodeToString([]byte(s)) }
	rfs := []string{}
	for _, f := range rf {
		rfs = append(rfs, hx(f))
	}
	aps := []string{}
	for _, p := range ap {
		ps := []string{}
		for _, k := range p {
			ps = append(ps, hx(k))
		}
		aps = append(aps, strings.Join(ps, "."))
	}
	return "ok rf=" + strings.Join(rfs, ",") + " ap=" + strings.Join(aps, ",") + " indep=" + indep
}

// c20gen generates queries in which every root-started path begins with a key.
type c20gen struct {
	g     *qgen
	preds []string // the `@` predicates of the filters generated since the last reset
	// the key chains of the query being generated (the generator's own reading of the property's cover
	// clause): req must each be equal to or a prefix of a returned path; every returned path must be
	// equal to or a prefix of a chain in req or opt (opt: chains the statement leaves unspecified —
	// `$` paths inside filters and their arguments, top-level `@` paths)
	req, opt  [][]string
	topGroup  bool     // generating a group that is (nested in) the top-level group of the query
	prefix    []string // chain of the collection being filtered; nil outside filters
	inFilter  bool
	inPredArg bool
}

func (x *c20gen) record(root string, chain []string) {
	c := append([]string{}, chain...)
	switch {
	case root == "@" && x.inFilter && !x.inPredArg:
		x.req = append(x.req, c)
	case root == "$" && !x.inFilter:
		x.req = append(x.req, c)
	default:
		x.opt = append(x.opt, c)
	}
}

var c20Keys = []string{"a", "b", "c", "Ab", "arr", "n", "s", "k_1"}

func (x *c20gen) key() string { return c20Keys[x.g.c.Rng.Intn(len(c20Keys))] }

func (x *c20gen) path(root string, depth int) string {
	r := x.g.c.Rng
	k := x.key()
	p := root + "." + k
	var chain []string
	if root == "@" && x.inFilter {
		chain = append(chain, x.prefix...)
	}
	chain = append(chain, k)
	for i, n := 0, r.Intn(4); i < n; i++ {
		switch r.Intn(8) {
		case 0:
			if depth > 0 {
				savedP, savedF, savedA := x.prefix, x.inFilter, x.inPredArg
				x.prefix, x.inFilter, x.inPredArg = append([]string{}, chain...), true, false
				if root == "@" && !savedF || savedA || root == "$" && savedF {
					x.inPredArg = true // a filter inside an unspecified position stays unspecified
				}
				p += x.filter(depth - 1)
				x.prefix, x.inFilter, x.inPredArg = savedP, savedF, savedA
				continue
			}
		case 1:
			if depth > 0 {
				p += "." + x.call(depth-1)
				continue
			}
		}
		k := x.key()
		chain = append(chain, k)
		p += "." + k
	}
	x.record(root, chain)
	return p
}

// arg generates an argument; inside a filter it is an unspecified position
func (x *c20gen) arg(f func() string) string {
	savedTop := x.topGroup
	x.topGroup = false
	defer func() { x.topGroup = savedTop }()
	saved := x.inPredArg
	if x.inFilter {
		x.inPredArg = true
	}
	s := f()
	x.inPredArg = saved
	return s
}

func (x *c20gen) boolPath(root string, depth int) string {
	r := x.g.c.Rng
	p := x.path(root, depth)
	switch r.Intn(4) {
	case 0:
		return p + ".IsNotNull()"
	case 1:
		if depth > 0 {
			if !x.inFilter && r.Intn(4) == 0 {
				// an `@` path as an argument at top level (it reads the document), with its own arguments
				return p + ".Equal(" + x.arg(func() string { return x.boolPath("@", depth-1) }) + ")"
			}
			return p + ".Equal(" + x.arg(func() string { return x.path("$", depth-1) }) + ")"
		}
	case 2:
		if depth > 0 {
			return p + ".Equal(" + x.arg(func() string { return x.group(depth - 1) }) + ")"
		}
	}
	return p + ".Equal(" + x.g.pick(genLits) + ")"
}

func (x *c20gen) group(depth int) string {
	r := x.g.c.Rng
	parts := []string{}
	if r.Intn(2) == 0 {
		parts = append(parts, []string{"AND", "OR"}[r.Intn(2)])
	}
	for i, n := 0, 1+r.Intn(2); i < n; i++ {
		if depth > 0 && r.Intn(4) == 0 {
			parts = append(parts, x.group(depth-1))
		} else if !x.inFilter && !x.inPredArg && x.topGroup && r.Intn(5) == 0 {
			// a top-level `@` path (it reads the document) as a member of a group, at any nesting of groups
			parts = append(parts, x.boolPath("@", depth))
		} else {
			parts = append(parts, x.boolPath("$", depth))
		}
	}
	return "{" + strings.Join(parts, ",") + "}"
}

func (x *c20gen) filter(depth int) string {
	r := x.g.c.Rng
	parts := []string{}
	for i, n := 0, 1+r.Intn(3); i < n; i++ {
		if depth > 0 && r.Intn(5) == 0 {
			parts = append(parts, x.group(depth-1))
		} else {
			p := x.boolPath("@", depth)
			x.preds = append(x.preds, p)
			parts = append(parts, p)
		}
	}
	return "[" + strings.Join(parts, ",") + "]"
}

func (x *c20gen) call(depth int) string {
	r := x.g.c.Rng
	switch r.Intn(5) {
	case 0:
		return "Count()"
	case 1:
		return "First()"
	case 2:
		if depth > 0 {
			return "AnyOf(" + x.arg(func() string { return x.path("$", depth-1) }) + "," + x.g.pick(genLits) + ")"
		}
	case 3:
		if depth > 0 {
			return "Sum(" + x.arg(func() string { return x.path("$", depth-1) }) + ")"
		}
	}
	return "IsNull()"
}

func (x *c20gen) query(depth int) string {
	r := x.g.c.Rng
	switch r.Intn(6) {
	case 0:
		x.topGroup = true
		s := x.group(depth)
		x.topGroup = false
		return s
	case 1:
		return x.path("@", depth) // a top-level `@` path reads the root too
	}
	return x.path("$", depth)
}

func parseAnalysis(line string) (rf []string, ap [][]string, indep bool, ok bool) {
	if !strings.HasPrefix(line, "ok rf=") {
		return nil, nil, false, false
	}
	rest := strings.TrimPrefix(line, "ok rf=")
	rfPart, apPart, _ := strings.Cut(rest, " ap=")
	indep = true
	if i := strings.Index(apPart, " indep="); i >= 0 {
		indep = apPart[i+7:] == "1"
		apPart = apPart[:i]
	}
	unhex := func(a string) string {
		b, _ := hex.DecodeString(strings.TrimPrefix(a, "x"))
		return string(b)
	}
	if rfPart != "" {
		for _, a := range strings.Split(rfPart, ",") {
			rf = append(rf, unhex(a))
		}
	}
	if apPart != "" {
		for _, p := range strings.Split(apPart, ",") {
			var path []string
			for _, a := range strings.Split(p, ".") {
				path = append(path, unhex(a))
			}
			ap = append(ap, path)
		}
	}
	return rf, ap, indep, true
}

func c20(c *Ctx) {
	n := c.N(6000, 150000)
	c.Rule = "queries from a grammar, each followed in the same process by the `@` predicates of its filters standing alone / in a top-level group / in a group argument, sometimes in the other order and with a repeat (histories of analyses); grammar: (1..4 leading keys, filters with 1..3 predicates, nested groups, path / group / nested-call arguments; every `$` path and top-level `@` path begins with a key), random, depth <=3; each analysed by the implementation and the model (exact lists compared), the implementation's AddressedPaths checked against the generator's own key chains (each chain of a `$` path, top-level argument path and filter predicate is a prefix of a returned path; each returned path is a prefix of a chain), the lists checked for sortedness / duplicates / independence (overwriting one path, and appending to one path, leaves the others as they were), and the query evaluated on a random document and on every single-field perturbation (delete / replace / add) of each root field not listed. Non-trivial = the query has a filter, an argument path or a group; distinct by query text."
	g := &c20gen{g: &qgen{c: c}}
	seen := map[string]bool{}
	var queries []string
	// chains: a query, then (in the same process, in this order) the `@` predicates of its filters on
	// their own and as members of a top-level group — the same text in a position where it reads the
	// document — and sometimes the query once more
	var chains [][]int
	covers := map[int][2][][]string{}
	for len(queries) < n {
		g.preds, g.req, g.opt, g.prefix, g.inFilter, g.inPredArg = nil, nil, nil, nil, false, false
		q := g.query(1 + c.Rng.Intn(3))
		if seen[q] {
			if len(seen) > 50*n {
				break
			}
			seen[q+"#"] = true
			continue
		}
		seen[q] = true
		chain := []int{len(queries)}
		covers[len(queries)] = [2][][]string{g.req, g.opt}
		queries = append(queries, q)
		for _, p := range g.preds {
			if c.Rng.Intn(3) == 0 {
				continue
			}
			for _, f := range []string{p, "{OR," + p + ",$." + g.key() + "}", "$." + g.key() + ".Equal({" + p + "})"} {
				if c.Rng.Intn(2) == 0 {
					chain = append(chain, len(queries))
					queries = append(queries, f)
				}
			}
		}
		if c.Rng.Intn(4) == 0 {
			chain = append(chain, chain[0])
		}
		if c.Rng.Intn(3) == 0 && len(chain) > 2 { // the other order as well
			c.Rng.Shuffle(len(chain), func(a, b int) { chain[a], chain[b] = chain[b], chain[a] })
		}
		chains = append(chains, chain)
	}
	jobs := make([]h.Job, len(chains))
	lines := make([]string, len(queries))
	for i, q := range queries {
		lines[i] = "analysis\t" + "x" + hex.EncodeToString([]byte(q)) + "\t" + h.UniTable(q)
	}
	for k, chain := range chains {
		var hs []string
		for _, i := range chain {
			hs = append(hs, hex.EncodeToString([]byte(queries[i])))
		}
		jobs[k] = h.Job{Kind: "analysis", Payload: strings.Join(hs, ",")}
	}
	impl := make([]string, len(queries))
	chainOf := make([]int, len(queries))
	for k, line := range h.RunJobs(jobs, 12) {
		outs := strings.Split(line, " || ")
		for pos, i := range chains[k] {
			o := line // fatal / hang: the whole chain
			if len(outs) == len(chains[k]) {
				o = outs[pos]
			}
			if impl[i] == "" || (strings.HasPrefix(impl[i], "ok ") && o != impl[i]) {
				if impl[i] != "" && strings.HasPrefix(o, "ok ") {
					c.Violation("relation", fmt.Sprintf("query %q: analysed twice in one process with different answers: %s then %s", queries[i], impl[i], o),
						map[string]any{"kind": "analysis", "query": queries[i], "chain": jobs[k].Payload, "implementation": o})
				}
				impl[i] = o
				chainOf[i] = k
			}
		}
	}
	var model []string
	if c.Proofs.ModelBuilt {
		var err error
		model, err = h.RunModel(c.Driver, lines)
		c.CrossAll(lines, model)
		if err != nil {
			fmt.Println(err)
			return
		}
	}
	type pend struct {
		q  string
		rf []string
	}
	var perturb []pend
	for i, q := range queries {
		c.Evals++
		nontriv := strings.ContainsAny(q, "[{") || strings.Count(q, "$") > 1
		if nontriv {
			c.Distinct[q] = true
		}
		rf, ap, indep, ok := parseAnalysis(impl[i])
		c.Count("impl:" + strings.SplitN(impl[i], " ", 2)[0])
		if !ok {
			if impl[i] != "parse-err" {
				c.Violation("relation", fmt.Sprintf("query %q: the analyses did not return normally: %s", q, impl[i]), map[string]any{"kind": "analysis", "query": q, "implementation": impl[i]})
			}
			continue
		}
		if !sort.StringsAreSorted(rf) {
			c.Violation("relation", fmt.Sprintf("query %q: GetRootFieldsAccessed is not sorted: %v", q, rf), map[string]any{"kind": "analysis", "query": q, "implementation": impl[i]})
		}
		for j := 1; j < len(rf); j++ {
			if rf[j] == rf[j-1] {
				c.Violation("relation", fmt.Sprintf("query %q: GetRootFieldsAccessed has a duplicate: %v", q, rf), map[string]any{"kind": "analysis", "query": q, "implementation": impl[i]})
			}
		}
		dup := map[string]bool{}
		for _, p := range ap {
			k := strings.Join(p, "\x00")
			if dup[k] || len(p) == 0 {
				c.Violation("relation", fmt.Sprintf("query %q: AddressedPaths returns a path twice or an empty path: %v", q, ap), map[string]any{"kind": "analysis", "query": q, "implementation": impl[i]})
			}
			dup[k] = true
		}
		if cv, ok := covers[i]; ok {
			isPrefix := func(a, b []string) bool {
				if len(a) > len(b) {
					return false
				}
				for k := range a {
					if a[k] != b[k] {
						return false
					}
				}
				return true
			}
			for _, want := range cv[0] {
				found := false
				for _, p := range ap {
					found = found || isPrefix(want, p)
				}
				if !found {
					c.Violation("relation", fmt.Sprintf("query %q: AddressedPaths does not cover the key chain %v (returned %v)", q, want, ap), map[string]any{"kind": "analysis", "query": q, "implementation": impl[i], "chain_missing": want})
				}
			}
			all := append(append([][]string{}, cv[0]...), cv[1]...)
			for _, p := range ap {
				// a chain of the query, or — for the positions the statement leaves unspecified — such a
				// chain behind (a prefix of) another chain (the implementation prefixes `$` chains met
				// inside a filter with the chain of the filtered collection)
				found := false
				for j := 0; j <= len(p) && !found; j++ {
					headOK := j == 0
					for _, ch := range all {
						headOK = headOK || isPrefix(p[:j], ch)
					}
					if !headOK {
						continue
					}
					tails := all
					if j > 0 {
						tails = cv[1]
					}
					for _, ch := range tails {
						found = found || (isPrefix(p[j:], ch) && len(p[j:]) > 0)
					}
				}
				if !found {
					c.Violation("relation", fmt.Sprintf("query %q: AddressedPaths returns %v, which is no key chain of the query (chains %v, unspecified %v)", q, p, cv[0], cv[1]), map[string]any{"kind": "analysis", "query": q, "implementation": impl[i], "path_extra": p})
				}
			}
			c.Count("cover-checked")
		}
		if !indep {
			c.Violation("relation", fmt.Sprintf("query %q: the paths returned by AddressedPaths share storage (overwriting one, or appending to one, changed another)", q), map[string]any{"kind": "analysis", "query": q, "implementation": impl[i]})
		}
		if model != nil {
			m := model[i]
			c.Count("model:" + strings.SplitN(m, " ", 2)[0])
			implCmp := impl[i]
			if k := strings.Index(implCmp, " indep="); k >= 0 {
				implCmp = implCmp[:k]
			}
			if strings.HasPrefix(m, "declined") {
				c.Declined++
			} else if m != implCmp {
				c.Violation("correspondence", fmt.Sprintf("query %q: analyses differ: implementation %s, model %s", q, implCmp, m),
					map[string]any{"kind": "analysis", "query": q, "chain": jobs[chainOf[i]].Payload, "implementation": implCmp, "model": m, "correspondence": "Model/Analysis.v root_fields / addressed_paths vs GetRootFieldsAccessed / AddressedPaths (theorems C20_* are about the model)"})
			}
		}
		if i%(len(queries)/8+1) == 0 {
			c.Sample(map[string]any{"query": q, "root_fields": rf, "addressed_paths": ap})
		}
		perturb = append(perturb, pend{q, rf})
	}
	c.Note("queries_analysed", len(queries))

	// non-interference on the implementation: perturb every unlisted root field
	np := c.N(1200, 20000)
	if np > len(perturb) {
		np = len(perturb)
	}
	dg := &qgen{c: c}
	type pcase struct {
		base, variant *EvalCase
		what          string
	}
	var pcs []pcase
	for _, pp := range perturb[:np] {
		doc := dg.randObjWith(c20Keys, 3)
		listed := func(k string) bool {
			for _, f := range pp.rf {
				if strings.EqualFold(f, k) {
					return true
				}
			}
			return false
		}
		base := c.AddEval(pp.q, doc, "perturb:base", true, true)
		for i, k := range doc.Ks {
			if listed(k.S) {
				continue
			}
			// delete
			del := &D{Tag: "m", Kty: "str", Ety: "any"}
			rep := &D{Tag: "m", Kty: "str", Ety: "any"}
			for j := range doc.Ks {
				if j != i {
					del.Ks, del.Vs = append(del.Ks, doc.Ks[j]), append(del.Vs, doc.Vs[j])
					rep.Ks, rep.Vs = append(rep.Ks, doc.Ks[j]), append(rep.Vs, doc.Vs[j])
				} else {
					rep.Ks, rep.Vs = append(rep.Ks, doc.Ks[j]), append(rep.Vs, h.Str("replaced"))
				}
			}
			pcs = append(pcs, pcase{base, c.AddEval(pp.q, del, "perturb:delete", true, true), "deleting root field " + k.S})
			pcs = append(pcs, pcase{base, c.AddEval(pp.q, rep, "perturb:replace", true, true), "replacing root field " + k.S})
		}
		for _, nk := range []string{"zz9", "q_q"} {
			if !listed(nk) && objField(doc, nk) == nil {
				add := &D{Tag: "m", Kty: "str", Ety: "any", Ks: append(append([]*D{}, doc.Ks...), h.Str(nk)), Vs: append(append([]*D{}, doc.Vs...), h.FloatD(7))}
				pcs = append(pcs, pcase{base, c.AddEval(pp.q, add, "perturb:add", true, true), "adding root field " + nk})
			}
		}
	}
	c.RunEvalCases()
	for _, pc := range pcs {
		if obs(pc.base.Impl, true) != obs(pc.variant.Impl, true) {
			c.Violation("relation", fmt.Sprintf("query %q: %s (not in GetRootFieldsAccessed) changed the result: %s vs %s", pc.base.Query, pc.what, short(obs(pc.base.Impl, true)), short(obs(pc.variant.Impl, true))),
				map[string]any{"kind": "eval", "query": pc.base.Query, "data": pc.base.Data.String(), "variant": pc.variant.Data.String(), "what": pc.what, "err_class": true,
					"implementation": pc.base.Impl.String(), "implementation_variant": pc.variant.Impl.String()})
		}
	}
	c.Note("perturbations", len(pcs))
}
