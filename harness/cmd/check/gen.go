package main

import (
	"fmt"
	"strings"

	"verifharness/h"
)

// qgen generates random documents and random queries from one PRNG (c.Rng).
type qgen struct {
	c        *Ctx
	Carriers bool // also use non-JSON carriers (typed slices, structs, pointers, named types)
}

var genKeys = []string{"a", "b", "c", "Ab", "k_1", "arr", "n", "s"}

func (g *qgen) pick(xs []string) string { return xs[g.c.Rng.Intn(len(xs))] }

func recase(s string, r func(int) int) string {
	b := []byte(s)
	for i := range b {
		if r(2) == 0 {
			if b[i] >= 'a' && b[i] <= 'z' {
				b[i] -= 32
			} else if b[i] >= 'A' && b[i] <= 'Z' {
				b[i] += 32
			}
		}
	}
	return string(b)
}

var genStrings = []string{"", "a", "abc", "hello world", "x-y", "Ab", "12", "1.50", "a\"b", "tab\there", "é", "日本"}

func (g *qgen) randNum() *D {
	r := g.c.Rng
	switch r.Intn(6) {
	case 0:
		return h.FloatD(float64(r.Intn(7) - 3))
	case 1:
		return h.FloatD(float64(r.Intn(2000)-1000) / 100)
	case 2:
		if g.Carriers {
			return h.Int([]string{"int", "int8", "int64", "uint8", "uint32"}[r.Intn(5)], int64(r.Intn(100)))
		}
		return h.FloatD(float64(r.Intn(100)))
	case 3:
		if g.Carriers {
			return h.Dec(int64(r.Intn(2000)-1000), int64(r.Intn(5)-3))
		}
		return h.FloatD(0)
	default:
		return h.FloatD(float64(r.Intn(21) - 10))
	}
}

func (g *qgen) randScalar() *D {
	r := g.c.Rng
	switch r.Intn(7) {
	case 0:
		return h.Nil()
	case 1:
		return h.Bool(r.Intn(2) == 0)
	case 2, 3:
		return g.randNum()
	default:
		return h.Str(g.pick(genStrings))
	}
}

func (g *qgen) randValue(depth int) *D {
	r := g.c.Rng
	if depth <= 0 {
		return g.randScalar()
	}
	switch r.Intn(8) {
	case 0, 1:
		return g.randObj(depth - 1)
	case 2:
		// array of objects (mostly rectangular)
		n := r.Intn(4)
		xs := []*D{}
		keys := []string{g.pick(genKeys), g.pick(genKeys)}
		for i := 0; i < n; i++ {
			kv := []any{}
			seen := map[string]bool{}
			for _, k := range keys {
				if seen[strings.ToLower(k)] || r.Intn(6) == 0 {
					continue
				}
				seen[strings.ToLower(k)] = true
				kv = append(kv, k, g.randValue(depth-1))
			}
			xs = append(xs, h.Obj(kv...))
		}
		return h.SliceAny(xs...)
	case 3:
		n := r.Intn(5)
		xs := []*D{}
		for i := 0; i < n; i++ {
			xs = append(xs, g.randScalar())
		}
		return h.SliceAny(xs...)
	case 4:
		n := r.Intn(5)
		xs := []*D{}
		for i := 0; i < n; i++ {
			xs = append(xs, g.randNum())
		}
		return h.SliceAny(xs...)
	}
	return g.randScalar()
}

func (g *qgen) randObj(depth int) *D {
	r := g.c.Rng
	n := 1 + r.Intn(5)
	kv := []any{}
	seen := map[string]bool{}
	for i := 0; i < n; i++ {
		k := g.pick(genKeys)
		if seen[strings.ToLower(k)] {
			continue
		}
		seen[strings.ToLower(k)] = true
		kv = append(kv, k, g.randValue(depth))
	}
	return h.Obj(kv...)
}

func (g *qgen) randDoc(depth int) *D { return g.randObj(depth) }

var genLits = []string{"0", "1", "-1", "2", "1.5", "10", "0.1", `""`, `"a"`, `"abc"`, `"b"`, "true", "false", "3", "100"}

var genFuncs0 = []string{"Count", "Any", "First", "Last", "AsArray", "IsNull", "IsNotNull", "IsEmpty", "IsNotEmpty", "IsNullOrEmpty", "IsNotNullOrEmpty", "Not", "Sum", "Average", "Minimum", "Maximum", "AsJSON", "Invert"}
var genFuncs1 = []string{"Equal", "NotEqual", "Less", "LessOrEqual", "Greater", "GreaterOrEqual", "Contains", "NotContains", "Prefix", "NotPrefix", "Suffix", "NotSuffix", "Index", "Add", "Subtract", "Multiply", "Divide", "Modulo", "Left", "Right", "TrimLeft", "TrimRight", "AnyOf", "Sum", "Maximum"}

func (g *qgen) randKey() string {
	k := g.pick(genKeys)
	if g.c.Rng.Intn(4) == 0 {
		k = recase(k, g.c.Rng.Intn)
	}
	if g.c.Rng.Intn(6) == 0 {
		k += "?"
	}
	return k
}

func (g *qgen) randArg(depth int) string {
	r := g.c.Rng
	switch r.Intn(8) {
	case 0:
		if depth > 0 {
			return g.randPath("$", depth-1, false)
		}
	case 1:
		if depth > 0 {
			return g.randGroup("$", depth-1)
		}
	}
	return g.pick(genLits)
}

func (g *qgen) randCall(depth int) string {
	r := g.c.Rng
	switch r.Intn(10) {
	case 0, 1, 2:
		return g.pick(genFuncs0) + "()"
	case 3:
		if depth > 0 {
			sub := g.randPath("$", depth-1, false)
			return "Select(\"" + strings.ReplaceAll(sub, "\"", "\\\"") + "\")"
		}
		return "Count()"
	case 4:
		return "ReplaceAll(" + g.randArg(0) + "," + g.randArg(0) + ")"
	case 5:
		return "AnyOf(" + g.randArg(depth) + "," + g.randArg(depth) + "," + g.randArg(0) + ")"
	}
	return g.pick(genFuncs1) + "(" + g.randArg(depth) + ")"
}

// randBoolPath: a path that (mostly) ends in a boolean function, for filters and groups
func (g *qgen) randBoolPath(root string, depth int) string {
	r := g.c.Rng
	p := root
	for i, n := 0, r.Intn(3); i < n; i++ {
		p += "." + g.randKey()
	}
	fn := []string{"Equal", "NotEqual", "Less", "Greater", "Contains", "Prefix", "IsNull", "IsNotNull", "IsEmpty", "AnyOf"}[r.Intn(10)]
	switch fn {
	case "IsNull", "IsNotNull", "IsEmpty":
		return p + "." + fn + "()"
	}
	return p + "." + fn + "(" + g.randArg(depth) + ")"
}

func (g *qgen) randGroup(root string, depth int) string {
	r := g.c.Rng
	parts := []string{}
	switch r.Intn(3) {
	case 0:
		parts = append(parts, "AND")
	case 1:
		parts = append(parts, "OR")
	}
	for i, n := 0, r.Intn(3); i < n; i++ {
		if depth > 0 && r.Intn(4) == 0 {
			parts = append(parts, g.randGroup(root, depth-1))
		} else {
			parts = append(parts, g.randBoolPath(root, depth))
		}
	}
	return "{" + strings.Join(parts, ",") + "}"
}

func (g *qgen) randFilter(depth int) string {
	r := g.c.Rng
	parts := []string{}
	if r.Intn(3) == 0 {
		parts = append(parts, []string{"AND", "OR"}[r.Intn(2)])
	}
	for i, n := 0, 1+r.Intn(2); i < n; i++ {
		if depth > 0 && r.Intn(5) == 0 {
			parts = append(parts, g.randGroup("$", depth-1))
		} else {
			parts = append(parts, g.randBoolPath("@", depth))
		}
	}
	return "[" + strings.Join(parts, ",") + "]"
}

func (g *qgen) randPath(root string, depth int, _ bool) string {
	r := g.c.Rng
	p := root
	for i, n := 0, 1+r.Intn(4); i < n; i++ {
		switch r.Intn(10) {
		case 0, 1, 2:
			p += "." + g.randCall(depth)
		case 3:
			p += g.randFilter(depth)
		default:
			p += "." + g.randKey()
		}
	}
	return p
}

func (g *qgen) randQuery(depth int) string {
	if g.c.Rng.Intn(6) == 0 {
		return g.randGroup("$", depth)
	}
	return g.randPath("$", depth, true)
}

var _ = fmt.Sprint

// randObjWith builds a random object over the given key set.
func (g *qgen) randObjWith(keys []string, depth int) *D {
	r := g.c.Rng
	kv := []any{}
	seen := map[string]bool{}
	for _, k := range keys {
		if seen[strings.ToLower(k)] || r.Intn(3) == 0 {
			continue
		}
		seen[strings.ToLower(k)] = true
		kv = append(kv, k, g.randValue(depth))
	}
	return h.Obj(kv...)
}
