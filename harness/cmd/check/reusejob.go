package main

import (
	"encoding/hex"
	"fmt"
	"strings"

	"github.com/machship/mpath"

	"verifharness/h"
)

// The "reuse" job: ONE parsed operation evaluated on ONE live document
// (a map[string]any kept at the same address) that is updated in place
// between evaluations.  payload: query-hex TAB state;state;…  where every
// state is the description of a map[string]any whose entries replace the live
// map's entries.  reply: the outcomes (as Outcome.String()), joined by "|".
func reuseJob(payload string) string {
	parts := strings.SplitN(payload, "\t", 2)
	if len(parts) != 2 {
		return "badcase"
	}
	qb, err := hex.DecodeString(parts[0])
	if err != nil {
		return "badcase"
	}
	op, perr := mpath.ParseString(string(qb))
	if perr != nil || op == nil {
		return "parse-err"
	}
	live := map[string]any{}
	var outs []string
	for _, st := range strings.Split(parts[1], ";") {
		d, err := h.ParseD(st)
		if err != nil || d.Tag != "m" {
			return "badcase"
		}
		for k := range live {
			delete(live, k)
		}
		if m, ok := h.Build(d).(map[string]any); ok {
			for k, v := range m {
				live[k] = v
			}
		}
		o := h.DoImpl(op, live)
		outs = append(outs, o.String())
	}
	return strings.Join(outs, "|")
}

func init() { h.Handlers["reuse"] = reuseJob }

func reuseJobOf(q string, states []*D) h.Job {
	ss := []string{}
	for _, s := range states {
		ss = append(ss, s.String())
	}
	return h.Job{Kind: "reuse", Payload: hex.EncodeToString([]byte(q)) + "\t" + strings.Join(ss, ";")}
}

// runReuse evaluates, for each (query, states), one parsed operation over a live document and compares
// every outcome with the outcome of a fresh parse on a fresh copy of that state (computed through
// the ordinary eval cases, hence also compared with the model).
func (c *Ctx) runReuse(tag string, queries []string, states [][]*D) {
	c.runReuseIn(tag, queries, states, false)
}

// runReuseIn: fresh = every job in a process of its own (nothing has been evaluated there before)
func (c *Ctx) runReuseIn(tag string, queries []string, states [][]*D, fresh bool) {
	jobs := make([]h.Job, len(queries))
	type ref struct {
		fresh []*EvalCase
	}
	refs := make([]ref, len(queries))
	for i, q := range queries {
		jobs[i] = reuseJobOf(q, states[i])
		for _, st := range states[i] {
			refs[i].fresh = append(refs[i].fresh, c.AddEval(q, st, tag+":fresh", false, true))
		}
	}
	var replies []string
	if fresh {
		replies = h.RunJobsFresh(jobs, 12)
	} else {
		replies = h.RunJobs(jobs, 12)
	}
	c.RunEvalCases()
	for i, q := range queries {
		outs := strings.Split(replies[i], "|")
		if len(outs) != len(states[i]) {
			if replies[i] != "parse-err" {
				c.Violation("relation", fmt.Sprintf("query %q reused over %d states: %s", q, len(states[i]), short(replies[i])), map[string]any{"kind": "reuse", "query": q, "reply": replies[i]})
			}
			continue
		}
		for k, o := range outs {
			c.Evals++
			c.Count(tag + ":reused")
			want := refs[i].fresh[k].Impl
			got := h.ParseModelOutcome(o)
			if h.AbsOutcome(got) != h.AbsOutcome(want) {
				ss := []string{}
				for _, s := range states[i][:k+1] {
					ss = append(ss, s.String())
				}
				c.Violation("relation", fmt.Sprintf("query %q: one parsed operation evaluated on a document updated in place gives %s at step %d, a fresh parse on the same content gives %s", q, short(h.AbsOutcome(got)), k, short(h.AbsOutcome(want))),
					map[string]any{"kind": "reuse", "query": q, "states": ss, "step": k, "reused": o, "fresh": want.String()})
				break
			}
		}
	}
}
