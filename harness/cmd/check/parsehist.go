package main

import (
	"encoding/hex"
	"encoding/json"
	"runtime/debug"
	"strings"

	"github.com/machship/mpath"

	"verifharness/h"
)

// The "parsehist" worker job: probes are parsed, then a history of other inputs
// is parsed (each through ParseString and through ParseReadSeeker), then the
// probes are parsed again.  The garbage collector is switched off for the
// duration so that a scanner put back into the sync.Pool is the one the next
// parse gets (a collection empties the pool and, with it, whatever a parse left
// behind in a scanner).
// payload: hist-hex,hist-hex,... ; probe-hex,probe-hex,...

type parseHistReply struct {
	Before []parseOut `json:"before"`
	After  []parseOut `json:"after"`
}

func parseHistJob(payload string) string {
	hp, pp, ok := strings.Cut(payload, ";")
	if !ok {
		return "badcase"
	}
	dec := func(l string) [][]byte {
		var out [][]byte
		if l == "" {
			return out
		}
		for _, a := range strings.Split(l, ",") {
			b, _ := hex.DecodeString(a)
			out = append(out, b)
		}
		return out
	}
	hist, probes := dec(hp), dec(pp)
	old := debug.SetGCPercent(-1)
	oldLim := debug.SetMemoryLimit(1 << 30) // the collector still runs when the heap reaches 1 GiB
	defer func() { debug.SetGCPercent(old); debug.SetMemoryLimit(oldLim) }()
	var rep parseHistReply
	parseAll := func() []parseOut {
		var out []parseOut
		for _, p := range probes {
			p := p
			out = append(out, safeParse(func() (mpath.Operation, error) { return mpath.ParseString(string(p)) }))
		}
		return out
	}
	rep.Before = parseAll()
	for _, in := range hist {
		in := in
		safeParse(func() (mpath.Operation, error) { return mpath.ParseString(string(in)) })
		safeParse(func() (mpath.Operation, error) { return mpath.ParseReadSeeker(&planReader{data: in, failAt: -1}) })
	}
	rep.After = parseAll()
	b, _ := json.Marshal(rep)
	return hex.EncodeToString(b)
}

func init() { h.Handlers["parsehist"] = parseHistJob }
