package main

import (
	"fmt"
	"math"
	"math/big"
	"strconv"

	"verifharness/h"
)

// C06 — numbers come out as decimals with their value intact.
//
// Exhaustive: every Go numeric kind x {min, max, 0, 1, -1 where signed, a
// mid value} x {plain, named type, behind a pointer} x position (root, map
// value, struct field, slice element read by First / Last / Index, collected
// by stepping a key across an array of objects, function receiver); float64
// and decimal.Decimal at boundary values.  The result must be a
// decimal.Decimal whose value is exactly the source number.
func init() { props["C06"] = c06 }

func c06(c *Ctx) {
	c.Rule = "exhaustive: 10 integer kinds x {min,max,0,1,-1,mid} x {plain,named,pointer} + float64/float32/decimal values x positions {root, map value, struct field, First, Last, Index(0), projected across an array of objects, receiver of Add(0)}; thorough adds random values. Bit twins (a negative int64, the uint64 2^64+x, the float64 with the same bits) converted one after the other in one evaluation, both orders. The result must be decimal.Decimal with exactly the source value (math/big). Non-trivial = value not zero; distinct by (query, data)."
	type nv struct {
		d   *D
		val *big.Rat
	}
	var nums []nv
	kinds := []struct {
		name string
		bits uint
		uns  bool
	}{{"int", 64, false}, {"int8", 8, false}, {"int16", 16, false}, {"int32", 32, false}, {"int64", 64, false},
		{"uint", 64, true}, {"uint8", 8, true}, {"uint16", 16, true}, {"uint32", 32, true}, {"uint64", 64, true}}
	for _, k := range kinds {
		var vals []*big.Int
		one := big.NewInt(1)
		if k.uns {
			max := new(big.Int).Sub(new(big.Int).Lsh(one, k.bits), one)
			vals = []*big.Int{big.NewInt(0), big.NewInt(1), max, new(big.Int).Rsh(max, 1), new(big.Int).Add(new(big.Int).Rsh(max, 1), one)}
		} else {
			max := new(big.Int).Sub(new(big.Int).Lsh(one, k.bits-1), one)
			min := new(big.Int).Neg(new(big.Int).Lsh(one, k.bits-1))
			vals = []*big.Int{big.NewInt(0), big.NewInt(1), big.NewInt(-1), max, min, new(big.Int).Rsh(max, 3)}
		}
		if c.Thorough() {
			for i := 0; i < 20; i++ {
				r := new(big.Int).Rand(c.Rng, new(big.Int).Lsh(one, k.bits-1))
				vals = append(vals, r)
			}
		}
		for _, v := range vals {
			for _, named := range []bool{false, true} {
				d := h.IntBig(k.name, v)
				d.Named = named
				nums = append(nums, nv{d, new(big.Rat).SetInt(v)})
			}
			nums = append(nums, nv{h.PtrTo(h.IntBig(k.name, v)), new(big.Rat).SetInt(v)})
		}
	}
	for _, f := range []float64{0, 1, -1, 0.1, 0.2, 1e-9, 123456.789, 999999999999999, math.MaxFloat64, math.SmallestNonzeroFloat64, -2.5e10, 1e21} {
		d := h.FloatD(f)
		nums = append(nums, nv{d, ratCE(d.Coef, d.Exp)})
		dn := h.FloatD(f)
		dn.Named = true
		nums = append(nums, nv{dn, ratCE(d.Coef, d.Exp)})
		nums = append(nums, nv{h.PtrTo(h.FloatD(f)), ratCE(d.Coef, d.Exp)})
	}
	for _, f := range []float32{0.5, 0.1, 3} {
		d := h.FloatD(float64(f))
		d.Is32 = true
		nums = append(nums, nv{d, ratCE(d.Coef, d.Exp)})
	}
	for _, ce := range [][2]int64{{0, 0}, {15, -1}, {-7, 3}, {999999999999999, -20}, {1, 30}, {100, -2}} {
		nums = append(nums, nv{h.Dec(ce[0], ce[1]), ratCE(big.NewInt(ce[0]), ce[1])})
		nums = append(nums, nv{h.PtrTo(h.Dec(ce[0], ce[1])), ratCE(big.NewInt(ce[0]), ce[1])}) // a decimal.Decimal reached through a pointer
	}
	// twins: different numbers that share their 64 bits under another reading (a negative int64 and the
	// uint64 2^64+x; an integer and the float64 with the same bit pattern), converted one after the other in
	// ONE evaluation, in both orders — whatever is remembered about one must not answer for the other
	{
		two64 := new(big.Int).Lsh(big.NewInt(1), 64)
		for _, x := range []int64{-1, -2, math.MinInt64, -1024, -4294967296, math.MinInt64 + 1, -9007199254740993, 4607182418800017408, 4611686018427387904, -4616189618054758400} {
			var twins []*D
			var vals []*big.Rat
			twins, vals = append(twins, h.Int("int64", x)), append(vals, big.NewRat(x, 1))
			if x < 0 {
				u := new(big.Int).Add(two64, big.NewInt(x))
				twins, vals = append(twins, h.IntBig("uint64", u)), append(vals, new(big.Rat).SetInt(u))
				twins, vals = append(twins, h.Int("int", x)), append(vals, big.NewRat(x, 1))
			} else {
				twins, vals = append(twins, h.IntBig("uint64", big.NewInt(x))), append(vals, big.NewRat(x, 1))
			}
			if f := math.Float64frombits(uint64(x)); !math.IsNaN(f) && !math.IsInf(f, 0) && math.Abs(f) < 1e15 && math.Abs(f) > 1e-15 {
				fr, _ := new(big.Rat).SetString(strconv.FormatFloat(f, 'g', -1, 64))
				twins, vals = append(twins, h.FloatD(f)), append(vals, fr)
			}
			for i := range twins {
				for j := range twins {
					if i == j {
						continue
					}
					doc := h.Obj("a", twins[i], "b", twins[j], "xs", h.SliceAny(twins[i], twins[j]), "os", h.SliceAny(h.Obj("v", twins[i]), h.Obj("v", twins[j])))
					ec := c.AddEval("$.a.Add($.b)", doc, "bit-twins", false, true)
					ec.Check = exactly(new(big.Rat).Add(vals[i], vals[j]))
					ec = c.AddEval("$.a.Subtract($.b)", doc, "bit-twins", false, true)
					ec.Check = exactly(new(big.Rat).Sub(vals[i], vals[j]))
					ec = c.AddEval("$.xs.Sum()", doc, "bit-twins", false, true)
					ec.Check = exactly(new(big.Rat).Add(vals[i], vals[j]))
					ec = c.AddEval("$.os.v.Sum()", doc, "bit-twins", false, true)
					ec.Check = exactly(new(big.Rat).Add(vals[i], vals[j]))
					ec = c.AddEval("$.a.Equal($.b)", doc, "bit-twins", false, true)
					ec.Check = boolCheck(vals[i].Cmp(vals[j]) == 0)
					ec = c.AddEval("$.xs.Last()", doc, "bit-twins", false, true)
					ec.Check = exactly(vals[j])
				}
			}
		}
	}
	for _, n := range nums {
		want := n.val
		nz := want.Sign() != 0
		add := func(q string, doc *D, tag string) {
			ec := c.AddEval(q, doc, tag, false, nz)
			ec.Check = exactly(want)
		}
		add("$", n.d, "root")
		add("$.k", h.Obj("k", n.d), "map-value")
		add("$.K", &D{Tag: "st", Fs: []h.Field{{Name: "K", Exported: true, Iface: false, V: n.d}}}, "struct-field")
		add("$.K", &D{Tag: "st", Fs: []h.Field{{Name: "K", Exported: true, Iface: true, V: n.d}}}, "struct-field-iface")
		arr := h.SliceAny(n.d, h.Str("pad"), n.d)
		add("$.a.First()", h.Obj("a", arr), "first")
		add("$.a.Last()", h.Obj("a", arr), "last")
		add("$.a.Index(0)", h.Obj("a", arr), "index")
		add("$.a.Index(2)", h.Obj("a", arr), "index")
		if n.d.Tag != "p" {
			add("$.a.First()", h.Obj("a", h.TypedSlice(n.d, n.d)), "first-typed-slice")
		}
		// stepping a key across an array of objects: every collected value is the decimal
		ec := c.AddEval("$.os.v", h.Obj("os", h.SliceAny(h.Obj("v", n.d), h.Obj("w", h.Bool(true)), h.Obj("v", n.d))), "projected", false, nz)
		ec.Check = func(o h.Outcome) string {
			if o.Class != "ok" || o.Val.Tag != "sl" || len(o.Val.Xs) != 2 {
				return "two collected values are required"
			}
			for _, x := range o.Val.Xs {
				if x.Tag != "d" || ratCE(x.Coef, x.Exp).Cmp(want) != 0 {
					return fmt.Sprintf("each collected value must be the decimal %s", want.RatString())
				}
			}
			return ""
		}
		add("$.k.Add(0)", h.Obj("k", n.d), "receiver")
		// typed slices and arrays of struct VALUES whose field is declared with the carrier's own type
		// (int8, *int64, named …) or as `any`
		for _, iface := range []bool{false, true} {
			st := func() *D {
				return &D{Tag: "st", Fs: []h.Field{{Name: "V", Exported: true, Iface: iface, V: n.d}, {Name: "W", Exported: true, V: h.Str("w")}}}
			}
			for ci, carrier := range []*D{h.TypedSlice(st(), st()), {Tag: "ar", Ety: "other", Xs: []*D{st(), st()}}} {
				ec := c.AddEval("$.ts.V", h.Obj("ts", carrier), fmt.Sprintf("projected-typed-structs:%v:%d", iface, ci), false, nz)
				ec.Check = func(o h.Outcome) string {
					if o.Class != "ok" || o.Val.Tag != "sl" || len(o.Val.Xs) != 2 {
						return "two collected values are required"
					}
					for _, x := range o.Val.Xs {
						if x.Tag != "d" || ratCE(x.Coef, x.Exp).Cmp(want) != 0 {
							return fmt.Sprintf("each collected value must be the decimal %s, got %s", want.RatString(), x.String())
						}
					}
					return ""
				}
				add("$.ts.First().V", h.Obj("ts", carrier), "typed-structs-first")
			}
		}
	}
	// mixed carriers in one []any: a decimal.Decimal (or another carrier) stands first, other carriers
	// follow; every position read with First / Last / Index
	{
		mix := []*D{h.Dec(15, -1), h.Int("int8", -7), h.IntBig("uint64", new(big.Int).Lsh(big.NewInt(1), 63)), h.FloatD(0.1), h.PtrTo(h.Int("int", 9)), h.Dec(25, -2), func() *D { d := h.Int("int", 4); d.Named = true; return d }()}
		vals := []*big.Rat{big.NewRat(3, 2), big.NewRat(-7, 1), new(big.Rat).SetInt(new(big.Int).Lsh(big.NewInt(1), 63)), ratCE(h.FloatD(0.1).Coef, h.FloatD(0.1).Exp), big.NewRat(9, 1), big.NewRat(1, 4), big.NewRat(4, 1)}
		for rot := 0; rot < len(mix); rot++ {
			var xs []*D
			var vs []*big.Rat
			for i := range mix {
				xs, vs = append(xs, mix[(rot+i)%len(mix)]), append(vs, vals[(rot+i)%len(mix)])
			}
			doc := h.Obj("a", h.SliceAny(xs...))
			for i := range xs {
				ec := c.AddEval(fmt.Sprintf("$.a.Index(%d)", i), doc, "mixed-carriers", false, true)
				ec.Check = exactly(vs[i])
			}
			ec := c.AddEval("$.a.First()", doc, "mixed-carriers", false, true)
			ec.Check = exactly(vs[0])
			ec = c.AddEval("$.a.Last()", doc, "mixed-carriers", false, true)
			ec.Check = exactly(vs[len(vs)-1])
		}
	}
	// histories in a process of its own: a NIL numeric pointer is met first, then numbers behind the same
	// pointer type (and the other way round); the number comes out as its decimal every time
	{
		var qs []string
		var sts [][]*D
		np, p5, p0 := h.NilPtr(), h.PtrTo(h.Int("int", 5)), h.PtrTo(h.Int("int", 0))
		for _, q := range []string{"$.k", "$.k.Add(1)", "$.a.Last()", "$.os.v", "$.S.K"} {
			mk := func(p *D) *D {
				return h.Obj("k", p, "a", h.SliceAny(p), "os", h.SliceAny(h.Obj("v", p), h.Obj("v", h.Int("int", 1))), "S", &D{Tag: "st", Fs: []h.Field{{Name: "K", Exported: true, Iface: false, V: p}}})
			}
			for _, order := range [][]*D{{np, p5, p0}, {p5, np, p5}, {np, np, p0, p5}} {
				var states []*D
				for _, p := range order {
					states = append(states, mk(p))
				}
				qs, sts = append(qs, q), append(sts, states)
			}
		}
		c.runReuseIn("nil-pointer-first", qs, sts, true)
	}
	// booleans and non-numeral strings are returned unchanged
	for _, d := range []*D{h.Bool(true), h.Bool(false), h.Str("abc"), h.Str(""), h.Str("1x"), h.NStr("named")} {
		dd := d
		for _, q := range []struct {
			q   string
			doc *D
		}{{"$.k", h.Obj("k", dd)}, {"$.a.First()", h.Obj("a", h.SliceAny(dd))}} {
			ec := c.AddEval(q.q, q.doc, "unchanged", false, true)
			ec.Check = func(o h.Outcome) string {
				if o.Class != "ok" || o.Val.String() != dd.String() {
					return "the value must be returned unchanged: " + dd.String()
				}
				return ""
			}
		}
	}
}
