package main

import (
	"fmt"
	"github.com/shopspring/decimal"
	"regexp"
	"strings"

	"verifharness/h"
)

// C18 — string functions mean what their names say.
//
// Exhaustive part: all strings of length <= 5 (quick: <= 4) over {a,b,c} x all
// needles of length <= 3 x the six substring functions; x n in 0..7 x the four
// slicing functions; ReplaceAll with every non-empty needle of length <= 2 and
// three replacements.  Each answer is compared with the model and with Go's
// strings package as an independent oracle.  Random part: ASCII / non-ASCII
// strings for the substring family; generated regular expressions and
// templates with Go's regexp as the oracle handed to the model; arguments as
// literals, numeric strings and paths.
func init() { props["C18"] = c18 }

func allStrings(alpha string, maxLen int) []string {
	out := []string{""}
	prev := []string{""}
	for l := 1; l <= maxLen; l++ {
		next := []string{}
		for _, p := range prev {
			for _, ch := range alpha {
				next = append(next, p+string(ch))
			}
		}
		out = append(out, next...)
		prev = next
	}
	return out
}

func qlit(s string) string {
	r := strings.NewReplacer("\"", "\\\"", "\n", "\\n", "\t", "\\t")
	return "\"" + r.Replace(s) + "\""
}

func hexs(s string) string { return fmt.Sprintf("x%x", s) }

func boolCheck(want bool) func(h.Outcome) string {
	return func(o h.Outcome) string {
		if o.Class != "ok" || o.Val.Tag != "b" {
			return fmt.Sprintf("a bool is required (%v)", want)
		}
		if o.Val.B != want {
			return fmt.Sprintf("the strings package answers %v", want)
		}
		return ""
	}
}

func strCheck(want string) func(h.Outcome) string {
	return func(o h.Outcome) string {
		if o.Class != "ok" || o.Val.Tag != "s" {
			return fmt.Sprintf("the string %q is required", want)
		}
		if o.Val.S != want {
			return fmt.Sprintf("expected %q", want)
		}
		return ""
	}
}

func c18(c *Ctx) {
	maxS := c.N(5, 5)
	c.Rule = fmt.Sprintf("exhaustive: all strings of length <=%d over {a,b,c} x all needles of length <=3 x {Contains,NotContains,Prefix,NotPrefix,Suffix,NotSuffix}; x n in 0..7 x {Left,Right,TrimLeft,TrimRight}; ReplaceAll x non-empty needles of length <=2 x 3 replacements; each compared with the model and with Go's strings package; random: ASCII/non-ASCII strings, regex patterns and templates from a generator with Go's regexp as oracle; arguments as literal, numeric string, path; ReplaceAll / ReplaceRegex with (path, literal), (literal, path) and (path, path) arguments.; needles, search strings and replacements that read as numbers, as literals and through paths; literal words anchored at one or both ends against subjects that equal, start with, end with or contain them. Non-trivial = subject non-empty; distinct by (query, data).", maxS)
	subjects := allStrings("abc", maxS)
	needles := allStrings("abc", 3)
	type bf struct {
		name string
		f    func(s, n string) bool
	}
	bfs := []bf{{"Contains", strings.Contains}, {"NotContains", func(s, n string) bool { return !strings.Contains(s, n) }},
		{"Prefix", strings.HasPrefix}, {"NotPrefix", func(s, n string) bool { return !strings.HasPrefix(s, n) }},
		{"Suffix", strings.HasSuffix}, {"NotSuffix", func(s, n string) bool { return !strings.HasSuffix(s, n) }}}
	for _, s := range subjects {
		doc := h.Obj("s", h.Str(s), "two", h.FloatD(2), "nd", h.Str("ab"))
		for _, n := range needles {
			for _, f := range bfs {
				ec := c.AddEval("$.s."+f.name+"("+qlit(n)+")", doc, "substring", true, s != "")
				ec.Check = boolCheck(f.f(s, n))
			}
		}
		// needle supplied by a path
		for _, f := range bfs {
			ec := c.AddEval("$.s."+f.name+"($.nd)", doc, "substring-path-arg", true, s != "")
			ec.Check = boolCheck(f.f(s, "ab"))
		}
		for n := 0; n <= 7; n++ {
			k := n
			if k > len(s) {
				k = len(s)
			}
			spell := []string{fmt.Sprint(n)}
			if n == 2 {
				spell = append(spell, "2.0", "\"2\"", "$.two", "0.2e1")
			}
			for _, sp := range spell {
				ec := c.AddEval("$.s.Left("+sp+")", doc, "slicing", true, s != "")
				ec.Check = strCheck(s[:k])
				ec = c.AddEval("$.s.Right("+sp+")", doc, "slicing", true, s != "")
				ec.Check = strCheck(s[len(s)-k:])
				ec = c.AddEval("$.s.TrimLeft("+sp+")", doc, "slicing", true, s != "")
				ec.Check = strCheck(s[k:])
				ec = c.AddEval("$.s.TrimRight("+sp+")", doc, "slicing", true, s != "")
				ec.Check = strCheck(s[:len(s)-k])
			}
		}
		for _, n := range allStrings("abc", 2)[1:] {
			for _, r := range []string{"", "x", "ab"} {
				ec := c.AddEval("$.s.ReplaceAll("+qlit(n)+","+qlit(r)+")", doc, "replace-all", true, s != "")
				ec.Check = strCheck(strings.ReplaceAll(s, n, r))
				// the same call with one or both arguments read from the data: (path, literal), (literal, path), (path, path)
				if r != "" && len(s) <= 3 {
					doc2 := h.Obj("s", h.Str(s), "f", h.Str(n), "r", h.Str(r))
					for _, args := range []string{"$.f," + qlit(r), qlit(n) + ",$.r", "$.f,$.r"} {
						ec := c.AddEval("$.s.ReplaceAll("+args+")", doc2, "replace-all-path-arguments", true, s != "")
						ec.Check = strCheck(strings.ReplaceAll(s, n, r))
					}
				}
			}
		}
	}
	// needles, search strings and replacements that read as numbers ("12", "-3.5", ".5", "1e1", "007"), on
	// subjects that are not numerals: written as string literals and read from the data through a path
	{
		subs := []string{"a12b", "12a", "a12", "x-3.5y", "a.5", "1e1z", "z1e1", "007a", "a0", "b", "a 12", "12 12x"}
		nums := []string{"12", "-3.5", ".5", "1e1", "007", "0", "2", "1", "3.50"}
		for _, sj := range subs {
			for _, nd := range nums {
				for _, rp := range []string{"Z", "7", "0.5"} {
					doc := h.Obj("s", h.Str(sj), "n", h.Str(nd), "r", h.Str(rp), "rows", h.SliceAny(h.Obj("s", h.Str(sj), "n", h.Str(nd))))
					sdoc := toStruct(h.Obj("S", h.Str(sj), "N", h.Str(nd), "R", h.Str(rp)))
					for _, arg := range []string{qlit(nd), "$.n"} {
						if rp == "Z" {
							for _, f := range bfs {
								ec := c.AddEval("$.s."+f.name+"("+arg+")", doc, "numeral-needles", true, true)
								ec.Check = boolCheck(f.f(sj, nd))
								if arg == "$.n" {
									ec = c.AddEval("$.s."+f.name+"("+arg+")", sdoc, "numeral-needles:struct", true, true)
									ec.Check = boolCheck(f.f(sj, nd))
									ec = c.AddEval("$.rows[@.s."+f.name+"(@.n)].Count()", doc, "numeral-needles:filter", true, true)
								}
							}
							re := regexp.MustCompile(nd)
							m := "0"
							if re.MatchString(sj) {
								m = "1"
							}
							ec := c.AddEval("$.s.DoesMatchRegex("+arg+")", doc, "numeral-needles:regex", true, true)
							ec.Eng = fmt.Sprintf("((re %s %s %s))", hexs(nd), hexs(sj), m)
							ec.Check = boolCheck(re.MatchString(sj))
						}
						for _, rarg := range []string{qlit(rp), "$.r"} {
							ec := c.AddEval("$.s.ReplaceAll("+arg+","+rarg+")", doc, "numeral-needles:replace", true, true)
							ec.Check = strCheck(strings.ReplaceAll(sj, nd, rp))
							re := regexp.MustCompile(nd)
							ec = c.AddEval("$.s.ReplaceRegex("+arg+","+rarg+")", doc, "numeral-needles:regex", true, true)
							ec.Eng = fmt.Sprintf("((rr %s %s %s %s))", hexs(nd), hexs(sj), hexs(rp), hexs(re.ReplaceAllString(sj, rp)))
							ec.Check = strCheck(re.ReplaceAllString(sj, rp))
						}
					}
				}
			}
		}
	}
	c.RunEvalCases()

	// random strings (ASCII and non-ASCII) for the substring family and the slicers (ASCII)
	r := c.Rng
	// … including combining marks, so that base letter + mark, precomposed letter and singletons
	// (Angstrom / Ohm sign) occur side by side: the tests are byte-wise, not up to normalisation
	alph := []string{"a", "b", " ", "x", "-", "Z", "é", "e", "\u0301", "\u030a", "A", "\u00c5", "\u212b", "日", "😀", "\"", "\\", "."}
	randStr := func(maxRunes int, asciiOnly bool) string {
		var sb strings.Builder
		for i, n := 0, r.Intn(maxRunes+1); i < n; i++ {
			ch := alph[r.Intn(len(alph))]
			if asciiOnly && len(ch) > 1 {
				ch = "q"
			}
			sb.WriteString(ch)
		}
		return sb.String()
	}
	nRand := c.N(3000, 60000)
	for i := 0; i < nRand; i++ {
		s := randStr(60, false)
		var n string
		if len(s) > 0 && r.Intn(2) == 0 {
			a := r.Intn(len(s))
			b := a + r.Intn(len(s)-a+1)
			n = s[a:b]
			if !validUTF8NoNUL(n) {
				n = randStr(3, false)
			}
		} else {
			n = randStr(3, false)
		}
		if strings.ContainsAny(n, "\\") || strings.ContainsAny(s, "\\") {
			continue // a backslash in a literal is subject to escape handling (C09), not to this property
		}
		f := bfs[r.Intn(len(bfs))]
		doc := h.Obj("s", h.Str(s))
		ec := c.AddEval("$.s."+f.name+"("+qlit(n)+")", doc, "substring-random", true, true)
		ec.Check = boolCheck(f.f(s, n))
		a := randStr(40, true)
		if !strings.ContainsAny(a, "\\") {
			k := r.Intn(45)
			kk := k
			if kk > len(a) {
				kk = len(a)
			}
			ec2 := c.AddEval(fmt.Sprintf("$.s.Right(%d)", k), h.Obj("s", h.Str(a)), "slicing-random", true, true)
			ec2.Check = strCheck(a[len(a)-kk:])
		}
	}

	// regular expressions: Go's regexp is the oracle, handed to the model as the engine table
	atoms := []string{"a", "b", ".", "[ab]", "[^a]", "\\d", "\\w+", "(a|b)", "(ab)*", "a?", "b+", "^", "$", "(?i)a", "x{2}", "(", "[", "*"}
	nRe := c.N(1500, 30000)
	for i := 0; i < nRe; i++ {
		var pb strings.Builder
		for j, n := 0, 1+r.Intn(4); j < n; j++ {
			pb.WriteString(atoms[r.Intn(len(atoms))])
		}
		pat := pb.String()
		if r.Intn(4) == 0 {
			pat = []string{"a", "b", "ab", "ba", "x", "-", "a b", "Z"}[r.Intn(8)] // a pattern without any metacharacter
		}
		subj := randStr(12, true)
		if r.Intn(5) == 0 {
			// a literal word anchored at one end or at both (^w$, \Aw\z, ^(?:w)$, ^w, w$, ^a\.b$) against subjects
			// that are the word, start with it, end with it, or merely contain it
			w := []string{"a", "ab", "ba", "x", "a b", "a.b", "Z"}[r.Intn(7)]
			qw := regexp.QuoteMeta(w)
			pat = []string{"^" + qw + "$", "\\A" + qw + "\\z", "^(?:" + qw + ")$", "^" + qw, qw + "$", "^[" + w[:1] + "]" + regexp.QuoteMeta(w[1:]) + "$", "(?i)^" + qw + "$", "(?m)^" + qw + "$"}[r.Intn(8)]
			subj = []string{w, "x" + w, w + "x", "x" + w + "x", w + w, "", strings.ToUpper(w), w + "\n" + w, "q\n" + w}[r.Intn(9)]
		}
		if strings.ContainsAny(subj, "\\\"") {
			continue
		}
		tpl := []string{"", "X", "$1", "[$0]", "${1}y", "$2$1", "${0}", "<${0}>", "$$", "a$$b", "$name", "${name}x", "${0}${0}", "$", "$0$$"}[r.Intn(15)]
		re, err := regexp.Compile(pat)
		var entries []string
		mres, rres := "bad", "bad"
		if err == nil {
			mres = "0"
			if re.MatchString(subj) {
				mres = "1"
			}
			rres = hexs(re.ReplaceAllString(subj, tpl))
		}
		entries = append(entries, fmt.Sprintf("(re %s %s %s)", hexs(pat), hexs(subj), mres))
		entries = append(entries, fmt.Sprintf("(rr %s %s %s %s)", hexs(pat), hexs(subj), hexs(tpl), rres))
		eng := "(" + strings.Join(entries, " ") + ")"
		doc := h.Obj("s", h.Str(subj))
		// the pattern is written as a string literal; a backslash must survive the parser's unescape: \d and \w are not escapes it rewrites
		ec := c.AddEval("$.s.DoesMatchRegex("+qlit(pat)+")", doc, "regex-match", true, true)
		ec.Eng = eng
		if err == nil {
			ec.Check = boolCheck(re.MatchString(subj))
		} else {
			ec.Check = func(o h.Outcome) string {
				if o.Class != "other" {
					return "an invalid pattern must be reported as an error"
				}
				return ""
			}
		}
		ec2 := c.AddEval("$.s.ReplaceRegex("+qlit(pat)+","+qlit(tpl)+")", doc, "regex-replace", true, true)
		ec2.Eng = eng
		if err == nil {
			ec2.Check = strCheck(re.ReplaceAllString(subj, tpl))
		}
		if err == nil && ratStrOK(pat) == false && ratStrOK(tpl) == false {
			// the pattern read from the data and the template written as a literal, and the other way round
			doc3 := h.Obj("s", h.Str(subj), "p", h.Str(pat), "t", h.Str(tpl))
			for _, args := range []string{"$.p," + qlit(tpl), qlit(pat) + ",$.t"} {
				ec3 := c.AddEval("$.s.ReplaceRegex("+args+")", doc3, "regex-replace-path-arguments", true, true)
				ec3.Eng = eng
				ec3.Check = strCheck(re.ReplaceAllString(subj, tpl))
			}
		}
	}
}

// ratStrOK: the text is a numeral (a string read from the data would become a number)
func ratStrOK(s string) bool {
	_, err := decimal.NewFromString(s)
	return err == nil
}

func validUTF8NoNUL(s string) bool {
	for _, r := range s {
		if r == 0xFFFD || r == 0 {
			return false
		}
	}
	return true
}
