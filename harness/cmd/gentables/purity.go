package main

import (
	"bytes"
	"fmt"
	"go/ast"
	"go/parser"
	"go/token"
	"path/filepath"
	"sort"
	"strings"
)

// genPurity lists, for the evaluation code (the Do methods and every function
// of funcs.go and helpers.go), the statements that can write through a
// parameter or the receiver: an assignment to an element / field / pointee of
// a parameter or of a local alias of one, delete() on one, append() onto one
// (it may write into the caller's spare capacity), and reflect setters
// (Set*, SetMapIndex) on a reflect.Value obtained from one.  Values produced
// by make, composite literals, reflect.MakeMap*/MakeSlice/New and append onto
// a fresh slice are not aliases.  The analysis is intra-procedural and
// syntactic (DESIGN §5: trusted base); Generated/Purity.v carries the list and
// Properties/C11.v requires it to be empty.
func genPurity(repo, out string) {
	fset := token.NewFileSet()
	var sites []string
	files, _ := filepath.Glob(filepath.Join(repo, "*.go"))
	sort.Strings(files)
	var parsed []*ast.File
	for _, f := range files {
		if strings.HasSuffix(f, "_test.go") {
			continue
		}
		af, err := parser.ParseFile(fset, f, nil, 0)
		if err != nil {
			panic(err)
		}
		parsed = append(parsed, af)
	}
	// The evaluation code, wherever it lives: every method named Do, every function handed over as a value
	// in a package-level initialiser or an init function (the function table dispatches func_* that
	// way), and — transitively — every unexported function and every method of the package they call by
	// name.  Exported functions are entry points of their own (func_Select calls ParseString: the parser
	// is not evaluation code) and are not followed.
	byName := map[string][]*ast.FuncDecl{}
	for _, af := range parsed {
		for _, d := range af.Decls {
			if fd, ok := d.(*ast.FuncDecl); ok && fd.Body != nil && fd.Name.Name != "init" {
				byName[fd.Name.Name] = append(byName[fd.Name.Name], fd)
			}
		}
	}
	scope := map[*ast.FuncDecl]bool{}
	var work []*ast.FuncDecl
	add := func(fd *ast.FuncDecl) {
		if !scope[fd] {
			scope[fd] = true
			work = append(work, fd)
		}
	}
	for _, fd := range byName["Do"] {
		if fd.Recv != nil {
			add(fd)
		}
	}
	valueRefs := func(n ast.Node) {
		calls := map[*ast.Ident]bool{}
		ast.Inspect(n, func(m ast.Node) bool {
			if c, ok := m.(*ast.CallExpr); ok {
				if id, ok := c.Fun.(*ast.Ident); ok {
					calls[id] = true
				}
			}
			return true
		})
		ast.Inspect(n, func(m ast.Node) bool {
			if id, ok := m.(*ast.Ident); ok && !calls[id] && (id.Obj == nil || id.Obj.Kind == ast.Fun) {
				for _, fd := range byName[id.Name] {
					if fd.Recv == nil && !ast.IsExported(id.Name) {
						add(fd)
					}
				}
			}
			return true
		})
	}
	for _, af := range parsed {
		for _, d := range af.Decls {
			switch x := d.(type) {
			case *ast.GenDecl:
				if x.Tok == token.VAR {
					valueRefs(x)
				}
			case *ast.FuncDecl:
				if x.Name.Name == "init" && x.Body != nil {
					valueRefs(x.Body)
				}
			}
		}
	}
	for len(work) > 0 {
		fd := work[len(work)-1]
		work = work[:len(work)-1]
		ast.Inspect(fd.Body, func(m ast.Node) bool {
			c, ok := m.(*ast.CallExpr)
			if !ok {
				return true
			}
			switch f := c.Fun.(type) {
			case *ast.Ident:
				if !ast.IsExported(f.Name) && (f.Obj == nil || f.Obj.Kind == ast.Fun) {
					for _, g := range byName[f.Name] {
						if g.Recv == nil {
							add(g)
						}
					}
				}
			case *ast.SelectorExpr:
				for _, g := range byName[f.Sel.Name] {
					if g.Recv != nil && purityFollowMethod(f.Sel.Name) {
						add(g)
					}
				}
			}
			return true
		})
	}
	// accumulator parameters: `append(dst, …)` onto a slice PARAMETER is the idiom of a function that
	// extends the caller's own accumulator and hands it back.  Such a site is dropped when every call
	// of the function in the evaluation code passes, in that position, a slice the caller made itself
	// (a local that never aliases the caller's inputs, nil, a literal) or its own accumulator parameter.
	type accKey struct {
		fn    string // bare function / method name
		param int
	}
	accSites := map[accKey][]string{}
	everTainted := map[*ast.FuncDecl]map[string]bool{}
	paramIndex := func(fd *ast.FuncDecl, name string) int {
		i := 0
		for _, fl := range fd.Type.Params.List {
			for _, n := range fl.Names {
				if n.Name == name {
					return i
				}
				i++
			}
		}
		return -1
	}
	for _, af := range parsed {
		for _, d := range af.Decls {
			fd, ok := d.(*ast.FuncDecl)
			if !ok || fd.Body == nil {
				continue
			}
			if !scope[fd] {
				continue
			}
			everTainted[fd] = map[string]bool{}
			name := fd.Name.Name
			if r := recvName(fd); r != "" {
				name = r + "." + name
			}
			tainted := map[string]bool{}
			if fd.Recv != nil {
				for _, fl := range fd.Recv.List {
					for _, n := range fl.Names {
						tainted[n.Name] = true
						everTainted[fd][n.Name] = true
					}
				}
			}
			for _, fl := range fd.Type.Params.List {
				for _, n := range fl.Names {
					tainted[n.Name] = true
					everTainted[fd][n.Name] = true
				}
			}
			var root func(e ast.Expr) (string, bool) // root identifier and whether the expression can alias it
			root = func(e ast.Expr) (string, bool) {
				switch x := e.(type) {
				case *ast.Ident:
					return x.Name, true
				case *ast.IndexExpr:
					return root(x.X)
				case *ast.SelectorExpr:
					return root(x.X)
				case *ast.StarExpr:
					return root(x.X)
				case *ast.ParenExpr:
					return root(x.X)
				case *ast.SliceExpr:
					return root(x.X)
				case *ast.TypeAssertExpr:
					return root(x.X)
				case *ast.UnaryExpr:
					if x.Op == token.AND {
						return root(x.X)
					}
				case *ast.CallExpr:
					// reflect.ValueOf(p), v.Elem(), v.Index(i), v.MapIndex(k), v.Field(i), v.Interface(), v.Convert(t): views of the same data
					if sel, ok := x.Fun.(*ast.SelectorExpr); ok {
						switch sel.Sel.Name {
						case "ValueOf", "Indirect":
							if len(x.Args) == 1 {
								return root(x.Args[0])
							}
						case "Elem", "Index", "MapIndex", "Field", "FieldByName", "Interface", "Addr", "Slice":
							return root(sel.X)
						}
					}
					// a function of this package handed a view of the caller's data may hand the same data
					// back (getAsStructOrSlice returns its argument when it is a []any already)
					if id, ok := x.Fun.(*ast.Ident); ok && len(byName[id.Name]) > 0 && (id.Obj == nil || id.Obj.Kind == ast.Fun) {
						for _, a := range x.Args {
							if r, ok := root(a); ok && tainted[r] {
								return r, true
							}
						}
					}
				}
				return "", false
			}
			aliases := func(e ast.Expr) bool {
				r, ok := root(e)
				return ok && tainted[r]
			}
			pos := func(n ast.Node) string {
				p := fset.Position(n.Pos())
				return fmt.Sprintf("%s:%d", filepath.Base(p.Filename), p.Line)
			}
			// one pass in source order: a name is an alias from the point where it is bound to a view of
			// tainted data until it is re-declared or bound to something fresh
			for pass := 1; pass < 2; pass++ {
				ast.Inspect(fd.Body, func(n ast.Node) bool {
					switch x := n.(type) {
					case *ast.DeclStmt:
						if gd, ok := x.Decl.(*ast.GenDecl); ok {
							for _, sp := range gd.Specs {
								if vs, ok := sp.(*ast.ValueSpec); ok {
									for i, nm := range vs.Names {
										if i < len(vs.Values) && aliases(vs.Values[i]) {
											tainted[nm.Name] = true
											everTainted[fd][nm.Name] = true
										} else {
											delete(tainted, nm.Name)
										}
									}
								}
							}
						}
					case *ast.AssignStmt:
						for i, l := range x.Lhs {
							if id, ok := l.(*ast.Ident); ok {
								// a local alias of tainted data?
								if i < len(x.Rhs) && len(x.Lhs) == len(x.Rhs) {
									if aliases(x.Rhs[i]) {
										tainted[id.Name] = true
										everTainted[fd][id.Name] = true
									} else if call, ok := x.Rhs[i].(*ast.CallExpr); ok {
										if f, ok := call.Fun.(*ast.Ident); ok && f.Name == "append" && len(call.Args) > 0 && aliases(call.Args[0]) {
											// x = append(x, …) keeps aliasing
										} else if x.Tok == token.DEFINE {
											delete(tainted, id.Name)
										}
									} else if x.Tok == token.DEFINE {
										// only a NEW binding ends the alias: a plain assignment may sit in one branch
										// (`if isMap(val) { val = … }`) while the other branch keeps the caller's data
										delete(tainted, id.Name)
									}
								} else if len(x.Rhs) == 1 && i == 0 {
									if aliases(x.Rhs[0]) {
										tainted[id.Name] = true // v, ok := p.(T)
										everTainted[fd][id.Name] = true
									} else if x.Tok == token.DEFINE {
										delete(tainted, id.Name)
									}
								}
								continue
							}
							if pass == 1 && aliases(l) {
								sites = append(sites, fmt.Sprintf("%s %s: assignment through %s", name, pos(x), exprText(l)))
							}
						}
					case *ast.RangeStmt:
						if aliases(x.X) {
							if id, ok := x.Value.(*ast.Ident); ok {
								tainted[id.Name] = true // elements may be pointers / maps / slices of the caller's data
								everTainted[fd][id.Name] = true
							}
						}
					case *ast.IncDecStmt:
						if _, isId := x.X.(*ast.Ident); !isId && pass == 1 && aliases(x.X) {
							sites = append(sites, fmt.Sprintf("%s %s: increment through %s", name, pos(x), exprText(x.X)))
						}
					case *ast.CallExpr:
						if pass == 0 {
							return true
						}
						// a callback handed over together with a view of tainted data receives views of it
						hasTainted := false
						for _, a := range x.Args {
							if _, isLit := a.(*ast.FuncLit); !isLit && aliases(a) {
								hasTainted = true
							}
						}
						for _, a := range x.Args {
							if fl, isLit := a.(*ast.FuncLit); isLit {
								for _, pl := range fl.Type.Params.List {
									for _, pn := range pl.Names {
										if hasTainted {
											tainted[pn.Name] = true
											everTainted[fd][pn.Name] = true
										} else {
											delete(tainted, pn.Name)
										}
									}
								}
							}
						}
						if id, ok := x.Fun.(*ast.Ident); ok {
							switch id.Name {
							case "delete":
								if len(x.Args) > 0 && aliases(x.Args[0]) {
									sites = append(sites, fmt.Sprintf("%s %s: delete on %s", name, pos(x), exprText(x.Args[0])))
								}
							case "append":
								if len(x.Args) > 0 && aliases(x.Args[0]) {
									msg := fmt.Sprintf("%s %s: append onto %s (may write into the caller's spare capacity)", name, pos(x), exprText(x.Args[0]))
									if id, ok := x.Args[0].(*ast.Ident); ok && paramIndex(fd, id.Name) >= 0 {
										k := accKey{fd.Name.Name, paramIndex(fd, id.Name)}
										accSites[k] = append(accSites[k], msg)
									} else {
										sites = append(sites, msg)
									}
								}
							case "copy":
								if len(x.Args) > 0 && aliases(x.Args[0]) {
									sites = append(sites, fmt.Sprintf("%s %s: copy into %s", name, pos(x), exprText(x.Args[0])))
								}
							}
						}
						if sel, ok := x.Fun.(*ast.SelectorExpr); ok {
							if strings.HasPrefix(sel.Sel.Name, "Set") && aliases(sel.X) {
								sites = append(sites, fmt.Sprintf("%s %s: reflect %s on a view of %s", name, pos(x), sel.Sel.Name, exprText(sel.X)))
							}
						}
					}
					return true
				})
			}
		}
	}
	// okParam: every call of fn in the evaluation code passes, at position param, a slice of the
	// caller's own making — or the caller's own parameter for which the same holds (forwarding)
	var okParam func(fn string, param int, seen map[accKey]bool) bool
	okParam = func(fn string, param int, seen map[accKey]bool) bool {
		k := accKey{fn, param}
		if seen[k] {
			return true // a cycle of forwarding: decided by the calls from outside it
		}
		seen[k] = true
		ok, calls := true, 0
		for caller := range scope {
			ast.Inspect(caller.Body, func(n ast.Node) bool {
				c, isCall := n.(*ast.CallExpr)
				if !isCall {
					return true
				}
				callee := ""
				switch f := c.Fun.(type) {
				case *ast.Ident:
					callee = f.Name
				case *ast.SelectorExpr:
					callee = f.Sel.Name
				}
				if callee != fn || param >= len(c.Args) {
					return true
				}
				calls++
				switch a := c.Args[param].(type) {
				case *ast.Ident:
					switch {
					case a.Name == "nil":
					case paramIndex(caller, a.Name) >= 0:
						if !okParam(caller.Name.Name, paramIndex(caller, a.Name), seen) {
							ok = false // the caller hands on one of its own inputs
						}
					case everTainted[caller][a.Name]:
						ok = false
					}
				case *ast.CompositeLit:
				case *ast.CallExpr:
					if f, isId := a.Fun.(*ast.Ident); !isId || f.Name != "make" {
						ok = false
					}
				default:
					ok = false
				}
				return true
			})
		}
		return ok && calls > 0
	}
	for k, msgs := range accSites {
		if !okParam(k.fn, k.param, map[accKey]bool{}) {
			sites = append(sites, msgs...)
		}
	}
	sort.Strings(sites)
	uniq := sites[:0]
	for i, s := range sites {
		if i == 0 || s != sites[i-1] {
			uniq = append(uniq, s)
		}
	}
	var b bytes.Buffer
	b.WriteString("(* GENERATED by harness/cmd/gentables (go/ast) from /repo/*.go; do not edit.\n")
	b.WriteString("   Statements of the evaluation code (Do methods, funcs.go, helpers.go) that can write through a\n")
	b.WriteString("   parameter, the receiver or a local alias of one. *)\n")
	b.WriteString("From Coq Require Import String List.\nImport ListNotations.\nOpen Scope string_scope.\n\n")
	b.WriteString("Definition evaluation_write_sites : list string := [\n")
	for i, s := range uniq {
		sep := ";"
		if i == len(uniq)-1 {
			sep = ""
		}
		fmt.Fprintf(&b, "  %s%s\n", coqString(s), sep)
	}
	b.WriteString("].\n")
	writeIfChanged(filepath.Join(out, "Purity.v"), b.Bytes())
}

func exprText(e ast.Expr) string {
	switch x := e.(type) {
	case *ast.Ident:
		return x.Name
	case *ast.IndexExpr:
		return exprText(x.X) + "[…]"
	case *ast.SelectorExpr:
		return exprText(x.X) + "." + x.Sel.Name
	case *ast.StarExpr:
		return "*" + exprText(x.X)
	case *ast.CallExpr:
		return exprText(x.Fun) + "(…)"
	case *ast.TypeAssertExpr:
		return exprText(x.X) + ".(T)"
	case *ast.SliceExpr:
		return exprText(x.X) + "[:]"
	case *ast.ParenExpr:
		return exprText(x.X)
	}
	return "expr"
}

// purityFollowMethod: methods of the other phases (parsing, validation, printing, analysis) are not
// evaluation code even when a method of that name is called on some value during evaluation
func purityFollowMethod(name string) bool {
	switch name {
	case "Parse", "Validate", "Reset", "Scan":
		return false
	}
	return true
}
