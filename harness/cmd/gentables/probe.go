package main

import (
	"encoding/json"
	"fmt"
	"sort"
	"strings"

	"github.com/machship/mpath"
)

// Behavioural extraction of the declarative tables, through the exported API
// only.  Used when a table is not a literal in the source any more (it is
// computed at initialisation, or has become a switch): what the code DOES
// with every candidate is read off ParseString / Sprint / CueValidate.  When
// the literal is there, the two are compared and a difference is printed
// (the literal is what goes into Generated/: the correspondence runs of the
// properties decide whether the code still follows it).

// probeInvalidRunes: the ASCII characters that cannot be part of an identifier:
// `$.a<c>b` does not come back as the single key a<c>b.
func probeInvalidRunes() []int {
	var out []int
	for c := 33; c <= 126; c++ {
		ch := string(rune(c))
		if (c >= '0' && c <= '9') || (c >= 'a' && c <= 'z') || (c >= 'A' && c <= 'Z') || c == '_' {
			continue
		}
		q := "$.a" + ch + "b"
		op, err := mpath.ParseString(q)
		single := false
		if err == nil && op != nil {
			if b, jerr := json.Marshal(op); jerr == nil {
				single = strings.Contains(string(b), `"IdentName":"a`+jsonEsc(ch)+`b"`)
			}
		}
		if !single {
			out = append(out, c)
		}
	}
	return out
}

func jsonEsc(s string) string {
	b, _ := json.Marshal(s)
	return string(b[1 : len(b)-1])
}

// stringParam: the value of the first string parameter in the marshalled operation
func stringParam(op mpath.Operation) (string, bool) {
	b, err := json.Marshal(op)
	if err != nil {
		return "", false
	}
	var tree any
	if json.Unmarshal(b, &tree) != nil {
		return "", false
	}
	var find func(t any) (string, bool)
	find = func(t any) (string, bool) {
		switch x := t.(type) {
		case map[string]any:
			if ty, ok := x["_type"].(string); ok && ty == "String" {
				if v, ok := x["Value"].(string); ok {
					return v, true
				}
			}
			keys := []string{}
			for k := range x {
				keys = append(keys, k)
			}
			sort.Strings(keys)
			for _, k := range keys {
				if v, ok := find(x[k]); ok {
					return v, true
				}
			}
		case []any:
			for _, e := range x {
				if v, ok := find(e); ok {
					return v, true
				}
			}
		}
		return "", false
	}
	return find(tree)
}

// probeEscapes: unescape rules `\X` -> v (the literal "\X" parses to a value other than the two
// characters) and escape rules v -> text (Sprint writes the value v as something else than v).
func probeEscapes() (esc, unesc [][2]string) {
	seen := map[string]bool{}
	addEsc := func(v string, op mpath.Operation) {
		if seen[v] {
			return
		}
		txt := op.Sprint(0)
		i, j := strings.Index(txt, `Equal("`), strings.LastIndex(txt, `")`)
		if i < 0 || j < i+7 {
			return
		}
		printed := txt[i+7 : j]
		if printed != v {
			seen[v] = true
			esc = append(esc, [2]string{v, printed})
		}
	}
	for c := 33; c <= 126; c++ {
		lit := `\` + string(rune(c))
		op, err := mpath.ParseString(`$.a.Equal("` + lit + `")`)
		if err != nil || op == nil {
			continue
		}
		v, ok := stringParam(op)
		if !ok {
			continue
		}
		if v != lit {
			unesc = append(unesc, [2]string{lit, v})
		}
		addEsc(v, op)
	}
	// values written raw inside the literal
	for c := 1; c <= 126; c++ {
		if c == '"' || c == '\\' || c == '\n' {
			continue
		}
		raw := string(rune(c))
		op, err := mpath.ParseString(`$.a.Equal("` + raw + `")`)
		if err != nil || op == nil {
			continue
		}
		if v, ok := stringParam(op); ok && v == raw {
			addEsc(v, op)
		}
	}
	sort.Slice(esc, func(i, j int) bool { return esc[i][0] < esc[j][0] })
	sort.Slice(unesc, func(i, j int) bool { return unesc[i][0] < unesc[j][0] })
	return
}

// probeValidFields: the base paths a step may always read: with current step s1 (no dependencies),
// a root field of that name, merely declared, is available.
func probeValidFields(consts map[string]string) []string {
	var out []string
	names := []string{}
	for k := range consts {
		names = append(names, k)
	}
	sort.Strings(names)
	for _, k := range names {
		name := consts[k]
		if name == "" || name == "_dependencies" || name == "s1" {
			continue
		}
		label := name
		if strings.HasPrefix(name, "_") {
			label = `"` + name + `"` // a quoted label: a hidden field cannot be read by a plain key… the name is what counts
		}
		schema := "s1: { _dependencies: [], result: string }\n" + label + ": { x: string }\n"
		tc, err := mpath.CueValidate("$."+name+".x", schema, "s1")
		if tc == nil {
			continue
		}
		b, _ := json.Marshal(tc)
		if err == nil && !strings.Contains(string(b), "is not available") && !tcHasErrors(b) {
			out = append(out, k)
		}
	}
	return out
}

func tcHasErrors(b []byte) bool {
	var tree any
	if json.Unmarshal(b, &tree) != nil {
		return true
	}
	var has func(t any) bool
	has = func(t any) bool {
		switch x := t.(type) {
		case map[string]any:
			if e, ok := x["error"].(string); ok && e != "" {
				return true
			}
			for _, v := range x {
				if has(v) {
					return true
				}
			}
		case []any:
			for _, v := range x {
				if has(v) {
					return true
				}
			}
		}
		return false
	}
	return has(tree)
}

func samePairs(a, b [][2]string) bool { return fmt.Sprint(a) == fmt.Sprint(b) }
