package main

import (
	"bytes"
	"fmt"
	"go/ast"
	"go/parser"
	"go/token"
	"os"
	"path/filepath"
	"sort"
	"strings"
)

// genConc reads, from the bodies of the package's functions, the sequence of
// synchronisation and shared-state actions (Model/Conc.v: act) and writes
// Generated/Conc.v.  Shared state = package-level variables that are mutexes,
// sync.Pools, or variables of any other type (maps, slices, pointers, scalars,
// structs; sync.Map / sync.Once / atomic.* excepted) written — as a whole,
// through an index, a field or a pointer, or by ++/-- — somewhere outside their
// declaration and the init functions.
// A function is listed when it performs such an action itself or calls (by a
// statically resolvable name) a function that does.  Calls through interfaces
// or function values are not resolved (DESIGN §5: trusted base).
type concGen struct {
	fset     *token.FileSet
	funcs    map[string]*ast.FuncDecl // "Name" or "Recv.Name"
	byName   map[string][]string      // bare name -> keys
	mutexes  map[string]bool
	pools    map[string]bool
	maps     map[string]bool // package-level variables other than mutexes, pools and self-synchronising types
	topSpec  map[*ast.ValueSpec]bool
	structs  map[string]*structInfo // struct types declared in the package
	varType  map[string]string      // package-level variable -> its struct type (T for T, *T, T{…}, &T{…}, new(T))
	shared   map[string]bool        // struct types that have a package-level instance
	selfSync map[string]bool        // package-level sync.Map / sync.Once / atomic.* variables
	recv     string                 // receiver name of the method being read, "" in a function
	recvT    string                 // its struct type when that type is shared
	mutable  map[string]bool
	rel      map[string]bool
}

// structInfo: the fields of a struct type that matter for the lock discipline
type structInfo struct {
	fields      []string
	mutexFields map[string]bool // fields of type sync.Mutex / sync.RWMutex (an embedded one is named Mutex / RWMutex)
	poolFields  map[string]bool
	selfSync    map[string]bool // sync.Map, sync.Once, atomic.*: synchronise themselves
}

func typeName(e ast.Expr) string {
	switch x := e.(type) {
	case *ast.Ident:
		return x.Name
	case *ast.StarExpr:
		return typeName(x.X)
	case *ast.UnaryExpr:
		return typeName(x.X)
	case *ast.CompositeLit:
		return typeName(x.Type)
	case *ast.CallExpr:
		if id, ok := x.Fun.(*ast.Ident); ok && id.Name == "new" && len(x.Args) == 1 {
			return typeName(x.Args[0])
		}
	}
	return ""
}

func recvName(fd *ast.FuncDecl) string {
	if fd.Recv == nil || len(fd.Recv.List) == 0 {
		return ""
	}
	t := fd.Recv.List[0].Type
	if st, ok := t.(*ast.StarExpr); ok {
		t = st.X
	}
	if id, ok := t.(*ast.Ident); ok {
		return id.Name
	}
	return "?"
}

func genConc(repo, out string) {
	g := &concGen{fset: token.NewFileSet(), funcs: map[string]*ast.FuncDecl{}, byName: map[string][]string{},
		mutexes: map[string]bool{}, pools: map[string]bool{}, maps: map[string]bool{}, topSpec: map[*ast.ValueSpec]bool{},
		structs: map[string]*structInfo{}, varType: map[string]string{}, shared: map[string]bool{}, selfSync: map[string]bool{}, mutable: map[string]bool{}, rel: map[string]bool{}}
	files, _ := filepath.Glob(filepath.Join(repo, "*.go"))
	sort.Strings(files)
	var parsed []*ast.File
	for _, f := range files {
		if strings.HasSuffix(f, "_test.go") {
			continue
		}
		af, err := parser.ParseFile(g.fset, f, nil, 0)
		if err != nil {
			panic(err)
		}
		parsed = append(parsed, af)
	}
	typeStr := func(e ast.Expr) string {
		var b bytes.Buffer
		if e != nil {
			fmt.Fprint(&b, exprString(e))
		}
		return b.String()
	}
	for _, af := range parsed {
		for _, d := range af.Decls {
			switch x := d.(type) {
			case *ast.GenDecl:
				if x.Tok == token.TYPE {
					for _, sp := range x.Specs {
						ts, ok := sp.(*ast.TypeSpec)
						if !ok {
							continue
						}
						st, ok := ts.Type.(*ast.StructType)
						if !ok {
							continue
						}
						si := &structInfo{mutexFields: map[string]bool{}, poolFields: map[string]bool{}, selfSync: map[string]bool{}}
						for _, f := range st.Fields.List {
							tstr := typeStr(f.Type)
							names := []string{}
							for _, n := range f.Names {
								names = append(names, n.Name)
							}
							if len(names) == 0 { // embedded
								nm := tstr
								if i := strings.LastIndex(nm, "."); i >= 0 {
									nm = nm[i+1:]
								}
								names = []string{strings.TrimPrefix(nm, "*")}
							}
							for _, n := range names {
								si.fields = append(si.fields, n)
								switch {
								case strings.Contains(tstr, "sync.Mutex") || strings.Contains(tstr, "sync.RWMutex"):
									si.mutexFields[n] = true
								case strings.Contains(tstr, "sync.Pool"):
									si.poolFields[n] = true
								case strings.Contains(tstr, "sync.Map") || strings.Contains(tstr, "sync.Once") || strings.Contains(tstr, "atomic."):
									si.selfSync[n] = true
								}
							}
						}
						g.structs[ts.Name.Name] = si
					}
					continue
				}
				if x.Tok != token.VAR {
					continue
				}
				for _, sp := range x.Specs {
					vs := sp.(*ast.ValueSpec)
					g.topSpec[vs] = true
					for i, nm := range vs.Names {
						ts := typeStr(vs.Type)
						var val ast.Expr
						if i < len(vs.Values) {
							val = vs.Values[i]
						}
						vstr := typeStr(val)
						switch {
						case strings.Contains(ts, "sync.Mutex") || strings.Contains(ts, "sync.RWMutex"):
							g.mutexes[nm.Name] = true
						case strings.Contains(ts, "sync.Pool") || strings.HasPrefix(vstr, "sync.Pool"):
							g.pools[nm.Name] = true
						case strings.Contains(ts, "sync.Map") || strings.Contains(ts, "sync.Once") || strings.Contains(ts, "atomic.") || strings.Contains(vstr, "sync.Map") || strings.Contains(vstr, "atomic."):
							// synchronise themselves — but they are state that outlives a call
							g.selfSync[nm.Name] = true
						case nm.Name != "_":
							g.maps[nm.Name] = true
							if tn := typeName(vs.Type); tn != "" {
								g.varType[nm.Name] = tn
							} else if tn := typeName(val); tn != "" {
								g.varType[nm.Name] = tn
							}
						}
					}
				}
			case *ast.FuncDecl:
				if x.Body == nil {
					continue
				}
				key := x.Name.Name
				if r := recvName(x); r != "" {
					key = r + "." + x.Name.Name
				}
				g.funcs[key] = x
				g.byName[x.Name.Name] = append(g.byName[x.Name.Name], key)
			}
		}
	}
	for v, t := range g.varType {
		if g.structs[t] == nil {
			delete(g.varType, v)
		} else {
			g.shared[t] = true
		}
	}
	// maps written somewhere in a function body (package init functions run
	// before any goroutine exists: a map filled only there is read-only afterwards)
	for k, fd := range g.funcs {
		if k == "init" {
			continue
		}
		g.enter(fd)
		ast.Inspect(fd.Body, func(n ast.Node) bool {
			switch x := n.(type) {
			case *ast.AssignStmt:
				if x.Tok == token.DEFINE {
					break
				}
				for _, l := range x.Lhs {
					for _, id := range g.locs(l) {
						g.mutable[id] = true
					}
				}
			case *ast.CallExpr:
				if id, ok := x.Fun.(*ast.Ident); ok && id.Name == "delete" && len(x.Args) > 0 {
					for _, m := range g.locs(x.Args[0]) {
						g.mutable[m] = true
					}
				}
			case *ast.IncDecStmt:
				for _, id := range g.locs(x.X) {
					g.mutable[id] = true
				}
			}
			return true
		})
	}
	// relevance: direct, then callers to a fixpoint
	progs := map[string]string{}
	direct := map[string]bool{}
	delete(g.funcs, "init")
	for k, fd := range g.funcs {
		g.enter(fd)
		acts := g.block(fd.Body.List, nil)
		if hasDirect(acts) {
			direct[k] = true
		}
	}
	for k := range direct {
		g.rel[k] = true
	}
	for changed := true; changed; {
		changed = false
		for k, fd := range g.funcs {
			if g.rel[k] {
				continue
			}
			g.enter(fd)
			acts := g.block(fd.Body.List, g.rel)
			if len(acts) > 0 && hasAny(acts) {
				g.rel[k] = true
				changed = true
			}
		}
	}
	keys := []string{}
	for k := range g.rel {
		keys = append(keys, k)
	}
	sort.Strings(keys)
	for _, k := range keys {
		g.enter(g.funcs[k])
		progs[k] = renderActs(g.block(g.funcs[k].Body.List, g.rel))
	}
	var b bytes.Buffer
	b.WriteString("(* GENERATED by harness/cmd/gentables (go/ast) from the function bodies of /repo/*.go; do not edit.\n")
	b.WriteString("   One action program per function that touches shared state (mutexes, sync.Pools, package-level variables\n")
	b.WriteString("   written after initialisation) or calls one that does. *)\n")
	b.WriteString("From Coq Require Import String List.\nImport ListNotations.\nOpen Scope string_scope.\nFrom Mpath.Model Require Import Conc.\n\n")
	b.WriteString("Definition conc_table : list (string * prog) := [\n")
	for i, k := range keys {
		sep := ";"
		if i == len(keys)-1 {
			sep = ""
		}
		fmt.Fprintf(&b, "  (\"%s\", %s)%s\n", k, progs[k], sep)
	}
	b.WriteString("].\n\n")
	// entry points: the functions a goroutine can start in — exported ones, functions used as values
	// (the function table dispatches func_* through values) and functions nobody calls by name; the
	// others are helpers, checked in the context of their callers
	called, asValue := map[string]bool{}, map[string]bool{}
	for _, fd := range g.funcs {
		callFuns := map[*ast.Ident]bool{}
		ast.Inspect(fd.Body, func(n ast.Node) bool {
			if c, ok := n.(*ast.CallExpr); ok {
				switch f := c.Fun.(type) {
				case *ast.Ident:
					callFuns[f] = true
					called[f.Name] = true
				case *ast.SelectorExpr:
					callFuns[f.Sel] = true
					called[f.Sel.Name] = true
				}
			}
			return true
		})
		ast.Inspect(fd.Body, func(n ast.Node) bool {
			if id, ok := n.(*ast.Ident); ok && !callFuns[id] && len(g.byName[id.Name]) > 0 && id.Obj == nil {
				asValue[id.Name] = true
			}
			return true
		})
	}
	for _, af := range parsed { // function values in package-level initialisers (the function table)
		for _, d := range af.Decls {
			if gd, ok := d.(*ast.GenDecl); ok && gd.Tok == token.VAR {
				ast.Inspect(gd, func(n ast.Node) bool {
					if id, ok := n.(*ast.Ident); ok && len(g.byName[id.Name]) > 0 {
						asValue[id.Name] = true
					}
					return true
				})
			}
		}
	}
	ents := []string{}
	for _, k := range keys {
		bare := k
		if i := strings.LastIndex(k, "."); i >= 0 {
			bare = k[i+1:]
		}
		if ast.IsExported(bare) || asValue[bare] || !called[bare] {
			ents = append(ents, "\""+k+"\"")
		}
	}
	fmt.Fprintf(&b, "Definition conc_entries : list string := [%s].\n", strings.Join(ents, "; "))
	mv := []string{}
	for m := range g.mutable {
		mv = append(mv, "\""+m+"\"")
	}
	sort.Strings(mv)
	fmt.Fprintf(&b, "Definition conc_mutable_maps : list string := [%s].\n", strings.Join(mv, "; "))
	mx := []string{}
	for m := range g.mutexes {
		mx = append(mx, "\""+m+"\"")
	}
	sort.Strings(mx)
	fmt.Fprintf(&b, "Definition conc_mutexes : list string := [%s].\n", strings.Join(mx, "; "))
	px := []string{}
	for m := range g.pools {
		px = append(px, "\""+m+"\"")
	}
	sort.Strings(px)
	fmt.Fprintf(&b, "Definition conc_pools : list string := [%s].\n", strings.Join(px, "; "))
	os.MkdirAll(out, 0o755)
	writeIfChanged(filepath.Join(out, "Conc.v"), b.Bytes())

	// State.v: everything in the package that can carry information from one call to the next — the
	// inventory behind every "whatever was called before" clause (the models are functions of their
	// arguments plus exactly this state)
	var st []string
	for m := range g.mutexes {
		st = append(st, "(\"mutex\", \""+m+"\")")
	}
	for m := range g.pools {
		st = append(st, "(\"pool\", \""+m+"\")")
	}
	for m := range g.mutable {
		st = append(st, "(\"variable\", \""+m+"\")")
	}
	for m := range g.selfSync {
		st = append(st, "(\"self-synchronising\", \""+m+"\")")
	}
	for t, si := range g.structs {
		if !g.shared[t] {
			continue
		}
		for f := range si.selfSync {
			st = append(st, "(\"self-synchronising\", \""+t+"."+f+"\")")
		}
	}
	sort.Strings(st)
	var sb bytes.Buffer
	sb.WriteString("(* GENERATED by harness/cmd/gentables (go/ast) from /repo/*.go; do not edit.\n")
	sb.WriteString("   Package-level state that outlives a call: mutexes, sync.Pools, variables (or fields of a struct with a\n")
	sb.WriteString("   package-level instance) written outside their declaration and init, and self-synchronising values\n")
	sb.WriteString("   (sync.Map, sync.Once, atomic values). *)\n")
	sb.WriteString("From Coq Require Import String List.\nImport ListNotations.\nOpen Scope string_scope.\n\n")
	fmt.Fprintf(&sb, "Definition package_state : list (string * string) := [%s].\n", strings.Join(st, "; "))
	writeIfChanged(filepath.Join(out, "State.v"), sb.Bytes())
}

// enter records the receiver of the method about to be read: inside a method of a struct type that
// has a package-level instance, `r.f` is the shared location T.f
func (g *concGen) enter(fd *ast.FuncDecl) {
	g.recv, g.recvT = "", ""
	if fd.Recv == nil || len(fd.Recv.List) == 0 || len(fd.Recv.List[0].Names) == 0 {
		return
	}
	t := recvName(fd)
	if g.structs[t] != nil && g.shared[t] {
		g.recv, g.recvT = fd.Recv.List[0].Names[0].Name, t
	}
}

// chain: the root identifier of an assignable expression and the first field selected from it
func chain(e ast.Expr) (root *ast.Ident, first string) {
	for {
		switch x := e.(type) {
		case *ast.Ident:
			return x, first
		case *ast.SelectorExpr:
			first = x.Sel.Name
			e = x.X
		case *ast.IndexExpr:
			e = x.X
		case *ast.StarExpr:
			e = x.X
		case *ast.ParenExpr:
			e = x.X
		case *ast.SliceExpr:
			e = x.X
		default:
			return nil, ""
		}
	}
}

// structOf: the shared struct type an identifier stands for (a package-level variable of that type, or
// the receiver of the method being read), or ""
func (g *concGen) structOf(id *ast.Ident) string {
	if id == nil {
		return ""
	}
	if g.isPkgVar(id) {
		return g.varType[id.Name]
	}
	if g.recv != "" && id.Name == g.recv && id.Obj != nil {
		if _, isField := id.Obj.Decl.(*ast.Field); isField {
			return g.recvT
		}
	}
	return ""
}

// locs: the shared locations an assignable expression is rooted in (not mutexes, pools or
// self-synchronising fields): the package-level variable X itself, or T.f for a field of a struct
// type with a package-level instance (every field of T when the whole value is meant)
func (g *concGen) locs(e ast.Expr) []string {
	root, first := chain(e)
	if root == nil {
		return nil
	}
	if t := g.structOf(root); t != "" {
		si := g.structs[t]
		if first == "" {
			var out []string
			for _, f := range si.fields {
				if !si.mutexFields[f] && !si.poolFields[f] && !si.selfSync[f] {
					out = append(out, t+"."+f)
				}
			}
			return out
		}
		if si.mutexFields[first] || si.poolFields[first] || si.selfSync[first] {
			return nil
		}
		return []string{t + "." + first}
	}
	if g.isPkgVar(root) {
		return []string{root.Name}
	}
	return nil
}

// mutable locations among locs(e)
func (g *concGen) mlocs(e ast.Expr) []string {
	var out []string
	for _, l := range g.locs(e) {
		if g.mutable[l] {
			out = append(out, l)
		}
	}
	return out
}

// syncName: the mutex (want = "mutex") or pool (want = "pool") a method receiver expression denotes:
// a package-level variable of that kind, a field of that kind of a shared struct, or a shared struct
// that embeds one
func (g *concGen) syncName(e ast.Expr, want string) string {
	root, first := chain(e)
	if root == nil {
		return ""
	}
	if first == "" {
		if want == "mutex" && g.mutexes[root.Name] || want == "pool" && g.pools[root.Name] {
			if root.Obj == nil || func() bool { vs, ok := root.Obj.Decl.(*ast.ValueSpec); return ok && g.topSpec[vs] }() {
				return root.Name
			}
		}
		if t := g.structOf(root); t != "" && want == "mutex" {
			for _, emb := range []string{"Mutex", "RWMutex"} {
				if g.structs[t].mutexFields[emb] {
					g.mutexes[t+"."+emb] = true
					return t + "." + emb
				}
			}
		}
		return ""
	}
	if t := g.structOf(root); t != "" {
		si := g.structs[t]
		if want == "mutex" && si.mutexFields[first] {
			g.mutexes[t+"."+first] = true
			return t + "." + first
		}
		if want == "pool" && si.poolFields[first] {
			g.pools[t+"."+first] = true
			return t + "." + first
		}
	}
	return ""
}

func (g *concGen) isPkgVar(id *ast.Ident) bool {
	if !g.maps[id.Name] {
		return false
	}
	if id.Obj == nil {
		return true // left to the package scope by the parser
	}
	vs, ok := id.Obj.Decl.(*ast.ValueSpec)
	return ok && g.topSpec[vs]
}

// ---- action trees

type actT struct {
	kind string // Lock Unlock DeferUnlock Read Write PoolGet PoolPut DeferPoolPut Return If Loop Call
	arg  string
	a, b []actT
}

func hasDirect(as []actT) bool {
	for _, x := range as {
		switch x.kind {
		case "If":
			if hasDirect(x.a) || hasDirect(x.b) {
				return true
			}
		case "Loop":
			if hasDirect(x.a) {
				return true
			}
		case "Return", "Call":
		default:
			return true
		}
	}
	return false
}

func hasAny(as []actT) bool {
	for _, x := range as {
		switch x.kind {
		case "If":
			if hasAny(x.a) || hasAny(x.b) {
				return true
			}
		case "Loop":
			if hasAny(x.a) {
				return true
			}
		case "Return":
		default:
			return true
		}
	}
	return false
}

func renderActs(as []actT) string {
	parts := []string{}
	for _, x := range as {
		switch x.kind {
		case "If":
			parts = append(parts, "AIf "+renderActs(x.a)+" "+renderActs(x.b))
		case "Loop":
			parts = append(parts, "ALoop "+renderActs(x.a))
		case "Return":
			parts = append(parts, "AReturn")
		default:
			parts = append(parts, "A"+x.kind+" \""+x.arg+"\"")
		}
	}
	return "[" + strings.Join(parts, "; ") + "]"
}

// prune removes branches and loops that contain nothing but returns when they
// cannot matter (no relevant action anywhere after them is NOT assumed: an
// early return matters for lock/pool balance, so returns are kept whenever the
// function has any relevant action).
func (g *concGen) block(stmts []ast.Stmt, rel map[string]bool) []actT {
	var out []actT
	for _, s := range stmts {
		out = append(out, g.stmt(s, rel)...)
	}
	return out
}

func (g *concGen) stmt(s ast.Stmt, rel map[string]bool) []actT {
	switch x := s.(type) {
	case *ast.ExprStmt:
		return g.expr(x.X, rel)
	case *ast.AssignStmt:
		var out []actT
		for _, r := range x.Rhs {
			out = append(out, g.expr(r, rel)...)
		}
		for _, l := range x.Lhs {
			if ix, ok := l.(*ast.IndexExpr); ok {
				out = append(out, g.expr(ix.Index, rel)...)
			}
			if ms := g.mlocs(l); len(ms) > 0 && x.Tok != token.DEFINE {
				for _, id := range ms {
					out = append(out, actT{kind: "Write", arg: id})
				}
				continue
			}
			if _, ok := l.(*ast.Ident); !ok {
				out = append(out, g.expr(l, rel)...)
			}
		}
		return out
	case *ast.DeclStmt:
		var out []actT
		if gd, ok := x.Decl.(*ast.GenDecl); ok {
			for _, sp := range gd.Specs {
				if vs, ok := sp.(*ast.ValueSpec); ok {
					for _, v := range vs.Values {
						out = append(out, g.expr(v, rel)...)
					}
				}
			}
		}
		return out
	case *ast.DeferStmt:
		// defer mu.Unlock() / defer pool.Put(x) / defer func() { … }()
		var inner []actT
		if fl, ok := x.Call.Fun.(*ast.FuncLit); ok {
			inner = g.block(fl.Body.List, rel)
		} else {
			inner = g.expr(x.Call, rel)
		}
		// a deferred call of a function of this package that releases (defer release(s)) counts as the
		// releases it performs
		var out []actT
		var collect func(as []actT, depth int)
		collect = func(as []actT, depth int) {
			for _, a := range flatten(as) {
				switch a.kind {
				case "Unlock":
					out = append(out, actT{kind: "DeferUnlock", arg: a.arg})
				case "PoolPut":
					out = append(out, actT{kind: "DeferPoolPut", arg: a.arg})
				case "Call":
					if fd := g.funcs[a.arg]; fd != nil && depth < 3 {
						r, rt := g.recv, g.recvT
						g.enter(fd)
						body := g.block(fd.Body.List, rel)
						g.recv, g.recvT = r, rt
						collect(body, depth+1)
					}
				}
			}
		}
		collect(inner, 0)
		return out
	case *ast.ReturnStmt:
		var out []actT
		for _, r := range x.Results {
			out = append(out, g.expr(r, rel)...)
		}
		return append(out, actT{kind: "Return"})
	case *ast.BlockStmt:
		return g.block(x.List, rel)
	case *ast.IfStmt:
		var out []actT
		if x.Init != nil {
			out = append(out, g.stmt(x.Init, rel)...)
		}
		out = append(out, g.expr(x.Cond, rel)...)
		thn := g.block(x.Body.List, rel)
		var els []actT
		if x.Else != nil {
			els = g.stmt(x.Else, rel)
		}
		return append(out, actT{kind: "If", a: thn, b: els})
	case *ast.ForStmt:
		var out []actT
		if x.Init != nil {
			out = append(out, g.stmt(x.Init, rel)...)
		}
		body := []actT{}
		if x.Cond != nil {
			body = append(body, g.expr(x.Cond, rel)...)
		}
		body = append(body, g.block(x.Body.List, rel)...)
		if x.Post != nil {
			body = append(body, g.stmt(x.Post, rel)...)
		}
		return append(out, actT{kind: "Loop", a: body})
	case *ast.RangeStmt:
		out := g.expr(x.X, rel)
		return append(out, actT{kind: "Loop", a: g.block(x.Body.List, rel)})
	case *ast.SwitchStmt:
		var out []actT
		if x.Init != nil {
			out = append(out, g.stmt(x.Init, rel)...)
		}
		if x.Tag != nil {
			out = append(out, g.expr(x.Tag, rel)...)
		}
		return append(out, g.cases(x.Body.List, rel)...)
	case *ast.TypeSwitchStmt:
		var out []actT
		if x.Init != nil {
			out = append(out, g.stmt(x.Init, rel)...)
		}
		out = append(out, g.stmt(x.Assign, rel)...)
		return append(out, g.cases(x.Body.List, rel)...)
	case *ast.LabeledStmt:
		return g.stmt(x.Stmt, rel)
	case *ast.GoStmt:
		return g.expr(x.Call, rel)
	case *ast.IncDecStmt:
		if ms := g.mlocs(x.X); len(ms) > 0 {
			var out []actT
			for _, id := range ms {
				out = append(out, actT{kind: "Write", arg: id})
			}
			return out
		}
		return g.expr(x.X, rel)
	}
	return nil
}

func (g *concGen) cases(list []ast.Stmt, rel map[string]bool) []actT {
	// case c1: b1; case c2: b2; …  ==>  AIf b1 (AIf b2 …)
	var build func(i int) []actT
	build = func(i int) []actT {
		if i >= len(list) {
			return nil
		}
		cc := list[i].(*ast.CaseClause)
		var pre []actT
		for _, e := range cc.List {
			pre = append(pre, g.expr(e, rel)...)
		}
		return append(pre, actT{kind: "If", a: g.block(cc.Body, rel), b: build(i + 1)})
	}
	return build(0)
}

func flatten(as []actT) []actT {
	var out []actT
	for _, a := range as {
		switch a.kind {
		case "If":
			out = append(out, flatten(a.a)...)
			out = append(out, flatten(a.b)...)
		case "Loop":
			out = append(out, flatten(a.a)...)
		default:
			out = append(out, a)
		}
	}
	return out
}

// expr collects the actions of an expression, in evaluation order (arguments before the call).
func (g *concGen) expr(e ast.Expr, rel map[string]bool) []actT {
	var out []actT
	var walk func(e ast.Expr)
	walk = func(e ast.Expr) {
		switch x := e.(type) {
		case nil:
		case *ast.CallExpr:
			for _, a := range x.Args {
				walk(a)
			}
			switch f := x.Fun.(type) {
			case *ast.SelectorExpr:
				switch f.Sel.Name {
				case "Lock", "RLock":
					if m := g.syncName(f.X, "mutex"); m != "" {
						out = append(out, actT{kind: "Lock", arg: m})
						return
					}
				case "Unlock", "RUnlock":
					if m := g.syncName(f.X, "mutex"); m != "" {
						out = append(out, actT{kind: "Unlock", arg: m})
						return
					}
				case "Get":
					if m := g.syncName(f.X, "pool"); m != "" {
						out = append(out, actT{kind: "PoolGet", arg: m})
						return
					}
				case "Put":
					if m := g.syncName(f.X, "pool"); m != "" {
						out = append(out, actT{kind: "PoolPut", arg: m})
						return
					}
				}
				walk(f.X)
				if rel != nil {
					for _, k := range g.byName[f.Sel.Name] {
						if rel[k] && strings.Contains(k, ".") {
							out = append(out, actT{kind: "Call", arg: k})
							break
						}
					}
				}
			case *ast.Ident:
				if f.Name == "delete" && len(x.Args) > 0 {
					for _, m := range g.mlocs(x.Args[0]) {
						out = append(out, actT{kind: "Write", arg: m})
					}
				}
				if rel != nil && rel[f.Name] {
					out = append(out, actT{kind: "Call", arg: f.Name})
				}
			case *ast.FuncLit:
				out = append(out, g.block(f.Body.List, rel)...)
			default:
				walk(x.Fun)
			}
		case *ast.IndexExpr:
			walk(x.Index)
			walk(x.X)
		case *ast.Ident:
			// a bare reference to a mutable variable (len(m), range m, passing m) is a read; so is a
			// bare reference to a shared struct (all its mutable fields)
			for _, l := range g.mlocs(x) {
				out = append(out, actT{kind: "Read", arg: l})
			}
		case *ast.BinaryExpr:
			walk(x.X)
			walk(x.Y)
		case *ast.UnaryExpr:
			walk(x.X)
		case *ast.ParenExpr:
			walk(x.X)
		case *ast.StarExpr:
			walk(x.X)
		case *ast.SelectorExpr:
			if root, _ := chain(x); root != nil && g.structOf(root) != "" {
				for _, l := range g.mlocs(x) {
					out = append(out, actT{kind: "Read", arg: l})
				}
				return
			}
			walk(x.X)
		case *ast.TypeAssertExpr:
			walk(x.X)
		case *ast.CompositeLit:
			for _, el := range x.Elts {
				walk(el)
			}
		case *ast.KeyValueExpr:
			walk(x.Key)
			walk(x.Value)
		case *ast.SliceExpr:
			walk(x.X)
			walk(x.Low)
			walk(x.High)
		case *ast.FuncLit:
			// a closure that is only defined here runs later: its body is not part of this sequence
		}
	}
	walk(e)
	return out
}

func exprString(e ast.Expr) string {
	switch x := e.(type) {
	case *ast.Ident:
		return x.Name
	case *ast.SelectorExpr:
		return exprString(x.X) + "." + x.Sel.Name
	case *ast.StarExpr:
		return "*" + exprString(x.X)
	case *ast.MapType:
		return "map[" + exprString(x.Key) + "]" + exprString(x.Value)
	case *ast.ArrayType:
		return "[]" + exprString(x.Elt)
	case *ast.CompositeLit:
		return exprString(x.Type) + "{}"
	case *ast.InterfaceType:
		return "interface{}"
	case *ast.StructType:
		return "struct{}"
	}
	return ""
}
