package main

import (
	"fmt"
	"sort"

	"github.com/machship/mpath"
)

func main() {
	fs := mpath.ListFunctions()
	names := []string{}
	for k := range fs {
		names = append(names, string(k))
	}
	sort.Strings(names)
	for _, n := range names {
		d := fs[mpath.FT_FunctionType(n)]
		ps := ""
		for _, p := range d.Params {
			ps += fmt.Sprintf("%s:%s/%s ", p.Name, p.Type, p.IOType)
		}
		fmt.Printf("%-20s on=%s/%s ret=%s/%s known=%v params=[%s]\n", n, d.ValidOn.Type, d.ValidOn.IOType, d.Returns.Type, d.Returns.IOType, d.ReturnsKnownValues, ps)
	}
	fmt.Println(len(names))
	d := map[string]any{"m": map[any]any{nil: 1, "a": 2}}
	op, _ := mpath.ParseString("$.m.a")
	fmt.Println(op.Do(d, d))
}
