// probe: scratch program for looking at the implementation's behaviour by hand.
package main

import (
	"encoding/json"
	"fmt"
	"os"

	"github.com/machship/mpath"
)

func main() {
	schema := `
input: { _dependencies: [], name: string }
variables: { x: string }
s1: { _dependencies: ["s2"], result: string }
s2: { _dependencies: ["s1"], result: string }
s3: { _dependencies: [], result: string }
`
	q, cur := os.Args[1], os.Args[2]
	tc, err := mpath.CueValidate(q, schema, cur)
	fmt.Println("err:", err)
	if tc != nil {
		fmt.Println("HasErrors:", tc.HasErrors(), tc.GetErrors())
		b, _ := json.MarshalIndent(tc, "", " ")
		fmt.Println(string(b))
	}
}
