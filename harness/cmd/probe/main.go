package main

import (
	"fmt"

	"github.com/machship/mpath"
)

func main() {
	op, err := mpath.ParseString(`$.a.b`)
	fmt.Println(op, err)
	r, err := op.Do(map[string]any{"a": map[string]any{"b": 1}}, map[string]any{"a": map[string]any{"b": 1}})
	fmt.Printf("%T %v %v\n", r, r, err)
}
