// stress: the runtime half of C12.  Built with -race.  G goroutines run random
// mixes of ParseString, Do on shared parsed operations (shared and separate
// data) and CueValidate (repeated and distinct cache keys), with randomised
// yields; every result is compared with the result of the same call computed
// sequentially beforehand.  A data race makes the race detector exit with
// status 66; a fatal runtime error (concurrent map writes) kills the process;
// a result mismatch is printed as MISMATCH.
package main

import (
	"encoding/json"
	"flag"
	"fmt"
	"math/rand"
	"os"
	"regexp"
	"runtime"
	"strings"
	"sync"
	"time"

	"github.com/machship/mpath"
)

var idRe = regexp.MustCompile(`"id":"[0-9a-f-]{36}"`)

type call struct {
	kind   string // parse | do | validate
	q      string
	op     int // index of the shared op (do)
	data   int
	schema int
	cur    string
}

var queries = []string{
	`$.a.b`, `$.xs[@.k.Greater(1)].name`, `{OR,$.a.b.Equal(1),$.s.Contains("x")}`, `$.xs.Select("$.k").Sum()`, `$.xs.k.Sum(1,2)`,
	`$.s.Left(2)`, `$.missing?.IsNull()`, `$.xs.Count()`, `$.a.b.Add($.xs.First().k)`, `$.xs.Select("$.name.Prefix(\"n\")")`, `$.a.Equal(`, ``, `$.s.DoesMatchRegex("^h")`,
	`$.xs.AsJSON()`, `$.a.b.AsJSON()`, `$.a.AsJSON()`, `$.xs.k.Sum().AsJSON()`,
	`$.xs.Select("$.name")`, `$.xs.Select("$.k.Add(1)").Sum()`, `$.xs.Select("$.name.Suffix(\"1\")")`, `$.xs.Select("$.k").Count()`, `$.xs.Select("$.k.Greater(1)")`, `$.xs.Select("$.name.Left(1)")`,
	`$.s.DoesMatchRegex($.p)`, `$.s.ReplaceRegex($.p,"<$0>")`, `$.xs.Select("$.name.DoesMatchRegex(\"n[0-9]\")")`, `$.a.RemoveKeysByRegex($.p)`, `$.s.Equal("unterminated`, `$.s.Equal('ab'))`,
}

// coldQueries are only ever parsed inside the concurrent phase (never beforehand, not even for the
// shared operations): function names the library does not know, spelled differently in every round
func coldQuery(rng *rand.Rand, round int) string {
	names := []string{"equal", "sum", "frob", "nope", "Frobnicate", "first"}
	n := names[rng.Intn(len(names))]
	if rng.Intn(2) == 0 {
		n += fmt.Sprintf("R%d", round)
	}
	return []string{"$.a." + n + "(1)", "$.xs.k." + n + "(1,2)", "$.s." + n + "($.a.b)", "$.a.b.Equal(1)." + n + "()", "$." + n + "("}[rng.Intn(5)]
}

var schemas = []string{
	"input: { _dependencies: [], name: string }\nvariables: { x: string }\ns1: { _dependencies: [], result: string }\ns2: { _dependencies: [\"s1\"], result: string }\n",
	"input: { _dependencies: [], name: string, n: int }\ns1: { _dependencies: [\"s2\"], result: [...{k: int}] }\ns2: { _dependencies: [\"s1\"], result: string }\n",
}

// schemaSuffix re-spells every schema (a trailing comment) so that a phase meets cold caches and
// cue values nobody has evaluated yet; set before each phase, never during one
var schemaSuffix = ""

var vqueries = []string{`$.s1.result`, `$.input.name`, `$.input.name.Equal($.s1.result)`, `$.s2.result`, `$.input.zz`, `$.s1.result.First().k`}

// docs builds the documents; respell > 0 writes the regular expression `p` in a different but
// equivalent spelling, so that a goroutine meets patterns no one has compiled before; variant
// chooses the case in which the keys are written (keys are matched case-insensitively): as in the
// queries, Capitalised, UPPER
func docs(respell, variant int) []any {
	K := func(k string) string {
		switch variant % 3 {
		case 1:
			return strings.ToUpper(k[:1]) + k[1:]
		case 2:
			return strings.ToUpper(k)
		}
		return k
	}
	mk := func(n int) any {
		xs := []any{}
		for i := 0; i < n; i++ {
			xs = append(xs, map[string]any{K("k"): float64(i), K("name"): fmt.Sprintf("n%d", i)})
		}
		return map[string]any{K("a"): map[string]any{K("b"): float64(n)}, K("xs"): xs, K("s"): "hello", K("p"): fmt.Sprintf("^h.{%d}", n) + strings.Repeat("(?:)", respell)}
	}
	return []any{mk(0), mk(1), mk(3), mk(7)}
}

func run(c call, ops []mpath.Operation, ds []any) string {
	switch c.kind {
	case "parse":
		op, err := mpath.ParseString(c.q)
		if err != nil {
			return "err"
		}
		return "ok " + op.Sprint(0)
	case "do":
		if ops[c.op] == nil {
			return "noop"
		}
		res, err := ops[c.op].Do(ds[c.data], ds[c.data])
		if err != nil {
			return "err " + err.Error()
		}
		b, _ := json.Marshal(res)
		return "ok " + string(b)
	case "validate":
		tc, err := mpath.CueValidate(c.q, schemas[c.schema]+schemaSuffix, c.cur)
		out := ""
		if err != nil {
			out = "err " + err.Error()
		}
		if tc != nil {
			b, _ := json.Marshal(tc)
			out += " tree " + idRe.ReplaceAllString(string(b), `"id":""`)
		}
		return out
	}
	return "?"
}

func main() {
	g := flag.Int("g", 16, "goroutines")
	n := flag.Int("n", 400, "calls per goroutine")
	seed := flag.Int64("seed", 1, "seed")
	secs := flag.Int("secs", 0, "repeat rounds until this many seconds have passed")
	flag.Parse()
	start := time.Now()
	rounds, total := 0, 0
	for {
		rng := rand.New(rand.NewSource(*seed + int64(rounds)))
		shared := docs(0, rounds) // documents read by every goroutine at once
		ops := make([]mpath.Operation, len(queries))
		for i, q := range queries {
			ops[i], _ = mpath.ParseString(q)
		}
		// every third round is a storm on one feature: all goroutines evaluate nothing but Select with a
		// handful of different sub-queries (whatever Select shares between calls is hit from all sides)
		var selectOps []int
		for i, q := range queries {
			if strings.Contains(q, ".Select(") {
				selectOps = append(selectOps, i)
			}
		}
		storm := rounds%3 == 1
		plans := make([][]call, *g)
		for t := range plans {
			for i := 0; i < *n; i++ {
				var c call
				if storm {
					plans[t] = append(plans[t], call{kind: "do", op: selectOps[rng.Intn(len(selectOps))], data: rng.Intn(2 * len(shared))})
					continue
				}
				switch rng.Intn(3) {
				case 0:
					c = call{kind: "parse", q: queries[rng.Intn(len(queries))]}
					if rng.Intn(4) == 0 {
						c.q += fmt.Sprintf(" /* %d */", rng.Intn(1000)) // distinct text
					}
					if rng.Intn(5) == 0 {
						c.q = coldQuery(rng, rounds)
					}
				case 1:
					c = call{kind: "do", op: rng.Intn(len(queries)), data: rng.Intn(2 * len(shared))} // data >= len(shared): the shared documents
				default:
					c = call{kind: "validate", q: vqueries[rng.Intn(len(vqueries))], schema: rng.Intn(len(schemas)), cur: []string{"", "s1", "s2", "input"}[rng.Intn(4)]}
					if rng.Intn(3) == 0 {
						c.q += fmt.Sprintf(" /* %d-%d */", rounds, rng.Intn(100000)) // a cache key never seen before
					}
				}
				if i == 0 {
					// every goroutine starts, at the same moment, with something nobody has done in this
					// process: the first parse of a name the library does not know / the first validation
					// against this schema / the first evaluation of an operation with regular expressions
					switch (int(*seed) + rounds) % 3 {
					case 0:
						c = call{kind: "parse", q: coldQuery(rng, rounds)}
					case 1:
						c = call{kind: "validate", q: vqueries[rng.Intn(len(vqueries))], schema: rng.Intn(len(schemas)), cur: "s1"}
					default:
						c = call{kind: "do", op: 22 + rng.Intn(5), data: rng.Intn(len(shared))}
					}
				}
				plans[t] = append(plans[t], c)
			}
		}
		// the concurrent phase comes FIRST, on cold state (schemas spelled as never before, operations
		// never evaluated); the sequential reference is computed afterwards on another spelling
		schemaSuffix = fmt.Sprintf("\n// concurrent phase %d-%d\n", *seed, rounds)
		got := make([][]string, *g)
		var wg sync.WaitGroup
		mismatches := 0
		release := make(chan struct{})
		for t := range plans {
			wg.Add(1)
			go func(t int) {
				defer wg.Done()
				r := rand.New(rand.NewSource(*seed*1000 + int64(t)))
				ds := append(docs(1+t+rounds*(*g), t), shared...) // own documents (regular expressions spelled as no one did before, keys in this goroutine's case) and the shared ones
				<-release                                         // released together
				for _, c := range plans[t] {
					if r.Intn(3) == 0 {
						runtime.Gosched()
					}
					got[t] = append(got[t], run(c, ops, ds))
				}
			}(t)
		}
		close(release)
		wg.Wait()
		schemaSuffix = fmt.Sprintf("\n// reference phase %d-%d\n", *seed, rounds)
		// sequential reference, computed alone
		refOps := make([]mpath.Operation, len(queries))
		for i, q := range queries {
			refOps[i], _ = mpath.ParseString(q)
		}
		want := make([][]string, *g)
		for t := range plans {
			ds := append(docs(0, t), shared...)
			for _, c := range plans[t] {
				cc := c
				if cc.kind == "validate" {
					cc.q += " " // a different cache key with the same meaning: the concurrent run still sees a cold cache
				}
				want[t] = append(want[t], run(cc, refOps, ds))
			}
		}
		for t := range plans {
			for i, c := range plans[t] {
				g1, w := got[t][i], want[t][i]
				if c.kind == "validate" {
					// the reference query carried one more trailing space: compare modulo the echoed query text
					g1, w = stripQueryEcho(g1), stripQueryEcho(w)
				}
				if g1 != w {
					mismatches++
					if mismatches <= 3 {
						fmt.Printf("MISMATCH %s %q: concurrent %.200s | alone %.200s\n", c.kind, c.q, g1, w)
					}
				}
			}
		}
		total += *g * *n
		rounds++
		if mismatches > 0 {
			fmt.Printf("RESULT mismatches=%d calls=%d\n", mismatches, total)
			os.Exit(1)
		}
		if time.Since(start) >= time.Duration(*secs)*time.Second {
			break
		}
	}
	fmt.Printf("RESULT ok calls=%d rounds=%d goroutines=%d\n", total, rounds, *g)
}

var echoRe = regexp.MustCompile(`"string":"[^"]*"`)

func stripQueryEcho(s string) string { return echoRe.ReplaceAllString(s, `"string":""`) }
