// Package witness holds one small test per defect recorded in DESIGN.md §6.
// Each subtest asserts what the property requires, so it FAILS on a tree that
// still has the defect and PASSES on the repaired tree. It is documentation of
// the findings and the demonstration behind every "fix:" commit in /repo; the
// registered checks do not depend on it.
package witness

import (
	"encoding/json"
	"errors"
	"fmt"
	"io"
	"os"
	"reflect"
	"strings"
	"sync"
	"testing"
	"time"

	"github.com/machship/mpath"
	"github.com/shopspring/decimal"
)

func do(t *testing.T, q string, data any) (res any, err error, panicked any) {
	t.Helper()
	defer func() {
		if r := recover(); r != nil {
			panicked = r
		}
	}()
	op, perr := mpath.ParseString(q)
	if perr != nil {
		return nil, fmt.Errorf("parse: %w", perr), nil
	}
	if op == nil {
		return nil, fmt.Errorf("parse returned (nil,nil)"), nil
	}
	res, err = op.Do(data, data)
	return
}

func mustNoPanic(t *testing.T, q string, data any) (any, error) {
	t.Helper()
	res, err, p := do(t, q, data)
	if p != nil {
		t.Fatalf("%s panicked: %v", q, p)
	}
	if _, isErr := res.(error); isErr && err == nil {
		t.Fatalf("%s returned an error value as data with nil error: %v", q, res)
	}
	return res, err
}

func TestF1_NullMidPath(t *testing.T) {
	res, err := mustNoPanic(t, `$.n.x`, map[string]any{"n": nil})
	if err == nil {
		t.Fatalf("want error, got %v", res)
	}
}

func TestF2_ObjectFilterIgnoresPredicate(t *testing.T) {
	res, err := mustNoPanic(t, `$.o[@.x.Equal(2)]`, map[string]any{"o": map[string]any{"x": 1}})
	if err != nil || res != nil {
		t.Fatalf("want (nil,nil), got (%v,%v)", res, err)
	}
	res, err = mustNoPanic(t, `$.o[@.x.Equal(1)]`, map[string]any{"o": map[string]any{"x": 1}})
	if err != nil || res == nil {
		t.Fatalf("want the object, got (%v,%v)", res, err)
	}
}

func TestF3_ZeroDivisor(t *testing.T) {
	for _, q := range []string{`$.a.Divide(0)`, `$.a.Modulo(0)`, `$.a.Divide("0")`, `$.a.Divide($.z)`} {
		_, err := mustNoPanic(t, q, map[string]any{"a": 1, "z": 0})
		if err == nil {
			t.Fatalf("%s: want error", q)
		}
	}
}

func TestF4_IndexBounds(t *testing.T) {
	d := map[string]any{"xs": []any{"a", "b"}, "e": []any{}}
	for _, q := range []string{`$.xs.Index(-1)`, `$.xs.Index(2)`, `$.xs.Index(1e30)`, `$.xs.Index(18446744073709551616)`, `$.e.Index(0)`, `$.e.First()`, `$.e.Last()`} {
		res, err := mustNoPanic(t, q, d)
		if err == nil {
			t.Fatalf("%s: want error, got %v", q, res)
		}
	}
	res, err := mustNoPanic(t, `$.xs.Index(1)`, d)
	if err != nil || res != "b" {
		t.Fatalf("Index(1): %v %v", res, err)
	}
}

func TestF5_NegativeCounts(t *testing.T) {
	for _, f := range []string{"Left", "Right", "TrimLeft", "TrimRight"} {
		_, err := mustNoPanic(t, `$.s.`+f+`(-1)`, map[string]any{"s": "abc"})
		if err == nil {
			t.Fatalf("%s(-1): want error", f)
		}
	}
}

type withUnexported struct {
	A int
	b int
}

func TestF6_IsEmpty(t *testing.T) {
	mustNoPanic(t, `$.n.IsEmpty()`, map[string]any{"n": nil})
	mustNoPanic(t, `$.s.IsEmpty()`, map[string]any{"s": withUnexported{1, 2}})
	mustNoPanic(t, `$.s.IsNullOrEmpty()`, map[string]any{"s": withUnexported{}})
}

func TestF7_UnexportedField(t *testing.T) {
	_, err := mustNoPanic(t, `$.b`, withUnexported{1, 2})
	if !errors.Is(err, mpath.ErrKeyNotFound) {
		t.Fatalf("want ErrKeyNotFound, got %v", err)
	}
	_, err = mustNoPanic(t, `$.a.value`, map[string]any{"a": 1})
	if !errors.Is(err, mpath.ErrKeyNotFound) {
		t.Fatalf("want ErrKeyNotFound, got %v", err)
	}
}

func TestF8_EmptyQuery(t *testing.T) {
	for _, q := range []string{"", " ", "\n\t", "// c", "/* c */"} {
		op, err := mpath.ParseString(q)
		if (op == nil) == (err == nil) {
			t.Fatalf("%q: want exactly one of (op, err), got (%v,%v)", q, op, err)
		}
	}
	mustNoPanic(t, `$.xs.Select("")`, map[string]any{"xs": []any{1}})
}

type faultReader struct {
	s      string
	pos    int
	failAt int
}

func (f *faultReader) Read(p []byte) (int, error) {
	if f.pos >= f.failAt {
		return 0, fmt.Errorf("injected fault")
	}
	if f.pos >= len(f.s) {
		return 0, io.EOF
	}
	n := copy(p, f.s[f.pos:f.failAt])
	f.pos += n
	return n, nil
}
func (f *faultReader) Seek(off int64, whence int) (int64, error) { f.pos = int(off); return off, nil }

func TestF9_ScannerErrors(t *testing.T) {
	// capture stderr
	old := os.Stderr
	r, w, _ := os.Pipe()
	os.Stderr = w
	op, err := mpath.ParseString(`$.a.Equal("abc`)
	op2, err2 := mpath.ParseReadSeeker(&faultReader{s: `$.a.b.c`, failAt: 3})
	w.Close()
	os.Stderr = old
	out, _ := io.ReadAll(r)
	if len(out) != 0 {
		t.Errorf("wrote to stderr: %q", out)
	}
	if err == nil || op != nil {
		t.Errorf("unterminated literal: want error, got op=%v err=%v", op, err)
	}
	if err2 == nil || op2 != nil {
		t.Errorf("read fault: want error, got op=%v err=%v", op2, err2)
	}
}

func TestF10_NaNInfNumerals(t *testing.T) {
	for _, q := range []string{`$.a.Equal(NaN)`, `$.a.Add(Inf)`, `$.a.Add(infinity)`, `$.a.Add(+Inf)`, `$.a.Add(-inf)`} {
		func() {
			defer func() {
				if r := recover(); r != nil {
					t.Fatalf("%s panicked: %v", q, r)
				}
			}()
			op, err := mpath.ParseString(q)
			if (op == nil) == (err == nil) {
				t.Fatalf("%s: want exactly one", q)
			}
		}()
	}
}

func TestF11_SprintKeepsQuestionMark(t *testing.T) {
	op, err := mpath.ParseString(`$.a?.IsNull()`)
	if err != nil {
		t.Fatal(err)
	}
	s := op.Sprint(0)
	op2, err := mpath.ParseString(s)
	if err != nil {
		t.Fatalf("reparse %q: %v", s, err)
	}
	d := map[string]any{}
	r1, e1 := op.Do(d, d)
	r2, e2 := op2.Do(d, d)
	if !reflect.DeepEqual(r1, r2) || (e1 == nil) != (e2 == nil) {
		t.Fatalf("printed %q evaluates differently: (%v,%v) vs (%v,%v)", s, r1, e1, r2, e2)
	}
}

type myInt int
type myFloat float64

func TestF12_NumericCarriers(t *testing.T) {
	big := uint64(1) << 63
	seven := 7
	cases := []struct {
		v    any
		want string
	}{
		{big, "9223372036854775808"},
		{uint(big + 5), "9223372036854775813"},
		{myInt(42), "42"},
		{myFloat(1.5), "1.5"},
		{&seven, "7"},
	}
	for _, c := range cases {
		res, err := mustNoPanic(t, `$.n`, map[string]any{"n": c.v})
		if err != nil {
			t.Fatalf("%T: %v", c.v, err)
		}
		d, ok := res.(decimal.Decimal)
		if !ok || d.String() != c.want {
			t.Errorf("%T %v: want decimal %s, got %T %v", c.v, c.v, c.want, res, res)
		}
	}
	type S struct{ N uint64 }
	res, _ := mustNoPanic(t, `$.N`, S{big})
	if d, ok := res.(decimal.Decimal); !ok || d.String() != "9223372036854775808" {
		t.Errorf("struct field uint64: got %T %v", res, res)
	}
}

func TestF13_Analyses(t *testing.T) {
	op, _ := mpath.ParseString(`$.a.Equal({$.b.Equal(1)})`)
	if got := mpath.GetRootFieldsAccessed(op); !reflect.DeepEqual(got, []string{"a", "b"}) {
		t.Errorf("F13a root fields: %v", got)
	}
	op, _ = mpath.ParseString(`$.a.b.c[@.x.Equal(1),@.y.Equal(2)]`)
	got := mpath.AddressedPaths(op)
	want := [][]string{{"a", "b", "c", "x"}, {"a", "b", "c", "y"}}
	if !reflect.DeepEqual(got, want) {
		t.Errorf("F13b addressed paths: %v", got)
	}
}

func TestF15_ConcurrentValidate(t *testing.T) {
	if os.Getenv("WITNESS_CONC") == "" {
		t.Skip("fatal on the defective tree (concurrent map writes); run with WITNESS_CONC=1")
	}
	var wg sync.WaitGroup
	for g := 0; g < 16; g++ {
		wg.Add(1)
		go func(g int) {
			defer wg.Done()
			for i := 0; i < 300; i++ {
				mpath.CueValidate(fmt.Sprintf("$.input.a%d_%d", g, i), fmt.Sprintf("input: { a%d_%d: int }", g, i), "")
			}
		}(g)
	}
	wg.Wait()
}

func validateAvail(t *testing.T, schema, cur, field string) (available bool, hung bool) {
	done := make(chan bool, 1)
	go func() {
		tc, err := mpath.CueValidate("$."+field+".x", schema, cur)
		if err != nil {
			done <- !strings.Contains(err.Error(), "not available")
			return
		}
		done <- !strings.Contains(tc.GetErrors(), "not available")
	}()
	select {
	case a := <-done:
		return a, false
	case <-time.After(3 * time.Second):
		return false, true
	}
}

func TestF15b_Closure(t *testing.T) {
	mk := func(adeps string) string {
		return `
input: {x: int}
A: {x: int, _dependencies: ["C"]}
B: {x: int, _dependencies: []}
C: {x: int, _dependencies: ["D"]}
D: {x: int, _dependencies: []}
S: {x: int, _dependencies: [` + adeps + `]}
`
	}
	a1, h1 := validateAvail(t, mk(`"A","B"`), "S", "D")
	a2, h2 := validateAvail(t, mk(`"B","A"`), "S", "D")
	if h1 || h2 {
		t.Fatalf("hang")
	}
	if !a1 || !a2 {
		t.Errorf("D must be available through S->A->C->D whatever the list order: %v %v", a1, a2)
	}
	cyc := `
input: {x: int}
A: {x: int, _dependencies: ["B"]}
B: {x: int, _dependencies: ["A"]}
`
	if os.Getenv("WITNESS_CONC") != "" { // leaks a spinning goroutine on the defective tree
		_, h := validateAvail(t, cyc, "A", "B")
		if h {
			t.Errorf("cyclic dependencies hang")
		}
	}
}

func TestF16_RemoveKeysPure(t *testing.T) {
	d := map[string]any{"m": map[string]any{"ab": 1, "cd": 2}}
	res, err := mustNoPanic(t, `$.m.RemoveKeysByPrefix("a")`, d)
	if len(d["m"].(map[string]any)) != 2 {
		t.Errorf("caller's map was mutated: %v", d)
	}
	if err != nil {
		t.Errorf("want the filtered map, got error %v", err)
	} else if m, ok := res.(map[string]any); !ok || len(m) != 1 {
		t.Errorf("want map with 1 key, got %T %v", res, res)
	}
}

func TestF24_HiddenSelectorPanic(t *testing.T) {
	defer func() {
		if r := recover(); r != nil {
			t.Fatalf("panicked: %v", r)
		}
	}()
	mpath.CueValidate(`$._a+b`, `input: {x: int}`, "")
	mpath.CueValidate(`$.input.x`, `input: {x: int}`, "_a+b")
}

func TestF28_PointerToDecimal(t *testing.T) {
	d := decimal.RequireFromString("1.5")
	doc := map[string]any{"a": &d, "xs": []any{&d}}
	res, err := mustNoPanic(t, `$.a`, doc)
	if got, ok := res.(decimal.Decimal); err != nil || !ok || !got.Equal(d) {
		t.Errorf("$.a on a *decimal.Decimal: want the decimal 1.5, got %T %v %v", res, res, err)
	}
	res, err = mustNoPanic(t, `$.a.Add(1)`, doc)
	if got, ok := res.(decimal.Decimal); err != nil || !ok || !got.Equal(decimal.RequireFromString("2.5")) {
		t.Errorf("$.a.Add(1) on a *decimal.Decimal: want 2.5, got %T %v %v", res, res, err)
	}
	res, err = mustNoPanic(t, `$.xs.First()`, doc)
	if got, ok := res.(decimal.Decimal); err != nil || !ok || !got.Equal(d) {
		t.Errorf("$.xs.First() on []any{*decimal.Decimal}: want the decimal 1.5, got %T %v %v", res, res, err)
	}
}

func TestF29_BlockedOptionalStepNotOffered(t *testing.T) {
	schema := "input: { _dependencies: [], name: string }\ns1: { _dependencies: [], result: string }\ns2?: { _dependencies: [], result: string }\ns3: { _dependencies: [\"s1\"], result: string }\n"
	tc, err := mpath.CueValidate("$.input.name", schema, "s3")
	if err != nil || tc == nil {
		t.Fatalf("unexpected: %v", err)
	}
	b, _ := json.Marshal(tc)
	var tree map[string]any
	json.Unmarshal(b, &tree)
	parts, _ := tree["parts"].([]any)
	root, _ := parts[0].(map[string]any)
	av, _ := root["available"].(map[string]any)
	fields := fmt.Sprint(av["fields"])
	if fields != "[input s1]" {
		t.Errorf("fields offered at the root for step s3: want [input s1] (s2 is blocked, s3 is the current step), got %s", fields)
	}
}

func TestF30_QuotedOptionalStepBlocked(t *testing.T) {
	schema := "input: { _dependencies: [], name: string }\n\"s-1\": { _dependencies: [], result: string }\n\"s-2\"?: { _dependencies: [], result: string }\n\"s-3\": { _dependencies: [\"s-1\"], result: string }\n"
	tc, err := mpath.CueValidate("$.s-2.result", schema, "s-3")
	if tc == nil {
		t.Fatalf("unexpected: %v", err)
	}
	b, _ := json.Marshal(tc)
	if !strings.Contains(string(b), "not available") {
		t.Errorf("s-2 is outside the dependencies of s-3 and must be refused; got %v %.300s", err, b)
	}
}

func TestF31_ElementTypeOnlyOnTheSchemaList(t *testing.T) {
	schema := "ls: [...string]\nln: [...number]\n"
	for _, q := range []string{"$.ls.AsArray().First().Left(1)", "$.ln.AsArray().Last().Add(1)"} {
		tc, err := mpath.CueValidate(q, schema, "")
		if tc == nil {
			t.Fatalf("%s: %v", q, err)
		}
		b, _ := json.Marshal(tc)
		if !strings.Contains(string(b), `"error"`) {
			t.Errorf("%s fails at run time with a wrong-type error (AsArray().First() is the list itself): it must not be accepted; got %.200s", q, b)
		}
	}
	tc, _ := mpath.CueValidate("$.ls.First().Left(1)", schema, "")
	b, _ := json.Marshal(tc)
	if strings.Contains(string(b), `"error"`) {
		t.Errorf("$.ls.First().Left(1) is a String call on a string element and must be accepted: %.300s", b)
	}
}

type failingReader struct {
	data []byte
	pos  int
	at   int
	err  error
}

func (r *failingReader) Read(p []byte) (int, error) {
	if r.pos >= r.at {
		return 0, r.err
	}
	n := copy(p, r.data[r.pos:r.at])
	r.pos += n
	return n, nil
}
func (r *failingReader) Seek(o int64, w int) (int64, error) { r.pos = int(o); return o, nil }

func TestF32_ReadFailureWithScannerMessageText(t *testing.T) {
	op, err := mpath.ParseReadSeeker(&failingReader{data: []byte("$.a.b.c"), at: 3, err: errors.New("invalid char escape")})
	if err == nil || op != nil {
		t.Errorf("a reader failing after 3 bytes must yield an error and no operation; got %v %v", op, err)
	}
	if _, err := mpath.ParseString(`$.s.DoesMatchRegex("\d+")`); err != nil {
		t.Errorf("an unknown escape in a literal is still tolerated: %v", err)
	}
}

func TestF33_SelectOverMapWithNonStringKeysIsDeterministic(t *testing.T) {
	m := map[any]any{}
	mi := map[int]any{}
	for i := 0; i < 6; i++ {
		m[fmt.Sprintf("k%d", i)] = map[string]any{"v": i}
		mi[i] = map[string]any{"v": i}
	}
	m[7] = map[string]any{"v": 7}
	m[true] = map[string]any{"v": 8}
	op, err := mpath.ParseString(`$.m.Select("$.v")`)
	if err != nil {
		t.Fatal(err)
	}
	for _, data := range []any{map[string]any{"m": m}, map[string]any{"m": mi}} {
		seen := map[string]bool{}
		for i := 0; i < 60; i++ {
			r, err := op.Do(data, data)
			seen[fmt.Sprint(r, err)] = true
		}
		if len(seen) != 1 {
			t.Errorf("the same operation on the same data gave %d different answers", len(seen))
		}
	}
}
