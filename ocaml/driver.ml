(* driver.ml — reads one case per line on stdin, runs the extracted model's
   [run_case], prints one result per line.  No logic lives here. *)
let explode s = List.init (String.length s) (String.get s)
let implode l = String.of_seq (List.to_seq l)

let () =
  try
    while true do
      let line = input_line stdin in
      let out = try implode (Model.run_case_all (explode line)) with Stack_overflow -> "driver-stack-overflow" in
      print_string out;
      print_char '\n'
    done
  with End_of_file -> ()
