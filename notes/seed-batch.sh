#!/bin/bash
# usage: run.sh id...   — copy from /tmp/mut/out and run seedtest sequentially
cd /verif
for id in "$@"; do
  if [ ! -d seeded/$id ]; then mkdir -p seeded/$id; cp /tmp/mut/out/$id/patch.diff /tmp/mut/out/$id/zz_demo_test.go /tmp/mut/out/$id/meta.json seeded/$id/; fi
  bin/seedtest seeded/$id
done
echo ALLDONE
