#!/bin/bash
# usage: hloop.sh "H08 H09 ..." "C07 C11 ..."
cd /verif
for hd in $1; do
  git -C /repo apply /verif/seeded/$hd/patch.diff || { echo "$hd: does not apply"; continue; }
  for c in $2; do
    out=$(timeout 900 bin/check $c 2>&1); rc=$?
    v=$(echo "$out" | grep -c '^VIOLATION')
    echo "$hd $c exit=$rc violations=$v $(echo "$out" | grep -A1 '^VIOLATION' | head -2 | tr '\n' ' ' | cut -c1-200)"
    echo "$(date -Is) round6-recheck check=$c exit=$rc violations=$v" >> seeded/$hd/runs.log
  done
  git -C /repo checkout -- .
done
echo ALLDONE
